#!/bin/bash
# Oracle cross-check (self-validation of the reference models, not a property check):
#   oracles/xcheck/run.sh [seed] [cases-per-family]
# Builds the tool (offline; depends on vref only, not on /repo) and compares vref with libdbus-1 and GLib.
# Exit 0: no unexplained disagreement (or the libraries are absent); exit 1: an oracle needs looking at.
set -eu
HERE=$(cd "$(dirname "$0")" && pwd)
export CARGO_NET_OFFLINE=true CARGO_TARGET_DIR=$HERE/../../.target/xcheck
[ -f $HERE/Cargo.lock ] || cp /repo/Cargo.lock $HERE/Cargo.lock
(cd $HERE && cargo build --release --offline 2>&1 | tail -1)
rc=0
$CARGO_TARGET_DIR/release/xcheck --seed ${1:-1} --cases ${2:-200000} --out $HERE/../xcheck-report.json || rc=1
# the XML well-formedness checker of C27 against expat
python3 $HERE/xml_crosscheck.py $CARGO_TARGET_DIR/release/xcheck ${1:-1} 50000 || rc=1
exit $rc
