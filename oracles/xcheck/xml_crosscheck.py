#!/usr/bin/env python3
"""Cross-check of the XML well-formedness checker that decides C27 (engines/zg/src/xmlcheck.rs) against expat
(the XML parser in the Python standard library): introspection-shaped documents with hostile text and 0-3 character-level
edits; both must agree on well-formed / not well-formed. Self-validation of an oracle, not a property check.

  xml_crosscheck.py <xcheck-binary> [seed] [cases]      exit 1 on an unexplained disagreement
"""
import random, subprocess, sys, tempfile, os, json
import xml.parsers.expat

TEXT = ["plain words", "a -- b", "ends with -", "--->", "-", "---", "x < y", "a & b", "&amp;", "&lt;tag&gt;", "&#65;", "&#x41;", "&bogus;", "&#0;", "]]>",
        "<![CDATA[ raw < & ]]>", "it's \"quoted\"", "é ü 漢", "tab\there", "", "<?pi data?>", "<!-- nested -->", "a--", "--a", "- -"]
NAMES = ["org.x.Y", "Method", "arg0", "a.b", "n-1", "_x", "x:y", "1bad", "a b", ""]
SNIPPETS = ["<!--", "-->", "--", "]]>", "<![CDATA[", "&amp;", "&#x41;", "&#0;", "&bogus;", "<?pi x?>", "<?xml version=\"1.0\"?>", "<", ">", "&", "'", "\"", "/", "=", " ", "\x01", "é", "-", "!", "?"]


def esc_attr(s):
    return s.replace("&", "&amp;").replace("<", "&lt;").replace('"', "&quot;")


def gen(rng):
    parts = []
    if rng.random() < 0.5:
        parts.append('<?xml version="1.0" encoding="UTF-8"?>\n')
    if rng.random() < 0.5:
        parts.append('<!DOCTYPE node PUBLIC "-//freedesktop//DTD D-BUS Object Introspection 1.0//EN"\n "http://www.freedesktop.org/standards/dbus/1.0/introspect.dtd">\n')
    parts.append("<node>\n")
    for _ in range(rng.randint(0, 3)):
        if rng.random() < 0.6:
            parts.append("  <!--" + rng.choice(TEXT) + "-->\n")
        q = rng.choice(['"', "'"])
        nm = rng.choice(NAMES)
        val = esc_attr(nm) if rng.random() < 0.8 else nm
        parts.append(f"  <interface name={q}{val}{q}>\n")
        for _ in range(rng.randint(0, 3)):
            if rng.random() < 0.5:
                parts.append("    <!-- " + rng.choice(TEXT) + " -->\n")
            kind = rng.choice(["method", "signal", "property"])
            attrs = f' name="{esc_attr(rng.choice(NAMES))}"'
            if kind == "property":
                attrs += ' type="s" access="read"'
            if rng.random() < 0.15:
                attrs += attrs.split()[0].join([" ", ""])  # duplicated attribute
            if rng.random() < 0.4:
                parts.append(f"    <{kind}{attrs}/>\n")
            else:
                parts.append(f"    <{kind}{attrs}>\n")
                for _ in range(rng.randint(0, 2)):
                    t = rng.choice(TEXT)
                    v = esc_attr(t) if rng.random() < 0.7 else t
                    parts.append(f'      <annotation name="org.freedesktop.DBus.Doc" value="{v}"/>\n')
                if rng.random() < 0.2:
                    parts.append(rng.choice(TEXT))
                parts.append(f"    </{kind if rng.random() < 0.95 else 'other'}>\n")
        parts.append("  </interface>\n")
    parts.append("</node>\n")
    if rng.random() < 0.1:
        parts.append(rng.choice(["<!-- after -->", "<extra/>", "text", "<?pi?>"]))
    doc = "".join(parts)
    for _ in range(rng.choice([0, 0, 1, 1, 2, 3])):
        p = rng.randrange(len(doc) + 1)
        sn = rng.choice(SNIPPETS)
        r = rng.random()
        if r < 0.4:
            doc = doc[:p] + sn + doc[p:]
        elif r < 0.7 and p < len(doc):
            doc = doc[:p] + doc[p + 1:]
        elif p < len(doc):
            doc = doc[:p] + sn + doc[p + len(sn):]
    return doc


def expat_ok(doc):
    p = xml.parsers.expat.ParserCreate()
    try:
        p.Parse(doc.encode("utf-8"), True)
        return True, ""
    except xml.parsers.expat.ExpatError as e:
        return False, str(e)
    except (LookupError, ValueError) as e:
        return None, f"python: {e}"


def main():
    tool = sys.argv[1]
    seed = int(sys.argv[2]) if len(sys.argv) > 2 else 1
    cases = int(sys.argv[3]) if len(sys.argv) > 3 else 50000
    rng = random.Random(seed)
    docs = [gen(rng) for _ in range(cases)]
    docs = [d for d in docs if "\x00" not in d]
    with tempfile.NamedTemporaryFile(delete=False) as f:
        f.write(b"\x00".join(d.encode("utf-8") for d in docs))
        path = f.name
    out = subprocess.run([tool, "--xml-verdicts", path], capture_output=True, text=True).stdout.splitlines()
    os.unlink(path)
    assert len(out) == len(docs), (len(out), len(docs))
    both_ok = both_bad = 0
    explained = {}
    unexplained = []
    for d, line in zip(docs, out):
        ours = line.startswith("1")
        theirs, why = expat_ok(d)
        if theirs is None:
            explained["skipped: encoding name expat's host cannot look up"] = explained.get("skipped: encoding name expat's host cannot look up", 0) + 1
            continue
        if ours == theirs:
            both_ok += ours
            both_bad += (not ours)
            continue
        reason = line[2:]
        # explained differences
        if theirs and "internal subset" in reason:
            k = "checker-refuses-a-DOCTYPE-internal-subset-(by design)"
        elif theirs and "bad version number" in reason:
            k = "expat-accepts-version-strings-other-than-1.N"
        elif theirs and "undeclared entity" in reason and "<!DOCTYPE" in d:
            k = "undeclared-entity-with-an-external-DTD-named: not a well-formedness error for a non-validating parser; the checker refuses it"
        elif False:
            k = None

        else:
            k = None
        if k:
            explained[k] = explained.get(k, 0) + 1
        elif len(unexplained) < 30:
            unexplained.append({"document": d, "xmlcheck": line, "expat": why or "well-formed"})
        else:
            explained["(unexplained, not listed)"] = explained.get("(unexplained, not listed)", 0) + 1
    n_un = len(unexplained) + explained.get("(unexplained, not listed)", 0)
    rep = {"seed": seed, "cases": len(docs), "both_well_formed": both_ok, "both_not_well_formed": both_bad, "explained": explained, "unexplained": n_un, "unexplained_examples": unexplained,
           "expat_version": xml.parsers.expat.EXPAT_VERSION}
    here = os.path.dirname(os.path.abspath(__file__))
    json.dump(rep, open(os.path.join(here, "..", "xcheck-xml-report.json"), "w"), indent=1, ensure_ascii=False)
    print(f"[xcheck-xml] cases={len(docs)} both-well-formed={both_ok} both-not={both_bad} explained={sum(v for k, v in explained.items() if not k.startswith('('))} unexplained={n_un} ({xml.parsers.expat.EXPAT_VERSION})")
    sys.exit(1 if n_un else 0)


main()
