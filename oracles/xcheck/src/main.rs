//! Oracle cross-check: the reference models in `vref` (which decide the properties) against the two
//! independent implementations installed in the image — libdbus-1 (signatures, names, whole messages and
//! message bodies through `dbus_message_demarshal`) and GLib (GVariant serialisation).
//!
//! This validates the ORACLES, not zbus: no verdict on a property depends on it. A disagreement that is not
//! one of the explained categories below (each justified from the specification in DESIGN.md, Appendix A.10)
//! makes the run exit 1, and means an oracle has to be looked at before its verdicts are believed.
//!
//!   xcheck [--seed N] [--cases K] [--out report.json]

mod ffi;

use ffi::{DBus, GLib};
use serde_json::{json, Value as J};
use std::collections::BTreeMap;
use std::ffi::{c_void, CString};
use vref::dbus::{marshal_marked, mutate, unmarshal_seq, Endian};
use vref::msg::{self, Msg};
use vref::names as rn;
use vref::prng::Rng;
use vref::sig::{gen_sig, parse_sig, seq_to_string, GenOpts, Sig, SigOpts};
use vref::val::{gen_val, Val, ValOpts};

#[derive(Default)]
struct Family {
    cases: u64,
    both_accept: u64,
    both_reject: u64,
    skipped: u64,
    explained: BTreeMap<String, u64>,
    explained_examples: BTreeMap<String, J>,
    unexplained: Vec<J>,
    extra: BTreeMap<String, u64>,
}

impl Family {
    fn agree(&mut self, accept: bool) {
        self.cases += 1;
        if accept {
            self.both_accept += 1;
        } else {
            self.both_reject += 1;
        }
    }
    fn explained(&mut self, why: &str, example: J) {
        self.cases += 1;
        *self.explained.entry(why.to_string()).or_insert(0) += 1;
        self.explained_examples.entry(why.to_string()).or_insert(example);
    }
    fn unexplained(&mut self, detail: J) {
        self.cases += 1;
        if self.unexplained.len() < 40 {
            self.unexplained.push(detail);
        } else {
            *self.extra.entry("unexplained_not_listed".into()).or_insert(0) += 1;
        }
    }
    fn bump(&mut self, k: &str) {
        *self.extra.entry(k.to_string()).or_insert(0) += 1;
    }
    fn n_unexplained(&self) -> u64 {
        self.unexplained.len() as u64 + self.extra.get("unexplained_not_listed").copied().unwrap_or(0)
    }
    fn to_json(&self) -> J {
        json!({
            "cases": self.cases, "both_accept": self.both_accept, "both_reject": self.both_reject, "skipped": self.skipped,
            "explained_disagreements": self.explained, "explained_examples": self.explained_examples,
            "unexplained_disagreements": self.n_unexplained(), "unexplained": self.unexplained, "other_counts": self.extra,
        })
    }
}

fn show(b: &[u8]) -> String {
    String::from_utf8_lossy(b).escape_default().to_string()
}

// ---------------------------------------------------------------- signatures

const SIG_ALPHABET: &[u8] = b"ybnqiuxtdsogvha(){}aa((ii";

fn gen_sig_candidate(rng: &mut Rng) -> Vec<u8> {
    match rng.below(10) {
        0..=2 => {
            // valid sequences
            let o = GenOpts { max_depth: 1 + rng.usize_below(5), allow_fd: true, ..GenOpts::default() };
            let n = rng.usize_below(4);
            let seq: Vec<Sig> = (0..n).map(|_| gen_sig(rng, &o, 0)).collect();
            seq_to_string(&seq).into_bytes()
        }
        3..=5 => {
            // a valid one with 1-3 character edits
            let o = GenOpts { max_depth: 1 + rng.usize_below(4), allow_fd: true, ..GenOpts::default() };
            let n = 1 + rng.usize_below(3);
            let seq: Vec<Sig> = (0..n).map(|_| gen_sig(rng, &o, 0)).collect();
            let mut b = seq_to_string(&seq).into_bytes();
            for _ in 0..1 + rng.usize_below(3) {
                let c = *rng.pick(b"ybnqiuxtdsogvha(){}mrez *?@&^");
                match rng.below(3) {
                    0 if !b.is_empty() => {
                        let p = rng.usize_below(b.len());
                        b[p] = c;
                    }
                    1 if !b.is_empty() => {
                        let p = rng.usize_below(b.len());
                        b.remove(p);
                    }
                    _ => {
                        let p = rng.usize_below(b.len() + 1);
                        b.insert(p, c);
                    }
                }
            }
            b
        }
        6..=7 => {
            let n = rng.usize_below(9);
            (0..n).map(|_| *rng.pick(SIG_ALPHABET)).collect()
        }
        8 => {
            // nesting-depth boundaries
            let d = *rng.pick(&[30usize, 31, 32, 33, 34, 63, 64, 65]);
            match rng.below(4) {
                0 => format!("{}y", "a".repeat(d)).into_bytes(),
                1 => format!("{}y{}", "(".repeat(d), ")".repeat(d)).into_bytes(),
                2 => {
                    let a = d / 2;
                    format!("{}{}y{}", "a".repeat(a), "(".repeat(d - a), ")".repeat(d - a)).into_bytes()
                }
                _ => format!("{}{}y{}", "a(".repeat(d / 2), "", ")".repeat(d / 2)).into_bytes(),
            }
        }
        _ => {
            // length boundaries
            let n = *rng.pick(&[253usize, 254, 255, 256, 257]);
            match rng.below(3) {
                0 => "i".repeat(n).into_bytes(),
                1 => format!("{}{}", "ai".repeat(n / 2), if n % 2 == 1 { "y" } else { "" }).into_bytes(),
                _ => format!("({})", "s".repeat(n - 2)).into_bytes(),
            }
        }
    }
}

fn family_sig(d: &DBus, seed: u64, cases: u64) -> Family {
    let mut f = Family::default();
    let mut rng = Rng::new(seed ^ 0x5151);
    for _ in 0..cases {
        let s = gen_sig_candidate(&mut rng);
        let Some(theirs) = d.signature(&s) else {
            f.skipped += 1;
            continue;
        };
        let ours = parse_sig(&s, SigOpts { allow_maybe: false }).is_ok();
        if ours == theirs {
            f.agree(ours);
        } else {
            f.unexplained(json!({"signature": show(&s), "len": s.len(), "vref_accepts": ours, "libdbus_accepts": theirs}));
        }
    }
    f
}

// ---------------------------------------------------------------- names

fn gen_name_candidate(rng: &mut Rng) -> Vec<u8> {
    let base: String = match rng.below(8) {
        0 => rn::gen_interface_name(rng),
        1 => rn::gen_member_name(rng),
        2 => rn::gen_unique_name(rng),
        3 => rn::gen_well_known_name(rng),
        4 => vref::val::gen_object_path(rng),
        5 => {
            let n = rng.usize_below(7);
            (0..n).map(|_| *rng.pick(&['a', 'Z', '0', '_', '-', '.', ':', '/', '9', 'é', ' ', '+'])).collect()
        }
        6 => {
            // length boundaries
            let n = *rng.pick(&[254usize, 255, 256]);
            match rng.below(4) {
                0 => format!("a.{}", "b".repeat(n - 2)),
                1 => format!(":1.{}", "2".repeat(n - 3)),
                2 => "m".repeat(n),
                _ => format!("/{}", "p".repeat(n + 300)),
            }
        }
        _ => String::new(),
    };
    let mut b = base.into_bytes();
    if rng.chance(1, 2) {
        for _ in 0..1 + rng.usize_below(2) {
            let c = *rng.pick(b"aZ09_-.:/ +*\x7f\xc3");
            match rng.below(3) {
                0 if !b.is_empty() => {
                    let p = rng.usize_below(b.len());
                    b[p] = c;
                }
                1 if !b.is_empty() => {
                    let p = rng.usize_below(b.len());
                    b.remove(p);
                }
                _ => {
                    let p = rng.usize_below(b.len() + 1);
                    b.insert(p, c);
                }
            }
        }
    }
    b
}

/// What libdbus 1.14 accepts for a name starting with ':' (dbus-marshal-validate.c): any run of name characters, with
/// every '.' followed by a name character; no minimum number of elements.
fn libdbus_lax_unique_name(s: &[u8]) -> bool {
    if s.first() != Some(&b':') || s.len() > 255 {
        return false;
    }
    let ok = |c: u8| c.is_ascii_alphanumeric() || c == b'_' || c == b'-';
    let mut i = 1;
    while i < s.len() {
        if s[i] == b'.' {
            if i + 1 >= s.len() || !ok(s[i + 1]) {
                return false;
            }
            i += 1;
        } else if !ok(s[i]) {
            return false;
        }
        i += 1;
    }
    true
}

fn family_names(d: &DBus, seed: u64, cases: u64) -> Family {
    let mut f = Family::default();
    let mut rng = Rng::new(seed ^ 0x4e41);
    for _ in 0..cases {
        let s = gen_name_candidate(&mut rng);
        if s.contains(&0) {
            f.skipped += 1;
            continue;
        }
        let pairs: [(&str, bool, Option<bool>); 5] = [
            ("path", rn::valid_object_path(&s), d.path(&s)),
            ("interface", rn::valid_interface_name(&s), d.interface(&s)),
            ("member", rn::valid_member_name(&s), d.member(&s)),
            ("error_name", rn::valid_error_name(&s), d.error_name(&s)),
            ("bus_name", rn::valid_bus_name(&s), d.bus_name(&s)),
        ];
        for (kind, ours, theirs) in pairs {
            let Some(theirs) = theirs else { continue };
            if ours == theirs {
                f.agree(ours);
                if ours {
                    f.bump(&format!("accepted_as_{kind}"));
                }
            } else if kind == "bus_name" && theirs && !ours && libdbus_lax_unique_name(&s) {
                // libdbus' _dbus_validate_bus_name only checks the characters of a name that starts with ':' (and that no element
                // is empty after a '.'); the specification asks for two or more non-empty elements in every bus name.
                f.explained("libdbus-lax-unique-name", json!({"input": show(&s)}));
            } else {
                f.unexplained(json!({"kind": kind, "input": show(&s), "len": s.len(), "vref_accepts": ours, "libdbus_accepts": theirs}));
            }
        }
    }
    f
}

// ---------------------------------------------------------------- message bodies

fn envelope(rng: &mut Rng, e: Endian, body: Vec<Val>) -> Msg {
    let serial = 1 + rng.next_u32() % 1000;
    let mut m = match rng.below(4) {
        0 => Msg::method_call(serial, "/a/b", Some("a.b.C"), "M"),
        1 => Msg::signal(serial, "/a", "a.b.C", "Sig"),
        2 => Msg::method_return(serial, 7),
        _ => Msg::error(serial, 7, "a.b.Err"),
    };
    if rng.bool() {
        m = m.with_sender(":1.5");
    }
    if rng.bool() {
        m = m.with_destination("x.y");
    }
    m.endian = e;
    m.with_body(body)
}

fn family_body(d: &DBus, seed: u64, cases: u64) -> Family {
    let mut f = Family::default();
    let mut rng = Rng::new(seed ^ 0xb0d1);
    for _ in 0..cases {
        let o = GenOpts { max_depth: 1 + rng.usize_below(4), allow_fd: false, ..GenOpts::default() };
        let n = 1 + rng.usize_below(3);
        let sigs: Vec<Sig> = (0..n).map(|_| gen_sig(&mut rng, &o, 0)).collect();
        let vo = ValOpts { sig: GenOpts { allow_fd: false, ..GenOpts::default() }, ..ValOpts::default() };
        let vals: Vec<Val> = sigs.iter().map(|s| gen_val(&mut rng, s, &vo)).collect();
        if vals.iter().any(|v| v.count_fds() > 0) {
            f.skipped += 1;
            continue;
        }
        // the types actually generated (a variant's payload is chosen by gen_val)
        let e = if rng.bool() { Endian::Le } else { Endian::Be };
        // a body is laid out exactly like the struct of its values at offset 0
        let (body, marks) = marshal_marked(&Val::St(vals.clone()), e, 0);
        let (mutated, how) = if rng.chance(2, 3) {
            let (m, h) = mutate(&body, &marks, e, &mut rng);
            if rng.chance(1, 3) {
                mutate(&m, &marks, e, &mut rng)
            } else {
                (m, h)
            }
        } else {
            (body.clone(), "valid")
        };
        let env = envelope(&mut rng, e, vals.clone());
        let full = env.marshal();
        if full.len() < body.len() || full[full.len() - body.len()..] != body[..] {
            f.unexplained(json!({"what": "vref message body is not the struct layout of its values", "sig": seq_to_string(&sigs)}));
            continue;
        }
        let mut bytes = full[..full.len() - body.len()].to_vec();
        bytes.extend_from_slice(&mutated);
        bytes[4..8].copy_from_slice(&e.u32(mutated.len() as u32));
        let ours = match unmarshal_seq(&mutated, &sigs, e, 0, None) {
            Ok((_, used)) => used == mutated.len(),
            Err(_) => false,
        };
        let theirs = d.demarshal(&bytes);
        f.bump(&format!("input:{how}"));
        match (ours, &theirs) {
            (true, Some((again, sig))) => {
                if *sig != seq_to_string(&sigs) {
                    f.unexplained(json!({"what": "libdbus reports another body signature", "vref": seq_to_string(&sigs), "libdbus": sig}));
                } else if how == "valid" && *again != bytes {
                    f.unexplained(json!({"what": "libdbus re-marshals the message differently", "sig": sig, "vref": vref::hex(&bytes), "libdbus": vref::hex(again)}));
                } else {
                    f.agree(true);
                }
            }
            (false, None) => f.agree(false),
            (o, t) => {
                let reason = match unmarshal_seq(&mutated, &sigs, e, 0, None) {
                    Ok((_, used)) => format!("trailing bytes: used {used} of {}", mutated.len()),
                    Err((r, t)) => format!("{} in {t}", r.name()),
                };
                f.unexplained(json!({"sig": seq_to_string(&sigs), "endian": e.name(), "mutation": how, "vref_accepts": o, "libdbus_accepts": t.is_some(),
                                     "vref_reason": reason, "body": vref::hex(&mutated), "values": vals.iter().map(|v| v.show()).collect::<Vec<_>>()}));
            }
        }
    }
    f
}

// ---------------------------------------------------------------- whole messages (header mutations too)

fn family_message(d: &DBus, seed: u64, cases: u64) -> Family {
    let mut f = Family::default();
    let mut rng = Rng::new(seed ^ 0x4d5347);
    for _ in 0..cases {
        let o = GenOpts { max_depth: 1 + rng.usize_below(3), allow_fd: false, ..GenOpts::default() };
        let n = rng.usize_below(3);
        let sigs: Vec<Sig> = (0..n).map(|_| gen_sig(&mut rng, &o, 0)).collect();
        let vo = ValOpts { sig: GenOpts { allow_fd: false, ..GenOpts::default() }, ..ValOpts::default() };
        let vals: Vec<Val> = sigs.iter().map(|s| gen_val(&mut rng, s, &vo)).collect();
        if vals.iter().any(|v| v.count_fds() > 0) {
            f.skipped += 1;
            continue;
        }
        let e = if rng.bool() { Endian::Le } else { Endian::Be };
        let mut env = envelope(&mut rng, e, vals);
        if rng.chance(1, 4) {
            env = env.with_flags(rng.next_u64() as u8);
        }
        let (bytes, marks) = env.marshal_marked();
        let (mutated, how) = if rng.chance(3, 4) { mutate(&bytes, &marks, e, &mut rng) } else { (bytes.clone(), "valid") };
        if mutated.len() > 1 << 20 {
            f.skipped += 1;
            continue;
        }
        let ours = msg::parse(&mutated, None);
        let theirs = d.demarshal(&mutated);
        f.bump(&format!("input:{how}"));
        match (&ours, &theirs) {
            (Ok(_), Some((again, _))) => {
                if how == "valid" && *again != mutated {
                    f.unexplained(json!({"what": "libdbus re-marshals the message differently", "vref": vref::hex(&mutated), "libdbus": vref::hex(again)}));
                } else {
                    f.agree(true);
                }
            }
            (Err(_), None) => f.agree(false),
            (Ok(p), None) => {
                // vref::msg::parse is a STRUCTURAL parser (layout, field types, padding, body against signature); libdbus additionally
                // enforces message-level rules (required fields per type, valid names inside fields, version, known type code).
                let why = libdbus_stricter_reason(&p.msg);
                match why {
                    Some(w) => f.explained(&format!("libdbus-enforces-message-level-rule:{w}"), json!({"bytes": vref::hex(&mutated), "mutation": how})),
                    None => f.unexplained(json!({"vref_accepts": true, "libdbus_accepts": false, "mutation": how, "bytes": vref::hex(&mutated)})),
                }
            }
            (Err(e2), Some(_)) => {
                f.unexplained(json!({"vref_accepts": false, "libdbus_accepts": true, "vref_reason": e2, "mutation": how, "bytes": vref::hex(&mutated)}));
            }
        }
    }
    f
}

/// Message-level rules of the specification that `vref::msg::parse` deliberately leaves to its callers
/// (they are checked by the monitors that need them) and that libdbus checks inside `dbus_message_demarshal`.
fn libdbus_stricter_reason(m: &Msg) -> Option<&'static str> {
    if m.version != 1 {
        return Some("protocol-version");
    }
    if m.mtype == 0 {
        return Some("message-type-0");
    }
    let has = |c: u8| m.field(c).is_some();
    // duplicated header fields
    for c in 1..=9u8 {
        if m.fields.iter().filter(|(k, _)| *k == c).count() > 1 {
            return Some("duplicate-header-field");
        }
    }
    if m.fields.iter().any(|(k, _)| *k == 0) {
        return Some("header-field-code-0");
    }
    // libdbus 1.14 knows a tenth header field (CONTAINER_INSTANCE, an object path) that the specification does not list
    if m.fields.iter().any(|(k, v)| *k == 10 && v.sig() != Sig::O) {
        return Some("libdbus-header-field-10-must-be-a-path");
    }
    let need: &[u8] = match m.mtype {
        1 => &[msg::F_PATH, msg::F_MEMBER],
        2 => &[msg::F_REPLY_SERIAL],
        3 => &[msg::F_ERROR_NAME, msg::F_REPLY_SERIAL],
        4 => &[msg::F_PATH, msg::F_INTERFACE, msg::F_MEMBER],
        _ => &[],
    };
    if need.iter().any(|c| !has(*c)) {
        return Some("required-field-missing");
    }
    if let Some(s) = m.field_str(msg::F_INTERFACE) {
        if !rn::valid_interface_name(s.as_bytes()) {
            return Some("invalid-name-in-field");
        }
        if m.mtype == 4 && s == "org.freedesktop.DBus.Local" {
            return Some("reserved-local-interface");
        }
    }
    if let Some(s) = m.field_str(msg::F_MEMBER) {
        if !rn::valid_member_name(s.as_bytes()) {
            return Some("invalid-name-in-field");
        }
    }
    if let Some(s) = m.field_str(msg::F_ERROR_NAME) {
        if !rn::valid_error_name(s.as_bytes()) {
            return Some("invalid-name-in-field");
        }
    }
    for c in [msg::F_DESTINATION, msg::F_SENDER] {
        if let Some(s) = m.field_str(c) {
            if !rn::valid_bus_name(s.as_bytes()) {
                return Some("invalid-name-in-field");
            }
        }
    }
    if m.reply_serial() == Some(0) {
        return Some("reply-serial-0");
    }
    if let Some(p) = m.path() {
        if m.mtype == 4 && p == "/org/freedesktop/DBus/Local" {
            return Some("reserved-local-path");
        }
    }
    if m.field_u32(msg::F_UNIX_FDS).unwrap_or(0) > 0 {
        return Some("unix-fds-announced-but-none-passed");
    }
    None
}

// ---------------------------------------------------------------- GVariant against GLib

struct Gv<'a> {
    g: &'a GLib,
}

impl<'a> Gv<'a> {
    unsafe fn ty(&self, s: &Sig) -> *mut c_void {
        self.ty_str(&s.to_sig_string())
    }

    unsafe fn ty_str(&self, s: &str) -> *mut c_void {
        let c = CString::new(s).unwrap();
        (self.g.type_new)(c.as_ptr())
    }

    /// Build the (floating) GVariant for `v` through GLib's constructors.
    unsafe fn build(&self, v: &Val) -> *mut c_void {
        let g = self.g;
        match v {
            Val::Y(x) => (g.new_byte)(*x),
            Val::B(x) => (g.new_boolean)(*x as i32),
            Val::N(x) => (g.new_int16)(*x),
            Val::Q(x) => (g.new_uint16)(*x),
            Val::I(x) => (g.new_int32)(*x),
            Val::U(x) => (g.new_uint32)(*x),
            Val::X(x) => (g.new_int64)(*x),
            Val::T(x) => (g.new_uint64)(*x),
            Val::D(x) => (g.new_double)(f64::from_bits(*x)),
            Val::H(x) => (g.new_handle)(*x as i32),
            Val::S(s) => {
                let c = CString::new(s.as_str()).unwrap();
                (g.new_string)(c.as_ptr())
            }
            Val::O(s) => {
                let c = CString::new(s.as_str()).unwrap();
                (g.new_object_path)(c.as_ptr())
            }
            Val::G(s) => {
                let c = CString::new(s.as_str()).unwrap();
                (g.new_signature)(c.as_ptr())
            }
            Val::V(x) => (g.new_variant)(self.build(x)),
            Val::A(es, xs) => {
                let t = self.ty(es);
                let kids: Vec<*mut c_void> = xs.iter().map(|x| self.build(x)).collect();
                let r = (g.new_array)(t, if kids.is_empty() { std::ptr::null() } else { kids.as_ptr() }, kids.len());
                (g.type_free)(t);
                r
            }
            Val::Dict(ks, vs, es) => {
                let t = self.ty_str(&format!("{{{}{}}}", ks.to_sig_string(), vs.to_sig_string()));
                let kids: Vec<*mut c_void> = es.iter().map(|(k, x)| (g.new_dict_entry)(self.build(k), self.build(x))).collect();
                let r = (g.new_array)(t, if kids.is_empty() { std::ptr::null() } else { kids.as_ptr() }, kids.len());
                (g.type_free)(t);
                r
            }
            Val::St(fs) => {
                let kids: Vec<*mut c_void> = fs.iter().map(|x| self.build(x)).collect();
                (g.new_tuple)(if kids.is_empty() { std::ptr::null() } else { kids.as_ptr() }, kids.len())
            }
            Val::M(c, x) => {
                let t = self.ty(c);
                let child = match x {
                    Some(x) => self.build(x),
                    None => std::ptr::null_mut(),
                };
                let r = (g.new_maybe)(t, child);
                (g.type_free)(t);
                r
            }
        }
    }

    unsafe fn bytes_of(&self, v: *mut c_void) -> Vec<u8> {
        let n = (self.g.get_size)(v);
        let mut out = vec![0u8; n];
        if n > 0 {
            (self.g.store)(v, out.as_mut_ptr() as *mut c_void);
        }
        out
    }
}

fn strings_ok(v: &Val) -> bool {
    let mut ok = true;
    v.visit(&mut |x| {
        if let Val::S(s) | Val::O(s) | Val::G(s) = x {
            if s.contains('\0') {
                ok = false;
            }
        }
        if let Val::G(s) = x {
            // GLib's `g` holds GVariant type strings: a D-Bus signature is one, but keep to what both accept
            if parse_sig(s.as_bytes(), SigOpts { allow_maybe: true }).is_err() {
                ok = false;
            }
        }
    });
    ok
}

fn family_gvariant(g: &GLib, seed: u64, cases: u64) -> Family {
    let mut f = Family::default();
    let mut rng = Rng::new(seed ^ 0x6776);
    let gv = Gv { g };
    for _ in 0..cases {
        let o = GenOpts { max_depth: 1 + rng.usize_below(5), allow_fd: true, allow_maybe: true, ..GenOpts::default() };
        let sig = gen_sig(&mut rng, &o, 0);
        // one case in 40 is large: bodies beyond 255 and 65535 bytes, where the framing offsets change width
        let big = rng.chance(1, 40);
        let vo = ValOpts {
            sig: GenOpts { allow_fd: true, allow_maybe: true, ..GenOpts::default() },
            max_len: if big { 20 + rng.usize_below(300) } else { 1 + rng.usize_below(8) },
            max_str: if big { *rng.pick(&[40usize, 250, 250, 300, 300, 300, 300, 70_000]) } else { *rng.pick(&[4usize, 12, 40, 300]) },
            budget: if big { 2000 } else { 40 },
            ..ValOpts::default()
        };
        let val = gen_val(&mut rng, &sig, &vo);
        if !strings_ok(&val) {
            f.skipped += 1;
            continue;
        }
        let ours_le = vref::gv::serialize(&val, Endian::Le);
        let ours_be = vref::gv::serialize(&val, Endian::Be);
        unsafe {
            let v = (g.ref_sink)(gv.build(&val));
            let theirs_le = gv.bytes_of(v);
            let swapped = (g.byteswap)(v);
            let theirs_be = gv.bytes_of(swapped);
            (g.unref)(swapped);
            // and the other direction: GLib reading vref's bytes
            let t = gv.ty(&val.sig());
            // g_variant_new_from_data wants the data aligned as the type requires
            let mut aligned: Vec<u64> = vec![0; ours_le.len() / 8 + 1];
            std::ptr::copy_nonoverlapping(ours_le.as_ptr(), aligned.as_mut_ptr() as *mut u8, ours_le.len());
            let back = (g.ref_sink)((g.new_from_data)(t, aligned.as_ptr() as *const c_void, ours_le.len(), 0, std::ptr::null_mut(), std::ptr::null_mut()));
            let normal = (g.is_normal_form)(back) != 0;
            let equal = (g.equal)(back, v) != 0;
            (g.unref)(back);
            (g.type_free)(t);
            (g.unref)(v);
            f.bump(&format!("sig_nodes:{}", val.sig().nodes().min(12)));
            f.bump(match ours_le.len() { 0..=255 => "size:1-byte-offsets", 256..=65535 => "size:2-byte-offsets", _ => "size:4-byte-offsets" });
            if theirs_le != ours_le {
                f.unexplained(json!({"what": "little-endian bytes differ", "type": val.sig().to_sig_string(), "value": val.show(), "vref": vref::hex(&ours_le), "glib": vref::hex(&theirs_le)}));
            } else if theirs_be != ours_be {
                f.unexplained(json!({"what": "big-endian bytes differ", "type": val.sig().to_sig_string(), "value": val.show(), "vref": vref::hex(&ours_be), "glib": vref::hex(&theirs_be)}));
            } else if !normal {
                f.unexplained(json!({"what": "GLib does not consider vref's bytes normal form", "type": val.sig().to_sig_string(), "value": val.show(), "vref": vref::hex(&ours_le)}));
            } else if !equal {
                f.unexplained(json!({"what": "GLib reads another value out of vref's bytes", "type": val.sig().to_sig_string(), "value": val.show(), "vref": vref::hex(&ours_le)}));
            } else {
                f.agree(true);
            }
        }
    }
    f
}

fn main() {
    let args: Vec<String> = std::env::args().collect();
    let get = |k: &str, d: &str| args.iter().position(|a| a == k).and_then(|i| args.get(i + 1)).cloned().unwrap_or(d.to_string());
    let seed: u64 = get("--seed", "1").parse().unwrap();
    let cases: u64 = get("--cases", "100000").parse().unwrap();
    let out = get("--out", "xcheck-report.json");
    let mut report = serde_json::Map::new();
    report.insert("seed".into(), json!(seed));
    report.insert("cases_per_family".into(), json!(cases));
    let mut bad = 0u64;
    let mut missing = Vec::new();
    match DBus::open() {
        Some(d) => {
            report.insert("libdbus_version".into(), json!(d.version()));
            for (name, fam) in [
                ("signatures_vs_dbus_signature_validate", family_sig(&d, seed, cases)),
                ("names_vs_dbus_validate", family_names(&d, seed, cases)),
                ("bodies_vs_dbus_message_demarshal", family_body(&d, seed, cases)),
                ("messages_vs_dbus_message_demarshal", family_message(&d, seed, cases)),
            ] {
                println!("[xcheck] {name}: cases={} accept/accept={} reject/reject={} explained={} unexplained={}",
                    fam.cases, fam.both_accept, fam.both_reject, fam.explained.values().sum::<u64>(), fam.n_unexplained());
                bad += fam.n_unexplained();
                report.insert(name.into(), fam.to_json());
            }
        }
        None => missing.push("libdbus-1.so.3"),
    }
    match GLib::open() {
        Some(g) => {
            report.insert("glib_version".into(), json!(format!("{}.{}.{}", g.major, g.minor, g.micro)));
            let fam = family_gvariant(&g, seed, cases);
            println!("[xcheck] gvariant_vs_glib: cases={} agree={} unexplained={}", fam.cases, fam.both_accept, fam.n_unexplained());
            bad += fam.n_unexplained();
            report.insert("gvariant_vs_glib".into(), fam.to_json());
        }
        None => missing.push("libglib-2.0.so.0"),
    }
    report.insert("missing_libraries".into(), json!(missing));
    report.insert("unexplained_disagreements_total".into(), json!(bad));
    std::fs::write(&out, serde_json::to_string_pretty(&J::Object(report)).unwrap()).unwrap();
    println!("[xcheck] report: {out}");
    if bad > 0 {
        println!("[xcheck] ORACLE-DISAGREEMENT: {bad} unexplained (see the report)");
        std::process::exit(1);
    }
}
