//! Oracle cross-check: the reference models in `vref` (which decide the properties) against the two
//! independent implementations installed in the image — libdbus-1 (signatures, names, whole messages and
//! message bodies through `dbus_message_demarshal`) and GLib (GVariant serialisation).
//!
//! This validates the ORACLES, not zbus: no verdict on a property depends on it. A disagreement that is not
//! one of the explained categories below (each justified from the specification in DESIGN.md, Appendix A.10)
//! makes the run exit 1, and means an oracle has to be looked at before its verdicts are believed.
//!
//!   xcheck [--seed N] [--cases K] [--out report.json]

mod ffi;
/// The XML well-formedness checker that decides C27 (shared source with the zg engine; it depends on nothing).
#[path = "../../../engines/zg/src/xmlcheck.rs"]
#[allow(dead_code)]
mod xmlcheck;

use ffi::{DBus, GLib};
use serde_json::{json, Value as J};
use std::collections::BTreeMap;
use std::ffi::{c_void, CString};
use vref::dbus::{marshal_marked, mutate, unmarshal_seq, Endian};
use vref::msg::{self, Msg};
use vref::names as rn;
use vref::prng::Rng;
use vref::sig::{gen_sig, parse_sig, seq_to_string, GenOpts, Sig, SigOpts};
use vref::val::{gen_val, Val, ValOpts};

#[derive(Default)]
struct Family {
    cases: u64,
    both_accept: u64,
    both_reject: u64,
    skipped: u64,
    explained: BTreeMap<String, u64>,
    explained_examples: BTreeMap<String, J>,
    unexplained: Vec<J>,
    extra: BTreeMap<String, u64>,
}

impl Family {
    fn agree(&mut self, accept: bool) {
        self.cases += 1;
        if accept {
            self.both_accept += 1;
        } else {
            self.both_reject += 1;
        }
    }
    fn explained(&mut self, why: &str, example: J) {
        self.cases += 1;
        *self.explained.entry(why.to_string()).or_insert(0) += 1;
        self.explained_examples.entry(why.to_string()).or_insert(example);
    }
    fn unexplained(&mut self, detail: J) {
        self.cases += 1;
        if self.unexplained.len() < 40 {
            self.unexplained.push(detail);
        } else {
            *self.extra.entry("unexplained_not_listed".into()).or_insert(0) += 1;
        }
    }
    fn bump(&mut self, k: &str) {
        *self.extra.entry(k.to_string()).or_insert(0) += 1;
    }
    fn n_unexplained(&self) -> u64 {
        self.unexplained.len() as u64 + self.extra.get("unexplained_not_listed").copied().unwrap_or(0)
    }
    fn to_json(&self) -> J {
        json!({
            "cases": self.cases, "both_accept": self.both_accept, "both_reject": self.both_reject, "skipped": self.skipped,
            "explained_disagreements": self.explained, "explained_examples": self.explained_examples,
            "unexplained_disagreements": self.n_unexplained(), "unexplained": self.unexplained, "other_counts": self.extra,
        })
    }
}

fn show(b: &[u8]) -> String {
    String::from_utf8_lossy(b).escape_default().to_string()
}

// ---------------------------------------------------------------- signatures

const SIG_ALPHABET: &[u8] = b"ybnqiuxtdsogvha(){}aa((ii";

fn gen_sig_candidate(rng: &mut Rng) -> Vec<u8> {
    match rng.below(10) {
        0..=2 => {
            // valid sequences
            let o = GenOpts { max_depth: 1 + rng.usize_below(5), allow_fd: true, ..GenOpts::default() };
            let n = rng.usize_below(4);
            let seq: Vec<Sig> = (0..n).map(|_| gen_sig(rng, &o, 0)).collect();
            seq_to_string(&seq).into_bytes()
        }
        3..=5 => {
            // a valid one with 1-3 character edits
            let o = GenOpts { max_depth: 1 + rng.usize_below(4), allow_fd: true, ..GenOpts::default() };
            let n = 1 + rng.usize_below(3);
            let seq: Vec<Sig> = (0..n).map(|_| gen_sig(rng, &o, 0)).collect();
            let mut b = seq_to_string(&seq).into_bytes();
            for _ in 0..1 + rng.usize_below(3) {
                let c = *rng.pick(b"ybnqiuxtdsogvha(){}mrez *?@&^");
                match rng.below(3) {
                    0 if !b.is_empty() => {
                        let p = rng.usize_below(b.len());
                        b[p] = c;
                    }
                    1 if !b.is_empty() => {
                        let p = rng.usize_below(b.len());
                        b.remove(p);
                    }
                    _ => {
                        let p = rng.usize_below(b.len() + 1);
                        b.insert(p, c);
                    }
                }
            }
            b
        }
        6..=7 => {
            let n = rng.usize_below(9);
            (0..n).map(|_| *rng.pick(SIG_ALPHABET)).collect()
        }
        8 => {
            // nesting-depth boundaries
            let d = *rng.pick(&[30usize, 31, 32, 33, 34, 63, 64, 65]);
            match rng.below(4) {
                0 => format!("{}y", "a".repeat(d)).into_bytes(),
                1 => format!("{}y{}", "(".repeat(d), ")".repeat(d)).into_bytes(),
                2 => {
                    let a = d / 2;
                    format!("{}{}y{}", "a".repeat(a), "(".repeat(d - a), ")".repeat(d - a)).into_bytes()
                }
                _ => format!("{}{}y{}", "a(".repeat(d / 2), "", ")".repeat(d / 2)).into_bytes(),
            }
        }
        _ => {
            // length boundaries
            let n = *rng.pick(&[253usize, 254, 255, 256, 257]);
            match rng.below(3) {
                0 => "i".repeat(n).into_bytes(),
                1 => format!("{}{}", "ai".repeat(n / 2), if n % 2 == 1 { "y" } else { "" }).into_bytes(),
                _ => format!("({})", "s".repeat(n - 2)).into_bytes(),
            }
        }
    }
}

fn family_sig(d: &DBus, seed: u64, cases: u64) -> Family {
    let mut f = Family::default();
    let mut rng = Rng::new(seed ^ 0x5151);
    for _ in 0..cases {
        let s = gen_sig_candidate(&mut rng);
        let Some(theirs) = d.signature(&s) else {
            f.skipped += 1;
            continue;
        };
        let ours = parse_sig(&s, SigOpts { allow_maybe: false }).is_ok();
        if ours == theirs {
            f.agree(ours);
        } else {
            f.unexplained(json!({"signature": show(&s), "len": s.len(), "vref_accepts": ours, "libdbus_accepts": theirs}));
        }
    }
    f
}

// ---------------------------------------------------------------- names

fn gen_name_candidate(rng: &mut Rng) -> Vec<u8> {
    let base: String = match rng.below(8) {
        0 => rn::gen_interface_name(rng),
        1 => rn::gen_member_name(rng),
        2 => rn::gen_unique_name(rng),
        3 => rn::gen_well_known_name(rng),
        4 => vref::val::gen_object_path(rng),
        5 => {
            let n = rng.usize_below(7);
            (0..n).map(|_| *rng.pick(&['a', 'Z', '0', '_', '-', '.', ':', '/', '9', 'é', ' ', '+'])).collect()
        }
        6 => {
            // length boundaries
            let n = *rng.pick(&[254usize, 255, 256]);
            match rng.below(4) {
                0 => format!("a.{}", "b".repeat(n - 2)),
                1 => format!(":1.{}", "2".repeat(n - 3)),
                2 => "m".repeat(n),
                _ => format!("/{}", "p".repeat(n + 300)),
            }
        }
        _ => String::new(),
    };
    let mut b = base.into_bytes();
    if rng.chance(1, 2) {
        for _ in 0..1 + rng.usize_below(2) {
            let c = *rng.pick(b"aZ09_-.:/ +*\x7f\xc3");
            match rng.below(3) {
                0 if !b.is_empty() => {
                    let p = rng.usize_below(b.len());
                    b[p] = c;
                }
                1 if !b.is_empty() => {
                    let p = rng.usize_below(b.len());
                    b.remove(p);
                }
                _ => {
                    let p = rng.usize_below(b.len() + 1);
                    b.insert(p, c);
                }
            }
        }
    }
    b
}

/// What libdbus 1.14 accepts for a name starting with ':' (dbus-marshal-validate.c): any run of name characters, with
/// every '.' followed by a name character; no minimum number of elements.
fn libdbus_lax_unique_name(s: &[u8]) -> bool {
    if s.first() != Some(&b':') || s.len() > 255 {
        return false;
    }
    let ok = |c: u8| c.is_ascii_alphanumeric() || c == b'_' || c == b'-';
    let mut i = 1;
    while i < s.len() {
        if s[i] == b'.' {
            if i + 1 >= s.len() || !ok(s[i + 1]) {
                return false;
            }
            i += 1;
        } else if !ok(s[i]) {
            return false;
        }
        i += 1;
    }
    true
}

fn family_names(d: &DBus, seed: u64, cases: u64) -> Family {
    let mut f = Family::default();
    let mut rng = Rng::new(seed ^ 0x4e41);
    for _ in 0..cases {
        let s = gen_name_candidate(&mut rng);
        if s.contains(&0) {
            f.skipped += 1;
            continue;
        }
        let pairs: [(&str, bool, Option<bool>); 5] = [
            ("path", rn::valid_object_path(&s), d.path(&s)),
            ("interface", rn::valid_interface_name(&s), d.interface(&s)),
            ("member", rn::valid_member_name(&s), d.member(&s)),
            ("error_name", rn::valid_error_name(&s), d.error_name(&s)),
            ("bus_name", rn::valid_bus_name(&s), d.bus_name(&s)),
        ];
        for (kind, ours, theirs) in pairs {
            let Some(theirs) = theirs else { continue };
            if ours == theirs {
                f.agree(ours);
                if ours {
                    f.bump(&format!("accepted_as_{kind}"));
                }
            } else if kind == "bus_name" && theirs && !ours && libdbus_lax_unique_name(&s) {
                // libdbus' _dbus_validate_bus_name only checks the characters of a name that starts with ':' (and that no element
                // is empty after a '.'); the specification asks for two or more non-empty elements in every bus name.
                f.explained("libdbus-lax-unique-name", json!({"input": show(&s)}));
            } else {
                f.unexplained(json!({"kind": kind, "input": show(&s), "len": s.len(), "vref_accepts": ours, "libdbus_accepts": theirs}));
            }
        }
    }
    f
}

// ---------------------------------------------------------------- message bodies

fn envelope(rng: &mut Rng, e: Endian, body: Vec<Val>) -> Msg {
    let serial = 1 + rng.next_u32() % 1000;
    let mut m = match rng.below(4) {
        0 => Msg::method_call(serial, "/a/b", Some("a.b.C"), "M"),
        1 => Msg::signal(serial, "/a", "a.b.C", "Sig"),
        2 => Msg::method_return(serial, 7),
        _ => Msg::error(serial, 7, "a.b.Err"),
    };
    if rng.bool() {
        m = m.with_sender(":1.5");
    }
    if rng.bool() {
        m = m.with_destination("x.y");
    }
    m.endian = e;
    m.with_body(body)
}

fn family_body(d: &DBus, seed: u64, cases: u64) -> Family {
    let mut f = Family::default();
    let mut rng = Rng::new(seed ^ 0xb0d1);
    for _ in 0..cases {
        let o = GenOpts { max_depth: 1 + rng.usize_below(4), allow_fd: false, ..GenOpts::default() };
        let n = 1 + rng.usize_below(3);
        let sigs: Vec<Sig> = (0..n).map(|_| gen_sig(&mut rng, &o, 0)).collect();
        let vo = ValOpts { sig: GenOpts { allow_fd: false, ..GenOpts::default() }, ..ValOpts::default() };
        let vals: Vec<Val> = sigs.iter().map(|s| gen_val(&mut rng, s, &vo)).collect();
        if vals.iter().any(|v| v.count_fds() > 0) {
            f.skipped += 1;
            continue;
        }
        // the types actually generated (a variant's payload is chosen by gen_val)
        let e = if rng.bool() { Endian::Le } else { Endian::Be };
        // a body is laid out exactly like the struct of its values at offset 0
        let (body, marks) = marshal_marked(&Val::St(vals.clone()), e, 0);
        let (mutated, how) = if rng.chance(2, 3) {
            let (m, h) = mutate(&body, &marks, e, &mut rng);
            if rng.chance(1, 3) {
                mutate(&m, &marks, e, &mut rng)
            } else {
                (m, h)
            }
        } else {
            (body.clone(), "valid")
        };
        let env = envelope(&mut rng, e, vals.clone());
        let full = env.marshal();
        if full.len() < body.len() || full[full.len() - body.len()..] != body[..] {
            f.unexplained(json!({"what": "vref message body is not the struct layout of its values", "sig": seq_to_string(&sigs)}));
            continue;
        }
        let mut bytes = full[..full.len() - body.len()].to_vec();
        bytes.extend_from_slice(&mutated);
        bytes[4..8].copy_from_slice(&e.u32(mutated.len() as u32));
        let ours = match unmarshal_seq(&mutated, &sigs, e, 0, None) {
            Ok((_, used)) => used == mutated.len(),
            Err(_) => false,
        };
        let theirs = d.demarshal(&bytes);
        f.bump(&format!("input:{how}"));
        match (ours, &theirs) {
            (true, Some((again, sig))) => {
                if *sig != seq_to_string(&sigs) {
                    f.unexplained(json!({"what": "libdbus reports another body signature", "vref": seq_to_string(&sigs), "libdbus": sig}));
                } else if how == "valid" && *again != bytes {
                    f.unexplained(json!({"what": "libdbus re-marshals the message differently", "sig": sig, "vref": vref::hex(&bytes), "libdbus": vref::hex(again)}));
                } else {
                    f.agree(true);
                }
            }
            (false, None) => f.agree(false),
            (o, t) => {
                let reason = match unmarshal_seq(&mutated, &sigs, e, 0, None) {
                    Ok((_, used)) => format!("trailing bytes: used {used} of {}", mutated.len()),
                    Err((r, t)) => format!("{} in {t}", r.name()),
                };
                f.unexplained(json!({"sig": seq_to_string(&sigs), "endian": e.name(), "mutation": how, "vref_accepts": o, "libdbus_accepts": t.is_some(),
                                     "vref_reason": reason, "body": vref::hex(&mutated), "values": vals.iter().map(|v| v.show()).collect::<Vec<_>>()}));
            }
        }
    }
    f
}

// ---------------------------------------------------------------- whole messages (header mutations too)

fn family_message(d: &DBus, seed: u64, cases: u64) -> Family {
    let mut f = Family::default();
    let mut rng = Rng::new(seed ^ 0x4d5347);
    for _ in 0..cases {
        let o = GenOpts { max_depth: 1 + rng.usize_below(3), allow_fd: false, ..GenOpts::default() };
        let n = rng.usize_below(3);
        let sigs: Vec<Sig> = (0..n).map(|_| gen_sig(&mut rng, &o, 0)).collect();
        let vo = ValOpts { sig: GenOpts { allow_fd: false, ..GenOpts::default() }, ..ValOpts::default() };
        let vals: Vec<Val> = sigs.iter().map(|s| gen_val(&mut rng, s, &vo)).collect();
        if vals.iter().any(|v| v.count_fds() > 0) {
            f.skipped += 1;
            continue;
        }
        let e = if rng.bool() { Endian::Le } else { Endian::Be };
        let mut env = envelope(&mut rng, e, vals);
        if rng.chance(1, 4) {
            env = env.with_flags(rng.next_u64() as u8);
        }
        let (bytes, marks) = env.marshal_marked();
        let (mutated, how) = if rng.chance(3, 4) { mutate(&bytes, &marks, e, &mut rng) } else { (bytes.clone(), "valid") };
        if mutated.len() > 1 << 20 {
            f.skipped += 1;
            continue;
        }
        let ours = msg::parse(&mutated, None);
        let theirs = d.demarshal(&mutated);
        f.bump(&format!("input:{how}"));
        match (&ours, &theirs) {
            (Ok(_), Some((again, _))) => {
                if how == "valid" && *again != mutated {
                    f.unexplained(json!({"what": "libdbus re-marshals the message differently", "vref": vref::hex(&mutated), "libdbus": vref::hex(again)}));
                } else {
                    f.agree(true);
                }
            }
            (Err(_), None) => f.agree(false),
            (Ok(p), None) => {
                // vref::msg::parse is a STRUCTURAL parser (layout, field types, padding, body against signature); libdbus additionally
                // enforces message-level rules (required fields per type, valid names inside fields, version, known type code).
                let why = libdbus_stricter_reason(&p.msg);
                match why {
                    Some(w) => f.explained(&format!("libdbus-enforces-message-level-rule:{w}"), json!({"bytes": vref::hex(&mutated), "mutation": how})),
                    None => f.unexplained(json!({"vref_accepts": true, "libdbus_accepts": false, "mutation": how, "bytes": vref::hex(&mutated)})),
                }
            }
            (Err(e2), Some(_)) => {
                f.unexplained(json!({"vref_accepts": false, "libdbus_accepts": true, "vref_reason": e2, "mutation": how, "bytes": vref::hex(&mutated)}));
            }
        }
    }
    f
}

/// Message-level rules of the specification that `vref::msg::parse` deliberately leaves to its callers
/// (they are checked by the monitors that need them) and that libdbus checks inside `dbus_message_demarshal`.
fn libdbus_stricter_reason(m: &Msg) -> Option<&'static str> {
    if m.version != 1 {
        return Some("protocol-version");
    }
    if m.mtype == 0 {
        return Some("message-type-0");
    }
    let has = |c: u8| m.field(c).is_some();
    // duplicated header fields
    for c in 1..=9u8 {
        if m.fields.iter().filter(|(k, _)| *k == c).count() > 1 {
            return Some("duplicate-header-field");
        }
    }
    if m.fields.iter().any(|(k, _)| *k == 0) {
        return Some("header-field-code-0");
    }
    // libdbus 1.14 knows a tenth header field (CONTAINER_INSTANCE, an object path) that the specification does not list
    if m.fields.iter().any(|(k, v)| *k == 10 && v.sig() != Sig::O) {
        return Some("libdbus-header-field-10-must-be-a-path");
    }
    let need: &[u8] = match m.mtype {
        1 => &[msg::F_PATH, msg::F_MEMBER],
        2 => &[msg::F_REPLY_SERIAL],
        3 => &[msg::F_ERROR_NAME, msg::F_REPLY_SERIAL],
        4 => &[msg::F_PATH, msg::F_INTERFACE, msg::F_MEMBER],
        _ => &[],
    };
    if need.iter().any(|c| !has(*c)) {
        return Some("required-field-missing");
    }
    if let Some(s) = m.field_str(msg::F_INTERFACE) {
        if !rn::valid_interface_name(s.as_bytes()) {
            return Some("invalid-name-in-field");
        }
        if m.mtype == 4 && s == "org.freedesktop.DBus.Local" {
            return Some("reserved-local-interface");
        }
    }
    if let Some(s) = m.field_str(msg::F_MEMBER) {
        if !rn::valid_member_name(s.as_bytes()) {
            return Some("invalid-name-in-field");
        }
    }
    if let Some(s) = m.field_str(msg::F_ERROR_NAME) {
        if !rn::valid_error_name(s.as_bytes()) {
            return Some("invalid-name-in-field");
        }
    }
    for c in [msg::F_DESTINATION, msg::F_SENDER] {
        if let Some(s) = m.field_str(c) {
            if !rn::valid_bus_name(s.as_bytes()) {
                return Some("invalid-name-in-field");
            }
        }
    }
    if m.reply_serial() == Some(0) {
        return Some("reply-serial-0");
    }
    if let Some(p) = m.path() {
        if m.mtype == 4 && p == "/org/freedesktop/DBus/Local" {
            return Some("reserved-local-path");
        }
    }
    if m.field_u32(msg::F_UNIX_FDS).unwrap_or(0) > 0 {
        return Some("unix-fds-announced-but-none-passed");
    }
    None
}

// ---------------------------------------------------------------- GVariant against GLib

struct Gv<'a> {
    g: &'a GLib,
}

impl<'a> Gv<'a> {
    unsafe fn ty(&self, s: &Sig) -> *mut c_void {
        self.ty_str(&s.to_sig_string())
    }

    unsafe fn ty_str(&self, s: &str) -> *mut c_void {
        let c = CString::new(s).unwrap();
        (self.g.type_new)(c.as_ptr())
    }

    /// Build the (floating) GVariant for `v` through GLib's constructors.
    unsafe fn build(&self, v: &Val) -> *mut c_void {
        let g = self.g;
        match v {
            Val::Y(x) => (g.new_byte)(*x),
            Val::B(x) => (g.new_boolean)(*x as i32),
            Val::N(x) => (g.new_int16)(*x),
            Val::Q(x) => (g.new_uint16)(*x),
            Val::I(x) => (g.new_int32)(*x),
            Val::U(x) => (g.new_uint32)(*x),
            Val::X(x) => (g.new_int64)(*x),
            Val::T(x) => (g.new_uint64)(*x),
            Val::D(x) => (g.new_double)(f64::from_bits(*x)),
            Val::H(x) => (g.new_handle)(*x as i32),
            Val::S(s) => {
                let c = CString::new(s.as_str()).unwrap();
                (g.new_string)(c.as_ptr())
            }
            Val::O(s) => {
                let c = CString::new(s.as_str()).unwrap();
                (g.new_object_path)(c.as_ptr())
            }
            Val::G(s) => {
                let c = CString::new(s.as_str()).unwrap();
                (g.new_signature)(c.as_ptr())
            }
            Val::V(x) => (g.new_variant)(self.build(x)),
            Val::A(es, xs) => {
                let t = self.ty(es);
                let kids: Vec<*mut c_void> = xs.iter().map(|x| self.build(x)).collect();
                let r = (g.new_array)(t, if kids.is_empty() { std::ptr::null() } else { kids.as_ptr() }, kids.len());
                (g.type_free)(t);
                r
            }
            Val::Dict(ks, vs, es) => {
                let t = self.ty_str(&format!("{{{}{}}}", ks.to_sig_string(), vs.to_sig_string()));
                let kids: Vec<*mut c_void> = es.iter().map(|(k, x)| (g.new_dict_entry)(self.build(k), self.build(x))).collect();
                let r = (g.new_array)(t, if kids.is_empty() { std::ptr::null() } else { kids.as_ptr() }, kids.len());
                (g.type_free)(t);
                r
            }
            Val::St(fs) => {
                let kids: Vec<*mut c_void> = fs.iter().map(|x| self.build(x)).collect();
                (g.new_tuple)(if kids.is_empty() { std::ptr::null() } else { kids.as_ptr() }, kids.len())
            }
            Val::M(c, x) => {
                let t = self.ty(c);
                let child = match x {
                    Some(x) => self.build(x),
                    None => std::ptr::null_mut(),
                };
                let r = (g.new_maybe)(t, child);
                (g.type_free)(t);
                r
            }
        }
    }

    unsafe fn bytes_of(&self, v: *mut c_void) -> Vec<u8> {
        let n = (self.g.get_size)(v);
        let mut out = vec![0u8; n];
        if n > 0 {
            (self.g.store)(v, out.as_mut_ptr() as *mut c_void);
        }
        out
    }
}

fn strings_ok(v: &Val) -> bool {
    let mut ok = true;
    v.visit(&mut |x| {
        if let Val::S(s) | Val::O(s) | Val::G(s) = x {
            if s.contains('\0') {
                ok = false;
            }
        }
        if let Val::G(s) = x {
            // GLib's `g` holds GVariant type strings: a D-Bus signature is one, but keep to what both accept
            if parse_sig(s.as_bytes(), SigOpts { allow_maybe: true }).is_err() {
                ok = false;
            }
        }
    });
    ok
}

fn family_gvariant(g: &GLib, seed: u64, cases: u64) -> Family {
    let mut f = Family::default();
    let mut rng = Rng::new(seed ^ 0x6776);
    let gv = Gv { g };
    for _ in 0..cases {
        let o = GenOpts { max_depth: 1 + rng.usize_below(5), allow_fd: true, allow_maybe: true, ..GenOpts::default() };
        let sig = gen_sig(&mut rng, &o, 0);
        // one case in 40 is large: bodies beyond 255 and 65535 bytes, where the framing offsets change width
        let big = rng.chance(1, 40);
        let vo = ValOpts {
            sig: GenOpts { allow_fd: true, allow_maybe: true, ..GenOpts::default() },
            max_len: if big { 20 + rng.usize_below(300) } else { 1 + rng.usize_below(8) },
            max_str: if big { *rng.pick(&[40usize, 250, 250, 300, 300, 300, 300, 70_000]) } else { *rng.pick(&[4usize, 12, 40, 300]) },
            budget: if big { 2000 } else { 40 },
            ..ValOpts::default()
        };
        let val = gen_val(&mut rng, &sig, &vo);
        if !strings_ok(&val) {
            f.skipped += 1;
            continue;
        }
        let ours_le = vref::gv::serialize(&val, Endian::Le);
        let ours_be = vref::gv::serialize(&val, Endian::Be);
        unsafe {
            let v = (g.ref_sink)(gv.build(&val));
            let theirs_le = gv.bytes_of(v);
            let swapped = (g.byteswap)(v);
            let theirs_be = gv.bytes_of(swapped);
            (g.unref)(swapped);
            // and the other direction: GLib reading vref's bytes
            let t = gv.ty(&val.sig());
            // g_variant_new_from_data wants the data aligned as the type requires
            let mut aligned: Vec<u64> = vec![0; ours_le.len() / 8 + 1];
            std::ptr::copy_nonoverlapping(ours_le.as_ptr(), aligned.as_mut_ptr() as *mut u8, ours_le.len());
            let back = (g.ref_sink)((g.new_from_data)(t, aligned.as_ptr() as *const c_void, ours_le.len(), 0, std::ptr::null_mut(), std::ptr::null_mut()));
            let normal = (g.is_normal_form)(back) != 0;
            let equal = (g.equal)(back, v) != 0;
            (g.unref)(back);
            (g.type_free)(t);
            (g.unref)(v);
            f.bump(&format!("sig_nodes:{}", val.sig().nodes().min(12)));
            f.bump(match ours_le.len() { 0..=255 => "size:1-byte-offsets", 256..=65535 => "size:2-byte-offsets", _ => "size:4-byte-offsets" });
            if theirs_le != ours_le {
                f.unexplained(json!({"what": "little-endian bytes differ", "type": val.sig().to_sig_string(), "value": val.show(), "vref": vref::hex(&ours_le), "glib": vref::hex(&theirs_le)}));
            } else if theirs_be != ours_be {
                f.unexplained(json!({"what": "big-endian bytes differ", "type": val.sig().to_sig_string(), "value": val.show(), "vref": vref::hex(&ours_be), "glib": vref::hex(&theirs_be)}));
            } else if !normal {
                f.unexplained(json!({"what": "GLib does not consider vref's bytes normal form", "type": val.sig().to_sig_string(), "value": val.show(), "vref": vref::hex(&ours_le)}));
            } else if !equal {
                f.unexplained(json!({"what": "GLib reads another value out of vref's bytes", "type": val.sig().to_sig_string(), "value": val.show(), "vref": vref::hex(&ours_le)}));
            } else {
                f.agree(true);
            }
        }
    }
    f
}

// ---------------------------------------------------------------- match rules against a real dbus-daemon

struct Daemon {
    child: std::process::Child,
    dir: std::path::PathBuf,
    address: String,
}

impl Daemon {
    fn start() -> Option<Daemon> {
        use std::io::BufRead;
        use std::os::unix::process::CommandExt;
        let dir = std::env::temp_dir().join(format!("xcheck-bus-{}", std::process::id()));
        let _ = std::fs::remove_dir_all(&dir);
        std::fs::create_dir_all(&dir).ok()?;
        let mut cmd = std::process::Command::new("dbus-daemon");
        cmd.arg("--session").arg("--nofork").arg("--print-address=1").arg(format!("--address=unix:path={}", dir.join("bus").display()));
        cmd.stdin(std::process::Stdio::null()).stdout(std::process::Stdio::piped()).stderr(std::process::Stdio::null());
        unsafe {
            cmd.pre_exec(|| {
                libc::prctl(libc::PR_SET_PDEATHSIG, libc::SIGKILL);
                Ok(())
            });
        }
        let mut child = cmd.spawn().ok()?;
        let mut line = String::new();
        std::io::BufReader::new(child.stdout.take()?).read_line(&mut line).ok()?;
        let address = line.trim().to_string();
        if !address.starts_with("unix:") {
            let _ = child.kill();
            return None;
        }
        Some(Daemon { child, dir, address })
    }
}

impl Drop for Daemon {
    fn drop(&mut self) {
        let _ = self.child.kill();
        let _ = self.child.wait();
        let _ = std::fs::remove_dir_all(&self.dir);
    }
}

const MR_PATHS: &[&str] = &["/", "/a", "/a/b", "/ab", "/a/b/c"];
const MR_IFACES: &[&str] = &["t.If", "t.Other"];
const MR_MEMBERS: &[&str] = &["Sig", "Other"];
const MR_STRINGS: &[&str] = &["x", "a.b", "a.b.c", "a.bc", "/p/", "/p/q", "/p", "", "a", "it's", "a,b", "a\\b"];
const MR_ARGPATHS: &[&str] = &["/p/", "/p", "/p/q", "/", "/p/q/", "/px"];
const MR_NAMESPACES: &[&str] = &["a", "a.b", "a.b.c"];

/// Delivery of broadcast signals by dbus-daemon 1.14 (one rule registered by the receiver at a time; a unicast marker
/// behind every test signal tells the receiver that the daemon is past it) against `matchrule::matches`, and the daemon's
/// acceptance of rule strings against `matchrule::parse_rule`.
fn strip_blanks_outside_quotes(s: &str) -> String {
    let mut out = String::new();
    let mut q = false;
    let mut prev = ' ';
    for c in s.chars() {
        if c == '\'' && (q || prev != '\\') {
            q = !q;
        }
        prev = c;
        if c == ' ' && !q {
            continue;
        }
        out.push(c);
    }
    out
}

/// A backslash outside quotes that does not precede an apostrophe: the specification says it "represents itself"; dbus-daemon 1.14
/// additionally takes the character after it literally (so `\\,` does not end a value and `\\\\'` is two backslashes and an opening quote).
fn backslash_before_non_apostrophe(s: &str) -> bool {
    let cs: Vec<char> = s.chars().collect();
    let mut q = false;
    let mut i = 0;
    while i < cs.len() {
        if q {
            if cs[i] == '\'' {
                q = false;
            }
        } else if cs[i] == '\'' {
            q = true;
        } else if cs[i] == '\\' {
            if cs.get(i + 1) == Some(&'\'') {
                i += 1;
            } else {
                return true;
            }
        }
        i += 1;
    }
    false
}

/// Constraints dbus-daemon puts on a rule beyond the grammar of the string.
fn daemon_stricter(r: &vref::matchrule::RefRule) -> Option<&'static str> {
    let mut idx: Vec<u8> = r.args.iter().map(|(i, _)| *i).chain(r.arg_paths.iter().map(|(i, _)| *i)).collect();
    if r.arg0ns.is_some() {
        idx.push(0);
    }
    let n = idx.len();
    idx.sort();
    idx.dedup();
    if idx.len() != n {
        return Some("daemon-rejects-two-conditions-on-one-argument");
    }
    let bad = |v: &Option<String>, ok: fn(&[u8]) -> bool| v.as_ref().map_or(false, |s| !ok(s.as_bytes()));
    if bad(&r.sender, rn::valid_bus_name) || bad(&r.destination, rn::valid_bus_name) || bad(&r.interface, rn::valid_interface_name) || bad(&r.member, rn::valid_member_name)
        || bad(&r.path, rn::valid_object_path) || bad(&r.path_namespace, rn::valid_object_path)
        || r.arg0ns.as_ref().map_or(false, |s| !(rn::valid_interface_name(s.as_bytes()) || rn::valid_member_name(s.as_bytes())))
    {
        return Some("daemon-validates-names-in-values");
    }
    None
}

fn family_matchrules(seed: u64, cases: u64) -> Option<(Family, Family)> {
    use ffi::Arg;
    use vref::matchrule::{matches, parse_rule, RefRule};
    let fns = ffi::BusFns::open()?;
    let daemon = Daemon::start()?;
    let r = fns.connect(&daemon.address).ok()?;
    let s = fns.connect(&daemon.address).ok()?;
    let t = fns.connect(&daemon.address).ok()?;
    let (w_owned, w_other, w_nobody) = ("t.w.Owned", "t.w.Other", "t.w.Nobody");
    if !s.request_name(w_owned) || !t.request_name(w_other) {
        return None;
    }
    // drain what the daemon sent at connection time
    s.send(4, "/m", "t.M", "Marker", Some(&r.unique), &[]);
    r.read_until("Marker", 5000)?;
    let mut rng = Rng::new(seed ^ 0x3a7c);
    let mut f = Family::default();
    let mut g = Family::default();
    for case in 0..cases {
        // ---- a rule
        let mut rule = RefRule::default();
        match rng.below(6) {
            0 => rule.msg_type = Some(msg::METHOD_CALL),
            1 | 2 => {}
            _ => rule.msg_type = Some(msg::SIGNAL),
        }
        if rng.chance(1, 3) {
            rule.sender = Some(match rng.below(6) {
                0 | 1 => s.unique.clone(),
                2 => t.unique.clone(),
                3 => w_owned.to_string(),
                4 => w_other.to_string(),
                _ => w_nobody.to_string(),
            });
        }
        if rng.chance(1, 3) {
            rule.interface = Some(rng.pick(MR_IFACES).to_string());
        }
        if rng.chance(1, 3) {
            rule.member = Some(rng.pick(MR_MEMBERS).to_string());
        }
        match rng.below(6) {
            0 | 1 => rule.path = Some(rng.pick(MR_PATHS).to_string()),
            2 | 3 => rule.path_namespace = Some(rng.pick(MR_PATHS).to_string()),
            _ => {}
        }
        if rng.chance(1, 12) {
            rule.destination = Some(if rng.bool() { r.unique.clone() } else { t.unique.clone() });
        }
        for i in 0..3u8 {
            if rng.chance(1, 5) {
                rule.args.push((i, rng.pick(MR_STRINGS).to_string()));
            } else if rng.chance(1, 6) {
                rule.arg_paths.push((i, rng.pick(MR_ARGPATHS).to_string()));
            }
        }
        if rng.chance(1, 6) {
            rule.arg0ns = Some(rng.pick(MR_NAMESPACES).to_string());
        }
        let text = rule.to_rule_string();
        // ---- acceptance of the string (and of a mutated one)
        let (probe, mutated) = if rng.chance(1, 4) {
            let mut b: Vec<char> = text.chars().collect();
            for _ in 0..1 + rng.usize_below(2) {
                let c = *rng.pick(&['\'', ',', '=', '\\', ' ', 'a', '6', '4']);
                match rng.below(3) {
                    0 if !b.is_empty() => {
                        let p = rng.usize_below(b.len());
                        b[p] = c;
                    }
                    1 if !b.is_empty() => {
                        let p = rng.usize_below(b.len());
                        b.remove(p);
                    }
                    _ => {
                        let p = rng.usize_below(b.len() + 1);
                        b.insert(p, c);
                    }
                }
            }
            (b.into_iter().collect::<String>(), true)
        } else {
            (text.clone(), false)
        };
        let theirs = r.add_match(&probe).is_ok();
        let ours = parse_rule(&probe);
        if mutated || !theirs || ours.is_err() {
            if theirs {
                r.remove_match(&probe);
            }
            match (&ours, theirs) {
                (Ok(_), true) => g.agree(true),
                (Err(_), false) => g.agree(false),
                (Ok(_), false) if backslash_before_non_apostrophe(&probe) => g.explained("daemon-takes-the-character-after-a-literal-backslash-literally", json!({"rule": probe})),
                (Ok(parsed), false) => match daemon_stricter(parsed) {
                    // vref::matchrule::parse_rule is the GRAMMAR of rule strings; the daemon additionally checks the values
                    Some(why) => g.explained(why, json!({"rule": probe})),
                    None => g.unexplained(json!({"rule": probe, "mutated": mutated, "vref_accepts": true, "daemon_accepts": false})),
                },
                // dbus-daemon 1.14 treats an empty key as the end of the rule ("=", "type='signal',=x" are accepted); the grammar has no empty key
                (Err(e), true) if e == "empty key" || parse_rule(&strip_blanks_outside_quotes(&probe)) == Err("empty key".to_string()) => g.explained("daemon-stops-at-an-empty-key", json!({"rule": probe})),
                // a comma after the last pair is accepted by the daemon
                (Err(e), true) if e == "trailing comma" => g.explained("daemon-accepts-a-trailing-comma", json!({"rule": probe})),
                // the daemon skips blanks before a key and between key and '=' (a blank-only rule is the empty rule for it)
                (Err(_), true) if parse_rule(&strip_blanks_outside_quotes(&probe)).is_ok() || probe.trim().is_empty() => g.explained("daemon-ignores-blanks-around-keys", json!({"rule": probe})),
                // outside quotes the daemon takes a backslash that does not precede an apostrophe literally TOGETHER WITH the next character, so
                // `\\'` is two backslashes and an opening quote for it; read left to right as the specification words it, it is a backslash and an escaped apostrophe
                (Err(_), true) if backslash_before_non_apostrophe(&probe) => g.explained("daemon-takes-the-character-after-a-literal-backslash-literally", json!({"rule": probe})),
                (Err(e), true) => g.unexplained(json!({"rule": probe, "mutated": mutated, "vref_accepts": false, "vref_reason": e, "daemon_accepts": true})),
            }
            continue;
        }
        g.agree(true);
        if ours.as_ref().ok().map(|x| x.canonical()) != Some(rule.canonical()) {
            g.unexplained(json!({"what": "vref does not parse its own printing back", "rule": probe}));
        }
        // ---- a broadcast signal from S: in two cases of three shaped after the rule (then perturbed), so that deliveries are frequent
        let shaped = rng.chance(2, 3);
        let keep = |rng: &mut Rng| shaped && !rng.chance(1, 8);
        let path: String = match (&rule.path, &rule.path_namespace) {
            (Some(p), _) if keep(&mut rng) => p.clone(),
            (_, Some(ns)) if keep(&mut rng) => match rng.below(3) {
                0 => ns.clone(),
                1 => format!("{}/x", if ns == "/" { "" } else { ns.as_str() }),
                _ => format!("{}x", if ns == "/" { "/" } else { ns.as_str() }),
            },
            _ => rng.pick(MR_PATHS).to_string(),
        };
        let path = path.as_str();
        let iface = match &rule.interface {
            Some(i) if keep(&mut rng) => MR_IFACES.iter().find(|x| **x == i.as_str()).copied().unwrap_or(MR_IFACES[0]),
            _ => *rng.pick(MR_IFACES),
        };
        let member = match &rule.member {
            Some(i) if keep(&mut rng) => MR_MEMBERS.iter().find(|x| **x == i.as_str()).copied().unwrap_or(MR_MEMBERS[0]),
            _ => *rng.pick(MR_MEMBERS),
        };
        let nargs = if shaped { 3 } else { rng.usize_below(4) };
        let mut args = Vec::new();
        let mut body = Vec::new();
        for k in 0..nargs {
            let k = k as u8;
            // what the rule asks of this argument, if anything
            let wanted: Option<String> = if let Some((_, v)) = rule.args.iter().find(|(i, _)| *i == k) {
                Some(v.clone())
            } else if let Some((_, v)) = rule.arg_paths.iter().find(|(i, _)| *i == k) {
                Some(match rng.below(4) {
                    0 => v.clone(),
                    1 => format!("{}{}", v, if v.ends_with('/') { "q" } else { "/" }),
                    2 => v.trim_end_matches('/').rsplit_once('/').map(|(a, _)| format!("{a}/")).unwrap_or_else(|| "/".into()),
                    _ => format!("{v}x"),
                })
            } else if k == 0 && rule.arg0ns.is_some() {
                let ns = rule.arg0ns.clone().unwrap();
                Some(match rng.below(3) {
                    0 => ns,
                    1 => format!("{ns}.z"),
                    _ => format!("{ns}z"),
                })
            } else {
                None
            };
            if let Some(v) = wanted {
                if keep(&mut rng) {
                    if v.starts_with('/') && !v.ends_with("//") && (v == "/" || !v.ends_with('/')) && rule.arg_paths.iter().any(|(i, _)| *i == k) && rng.bool() {
                        args.push(Arg::Path(v.clone()));
                        body.push(Val::O(v));
                    } else {
                        args.push(Arg::Str(v.clone()));
                        body.push(Val::S(v));
                    }
                    continue;
                }
            }
            match rng.below(5) {
                0 => {
                    let p = *rng.pick(&["/p", "/p/q", "/", "/px"]);
                    args.push(Arg::Path(p.to_string()));
                    body.push(Val::O(p.to_string()));
                }
                1 => {
                    let v = rng.next_u32() % 3;
                    args.push(Arg::U32(v));
                    body.push(Val::U(v));
                }
                _ => {
                    let v = rng.pick(MR_STRINGS).to_string();
                    args.push(Arg::Str(v.clone()));
                    body.push(Val::S(v));
                }
            }
        }
        let m = Msg::signal(1, path, iface, member).with_sender(&s.unique).with_body(body);
        // resolve a well-known sender the way a bus does
        let mut resolved = rule.clone();
        let mut unowned = false;
        if let Some(n) = &rule.sender {
            if !n.starts_with(':') {
                match n.as_str() {
                    x if x == w_owned => resolved.sender = Some(s.unique.clone()),
                    x if x == w_other => resolved.sender = Some(t.unique.clone()),
                    _ => unowned = true,
                }
            }
        }
        let expect = !unowned && matches(&resolved, &m) == Some(true);
        if !s.send(4, path, iface, member, None, &args) || !s.send(4, "/m", "t.M", "Marker", Some(&r.unique), &[]) {
            return None;
        }
        let Some(seen) = r.read_until("Marker", 20_000) else {
            f.bump("marker_not_seen");
            r.remove_match(&text);
            continue;
        };
        r.remove_match(&text);
        let got = seen.iter().filter(|(t, _, from)| *t == 4 && *from == s.unique).count();
        f.bump(if expect { "expected_delivery" } else { "expected_no_delivery" });
        if got == expect as usize {
            f.agree(expect);
        } else {
            f.unexplained(json!({"case": case, "rule": text, "signal": {"path": path, "interface": iface, "member": member, "body": m.body.iter().map(|v| v.show()).collect::<Vec<_>>()},
                                 "vref_says_delivered": expect, "daemon_delivered": got}));
        }
    }
    Some((f, g))
}

/// `xcheck --probe-rule <rule> <arg0>...`: does the daemon deliver a signal whose first argument is <arg0> to a receiver holding <rule>?
fn probe_rule(rule: &str, candidates: &[String]) {
    let fns = ffi::BusFns::open().expect("libdbus");
    let daemon = Daemon::start().expect("dbus-daemon");
    let r = fns.connect(&daemon.address).expect("connect");
    let s = fns.connect(&daemon.address).expect("connect");
    s.send(4, "/m", "t.M", "Marker", Some(&r.unique), &[]);
    r.read_until("Marker", 5000);
    println!("rule {rule:?}: daemon {}", if r.add_match(rule).is_ok() { "accepts" } else { "REJECTS" });
    println!("vref: {:?}", vref::matchrule::parse_rule(rule));
    for c in candidates {
        s.send(4, "/p", "t.If", "Sig", None, &[ffi::Arg::Str(c.clone())]);
        s.send(4, "/m", "t.M", "Marker", Some(&r.unique), &[]);
        let seen = r.read_until("Marker", 5000).unwrap_or_default();
        println!("  arg0 {c:?}: {}", if seen.iter().any(|(t, _, from)| *t == 4 && *from == s.unique) { "delivered" } else { "not delivered" });
    }
}

fn main() {
    let args: Vec<String> = std::env::args().collect();
    if let Some(i) = args.iter().position(|a| a == "--xml-verdicts") {
        // documents separated by NUL bytes in the file; one line per document: "1" well-formed, "0 <reason>" otherwise
        let data = std::fs::read(&args[i + 1]).expect("read");
        let mut out = String::new();
        for doc in data.split(|b| *b == 0) {
            match std::str::from_utf8(doc) {
                Err(_) => out.push_str("0 not UTF-8\n"),
                Ok(t) => match xmlcheck::parse_document(t) {
                    Ok(_) => out.push_str("1\n"),
                    Err(e) => out.push_str(&format!("0 {}\n", e.replace('\n', " "))),
                },
            }
        }
        print!("{out}");
        return;
    }
    if let Some(i) = args.iter().position(|a| a == "--probe-rule") {
        probe_rule(&args[i + 1], &args[i + 2..]);
        return;
    }
    let get = |k: &str, d: &str| args.iter().position(|a| a == k).and_then(|i| args.get(i + 1)).cloned().unwrap_or(d.to_string());
    let seed: u64 = get("--seed", "1").parse().unwrap();
    let cases: u64 = get("--cases", "100000").parse().unwrap();
    let out = get("--out", "xcheck-report.json");
    let mut report = serde_json::Map::new();
    report.insert("seed".into(), json!(seed));
    report.insert("cases_per_family".into(), json!(cases));
    let mut bad = 0u64;
    let mut missing = Vec::new();
    match DBus::open() {
        Some(d) => {
            report.insert("libdbus_version".into(), json!(d.version()));
            for (name, fam) in [
                ("signatures_vs_dbus_signature_validate", family_sig(&d, seed, cases)),
                ("names_vs_dbus_validate", family_names(&d, seed, cases)),
                ("bodies_vs_dbus_message_demarshal", family_body(&d, seed, cases)),
                ("messages_vs_dbus_message_demarshal", family_message(&d, seed, cases)),
            ] {
                println!("[xcheck] {name}: cases={} accept/accept={} reject/reject={} explained={} unexplained={}",
                    fam.cases, fam.both_accept, fam.both_reject, fam.explained.values().sum::<u64>(), fam.n_unexplained());
                bad += fam.n_unexplained();
                report.insert(name.into(), fam.to_json());
            }
        }
        None => missing.push("libdbus-1.so.3"),
    }
    match GLib::open() {
        Some(g) => {
            report.insert("glib_version".into(), json!(format!("{}.{}.{}", g.major, g.minor, g.micro)));
            let fam = family_gvariant(&g, seed, cases);
            println!("[xcheck] gvariant_vs_glib: cases={} agree={} unexplained={}", fam.cases, fam.both_accept, fam.n_unexplained());
            bad += fam.n_unexplained();
            report.insert("gvariant_vs_glib".into(), fam.to_json());
        }
        None => missing.push("libglib-2.0.so.0"),
    }
    match family_matchrules(seed, (cases / 4).max(1000)) {
        Some((delivery, acceptance)) => {
            for (name, fam) in [("matchrule_delivery_vs_dbus_daemon", delivery), ("matchrule_strings_vs_dbus_daemon", acceptance)] {
                println!("[xcheck] {name}: cases={} accept/accept={} reject/reject={} explained={} unexplained={}",
                    fam.cases, fam.both_accept, fam.both_reject, fam.explained.values().sum::<u64>(), fam.n_unexplained());
                bad += fam.n_unexplained();
                report.insert(name.into(), fam.to_json());
            }
        }
        None => missing.push("dbus-daemon (or it could not be started / talked to)"),
    }
    report.insert("missing_libraries".into(), json!(missing));
    report.insert("unexplained_disagreements_total".into(), json!(bad));
    std::fs::write(&out, serde_json::to_string_pretty(&J::Object(report)).unwrap()).unwrap();
    println!("[xcheck] report: {out}");
    if bad > 0 {
        println!("[xcheck] ORACLE-DISAGREEMENT: {bad} unexplained (see the report)");
        std::process::exit(1);
    }
}
