//! `dlopen` bindings to the two independent implementations found in the image:
//! libdbus-1 (the reference D-Bus implementation) and GLib (the reference GVariant implementation).
//! No headers are needed; only the handful of functions below are resolved.

use std::ffi::{c_char, c_int, c_void, CString};

pub struct Lib(*mut c_void);

impl Lib {
    pub fn open(names: &[&str]) -> Option<Lib> {
        for n in names {
            let c = CString::new(*n).unwrap();
            let h = unsafe { libc::dlopen(c.as_ptr(), libc::RTLD_NOW | libc::RTLD_LOCAL) };
            if !h.is_null() {
                return Some(Lib(h));
            }
        }
        None
    }

    /// # Safety
    /// `T` must be the function pointer type of the symbol.
    pub unsafe fn sym<T: Copy>(&self, name: &str) -> T {
        let c = CString::new(name).unwrap();
        let p = libc::dlsym(self.0, c.as_ptr());
        assert!(!p.is_null(), "symbol {name} not found");
        assert_eq!(std::mem::size_of::<T>(), std::mem::size_of::<*mut c_void>());
        std::mem::transmute_copy(&p)
    }
}

type ValidateFn = unsafe extern "C" fn(*const c_char, *mut c_void) -> u32;

pub struct DBus {
    _lib: Lib,
    signature_validate: ValidateFn,
    validate_path: ValidateFn,
    validate_interface: ValidateFn,
    validate_member: ValidateFn,
    validate_error_name: ValidateFn,
    validate_bus_name: ValidateFn,
    demarshal: unsafe extern "C" fn(*const c_char, c_int, *mut c_void) -> *mut c_void,
    bytes_needed: unsafe extern "C" fn(*const c_char, c_int) -> c_int,
    marshal: unsafe extern "C" fn(*mut c_void, *mut *mut c_char, *mut c_int) -> u32,
    unref: unsafe extern "C" fn(*mut c_void),
    free: unsafe extern "C" fn(*mut c_void),
    get_signature: unsafe extern "C" fn(*mut c_void) -> *const c_char,
    get_version: unsafe extern "C" fn(*mut c_int, *mut c_int, *mut c_int),
}

impl DBus {
    pub fn open() -> Option<DBus> {
        let lib = Lib::open(&["libdbus-1.so.3", "libdbus-1.so"])?;
        unsafe {
            Some(DBus {
                signature_validate: lib.sym("dbus_signature_validate"),
                validate_path: lib.sym("dbus_validate_path"),
                validate_interface: lib.sym("dbus_validate_interface"),
                validate_member: lib.sym("dbus_validate_member"),
                validate_error_name: lib.sym("dbus_validate_error_name"),
                validate_bus_name: lib.sym("dbus_validate_bus_name"),
                demarshal: lib.sym("dbus_message_demarshal"),
                bytes_needed: lib.sym("dbus_message_demarshal_bytes_needed"),
                marshal: lib.sym("dbus_message_marshal"),
                unref: lib.sym("dbus_message_unref"),
                free: lib.sym("dbus_free"),
                get_signature: lib.sym("dbus_message_get_signature"),
                get_version: lib.sym("dbus_get_version"),
                _lib: lib,
            })
        }
    }

    pub fn version(&self) -> String {
        let (mut a, mut b, mut c) = (0, 0, 0);
        unsafe { (self.get_version)(&mut a, &mut b, &mut c) };
        format!("{a}.{b}.{c}")
    }

    fn call(&self, f: ValidateFn, s: &[u8]) -> Option<bool> {
        let c = CString::new(s).ok()?; // a C string cannot carry NUL
        Some(unsafe { f(c.as_ptr(), std::ptr::null_mut()) } != 0)
    }

    pub fn signature(&self, s: &[u8]) -> Option<bool> {
        self.call(self.signature_validate, s)
    }
    pub fn path(&self, s: &[u8]) -> Option<bool> {
        self.call(self.validate_path, s)
    }
    pub fn interface(&self, s: &[u8]) -> Option<bool> {
        self.call(self.validate_interface, s)
    }
    pub fn member(&self, s: &[u8]) -> Option<bool> {
        self.call(self.validate_member, s)
    }
    pub fn error_name(&self, s: &[u8]) -> Option<bool> {
        self.call(self.validate_error_name, s)
    }
    pub fn bus_name(&self, s: &[u8]) -> Option<bool> {
        self.call(self.validate_bus_name, s)
    }

    /// Whether libdbus accepts `bytes` as one complete message; when it does, its own re-marshalling and body signature.
    pub fn demarshal(&self, bytes: &[u8]) -> Option<(Vec<u8>, String)> {
        unsafe {
            let m = (self.demarshal)(bytes.as_ptr() as *const c_char, bytes.len() as c_int, std::ptr::null_mut());
            if m.is_null() {
                return None;
            }
            let mut out: *mut c_char = std::ptr::null_mut();
            let mut len: c_int = 0;
            let ok = (self.marshal)(m, &mut out, &mut len);
            let again = if ok != 0 && !out.is_null() {
                let v = std::slice::from_raw_parts(out as *const u8, len as usize).to_vec();
                (self.free)(out as *mut c_void);
                v
            } else {
                Vec::new()
            };
            let sig = std::ffi::CStr::from_ptr((self.get_signature)(m)).to_string_lossy().to_string();
            (self.unref)(m);
            Some((again, sig))
        }
    }

    pub fn bytes_needed(&self, b: &[u8]) -> i32 {
        unsafe { (self.bytes_needed)(b.as_ptr() as *const c_char, b.len() as c_int) }
    }
}

type P = *mut c_void;

pub struct GLib {
    _lib: Lib,
    pub type_new: unsafe extern "C" fn(*const c_char) -> P,
    pub type_free: unsafe extern "C" fn(P),
    pub type_string_is_valid: unsafe extern "C" fn(*const c_char) -> c_int,
    pub new_boolean: unsafe extern "C" fn(c_int) -> P,
    pub new_byte: unsafe extern "C" fn(u8) -> P,
    pub new_int16: unsafe extern "C" fn(i16) -> P,
    pub new_uint16: unsafe extern "C" fn(u16) -> P,
    pub new_int32: unsafe extern "C" fn(i32) -> P,
    pub new_uint32: unsafe extern "C" fn(u32) -> P,
    pub new_int64: unsafe extern "C" fn(i64) -> P,
    pub new_uint64: unsafe extern "C" fn(u64) -> P,
    pub new_handle: unsafe extern "C" fn(i32) -> P,
    pub new_double: unsafe extern "C" fn(f64) -> P,
    pub new_string: unsafe extern "C" fn(*const c_char) -> P,
    pub new_object_path: unsafe extern "C" fn(*const c_char) -> P,
    pub new_signature: unsafe extern "C" fn(*const c_char) -> P,
    pub new_variant: unsafe extern "C" fn(P) -> P,
    pub new_array: unsafe extern "C" fn(P, *const P, usize) -> P,
    pub new_tuple: unsafe extern "C" fn(*const P, usize) -> P,
    pub new_dict_entry: unsafe extern "C" fn(P, P) -> P,
    pub new_maybe: unsafe extern "C" fn(P, P) -> P,
    pub ref_sink: unsafe extern "C" fn(P) -> P,
    pub unref: unsafe extern "C" fn(P),
    pub get_size: unsafe extern "C" fn(P) -> usize,
    pub store: unsafe extern "C" fn(P, *mut c_void),
    pub byteswap: unsafe extern "C" fn(P) -> P,
    pub new_from_data: unsafe extern "C" fn(P, *const c_void, usize, c_int, P, P) -> P,
    pub is_normal_form: unsafe extern "C" fn(P) -> c_int,
    pub equal: unsafe extern "C" fn(P, P) -> c_int,
    pub print: unsafe extern "C" fn(P, c_int) -> *mut c_char,
    pub g_free: unsafe extern "C" fn(*mut c_void),
    pub major: u32,
    pub minor: u32,
    pub micro: u32,
}

impl GLib {
    pub fn open() -> Option<GLib> {
        let lib = Lib::open(&["libglib-2.0.so.0", "libglib-2.0.so"])?;
        unsafe {
            let major: *const u32 = lib.sym("glib_major_version");
            let minor: *const u32 = lib.sym("glib_minor_version");
            let micro: *const u32 = lib.sym("glib_micro_version");
            Some(GLib {
                type_new: lib.sym("g_variant_type_new"),
                type_free: lib.sym("g_variant_type_free"),
                type_string_is_valid: lib.sym("g_variant_type_string_is_valid"),
                new_boolean: lib.sym("g_variant_new_boolean"),
                new_byte: lib.sym("g_variant_new_byte"),
                new_int16: lib.sym("g_variant_new_int16"),
                new_uint16: lib.sym("g_variant_new_uint16"),
                new_int32: lib.sym("g_variant_new_int32"),
                new_uint32: lib.sym("g_variant_new_uint32"),
                new_int64: lib.sym("g_variant_new_int64"),
                new_uint64: lib.sym("g_variant_new_uint64"),
                new_handle: lib.sym("g_variant_new_handle"),
                new_double: lib.sym("g_variant_new_double"),
                new_string: lib.sym("g_variant_new_string"),
                new_object_path: lib.sym("g_variant_new_object_path"),
                new_signature: lib.sym("g_variant_new_signature"),
                new_variant: lib.sym("g_variant_new_variant"),
                new_array: lib.sym("g_variant_new_array"),
                new_tuple: lib.sym("g_variant_new_tuple"),
                new_dict_entry: lib.sym("g_variant_new_dict_entry"),
                new_maybe: lib.sym("g_variant_new_maybe"),
                ref_sink: lib.sym("g_variant_ref_sink"),
                unref: lib.sym("g_variant_unref"),
                get_size: lib.sym("g_variant_get_size"),
                store: lib.sym("g_variant_store"),
                byteswap: lib.sym("g_variant_byteswap"),
                new_from_data: lib.sym("g_variant_new_from_data"),
                is_normal_form: lib.sym("g_variant_is_normal_form"),
                equal: lib.sym("g_variant_equal"),
                print: lib.sym("g_variant_print"),
                g_free: lib.sym("g_free"),
                major: *major,
                minor: *minor,
                micro: *micro,
                _lib: lib,
            })
        }
    }
}

// ---------------------------------------------------------------------------------------------------
// A libdbus client connection (for talking to a private dbus-daemon without any zbus code involved).

type ErrBuf = [u64; 8]; // DBusError is 32 bytes on this ABI; twice that is reserved
type IterBuf = [u64; 16]; // DBusMessageIter is 72 bytes on this ABI

pub struct BusFns {
    _lib: Lib,
    error_init: unsafe extern "C" fn(*mut ErrBuf),
    error_is_set: unsafe extern "C" fn(*const ErrBuf) -> u32,
    error_free: unsafe extern "C" fn(*mut ErrBuf),
    open_private: unsafe extern "C" fn(*const c_char, *mut ErrBuf) -> P,
    set_exit_on_disconnect: unsafe extern "C" fn(P, u32),
    bus_register: unsafe extern "C" fn(P, *mut ErrBuf) -> u32,
    bus_get_unique_name: unsafe extern "C" fn(P) -> *const c_char,
    bus_add_match: unsafe extern "C" fn(P, *const c_char, *mut ErrBuf),
    bus_remove_match: unsafe extern "C" fn(P, *const c_char, *mut ErrBuf),
    bus_request_name: unsafe extern "C" fn(P, *const c_char, u32, *mut ErrBuf) -> c_int,
    message_new_signal: unsafe extern "C" fn(*const c_char, *const c_char, *const c_char) -> P,
    message_new_method_call: unsafe extern "C" fn(*const c_char, *const c_char, *const c_char, *const c_char) -> P,
    message_set_destination: unsafe extern "C" fn(P, *const c_char) -> u32,
    message_set_no_reply: unsafe extern "C" fn(P, u32),
    iter_init_append: unsafe extern "C" fn(P, *mut IterBuf),
    iter_append_basic: unsafe extern "C" fn(*mut IterBuf, c_int, *const c_void) -> u32,
    connection_send: unsafe extern "C" fn(P, P, *mut u32) -> u32,
    connection_flush: unsafe extern "C" fn(P),
    connection_read_write: unsafe extern "C" fn(P, c_int) -> u32,
    connection_pop_message: unsafe extern "C" fn(P) -> P,
    message_get_member: unsafe extern "C" fn(P) -> *const c_char,
    message_get_sender: unsafe extern "C" fn(P) -> *const c_char,
    message_get_type: unsafe extern "C" fn(P) -> c_int,
    message_unref: unsafe extern "C" fn(P),
    connection_close: unsafe extern "C" fn(P),
    connection_unref: unsafe extern "C" fn(P),
}

pub enum Arg {
    Str(String),
    Path(String),
    U32(u32),
}

pub struct BusConn<'a> {
    f: &'a BusFns,
    c: P,
    pub unique: String,
}

impl BusFns {
    pub fn open() -> Option<BusFns> {
        let lib = Lib::open(&["libdbus-1.so.3", "libdbus-1.so"])?;
        unsafe {
            Some(BusFns {
                error_init: lib.sym("dbus_error_init"),
                error_is_set: lib.sym("dbus_error_is_set"),
                error_free: lib.sym("dbus_error_free"),
                open_private: lib.sym("dbus_connection_open_private"),
                set_exit_on_disconnect: lib.sym("dbus_connection_set_exit_on_disconnect"),
                bus_register: lib.sym("dbus_bus_register"),
                bus_get_unique_name: lib.sym("dbus_bus_get_unique_name"),
                bus_add_match: lib.sym("dbus_bus_add_match"),
                bus_remove_match: lib.sym("dbus_bus_remove_match"),
                bus_request_name: lib.sym("dbus_bus_request_name"),
                message_new_signal: lib.sym("dbus_message_new_signal"),
                message_new_method_call: lib.sym("dbus_message_new_method_call"),
                message_set_destination: lib.sym("dbus_message_set_destination"),
                message_set_no_reply: lib.sym("dbus_message_set_no_reply"),
                iter_init_append: lib.sym("dbus_message_iter_init_append"),
                iter_append_basic: lib.sym("dbus_message_iter_append_basic"),
                connection_send: lib.sym("dbus_connection_send"),
                connection_flush: lib.sym("dbus_connection_flush"),
                connection_read_write: lib.sym("dbus_connection_read_write"),
                connection_pop_message: lib.sym("dbus_connection_pop_message"),
                message_get_member: lib.sym("dbus_message_get_member"),
                message_get_sender: lib.sym("dbus_message_get_sender"),
                message_get_type: lib.sym("dbus_message_get_type"),
                message_unref: lib.sym("dbus_message_unref"),
                connection_close: lib.sym("dbus_connection_close"),
                connection_unref: lib.sym("dbus_connection_unref"),
                _lib: lib,
            })
        }
    }

    pub fn connect(&self, address: &str) -> Result<BusConn<'_>, String> {
        unsafe {
            let mut e: ErrBuf = [0; 8];
            (self.error_init)(&mut e);
            let a = CString::new(address).unwrap();
            let c = (self.open_private)(a.as_ptr(), &mut e);
            if c.is_null() {
                (self.error_free)(&mut e);
                return Err("dbus_connection_open_private failed".into());
            }
            (self.set_exit_on_disconnect)(c, 0);
            if (self.bus_register)(c, &mut e) == 0 {
                (self.error_free)(&mut e);
                return Err("dbus_bus_register failed".into());
            }
            let unique = std::ffi::CStr::from_ptr((self.bus_get_unique_name)(c)).to_string_lossy().to_string();
            Ok(BusConn { f: self, c, unique })
        }
    }
}

impl<'a> BusConn<'a> {
    /// AddMatch, waiting for the daemon's verdict: Ok(()) if it accepted the rule.
    pub fn add_match(&self, rule: &str) -> Result<(), ()> {
        let Ok(r) = CString::new(rule) else { return Err(()) };
        unsafe {
            let mut e: ErrBuf = [0; 8];
            (self.f.error_init)(&mut e);
            (self.f.bus_add_match)(self.c, r.as_ptr(), &mut e);
            if (self.f.error_is_set)(&e) != 0 {
                (self.f.error_free)(&mut e);
                return Err(());
            }
            Ok(())
        }
    }

    pub fn remove_match(&self, rule: &str) {
        let Ok(r) = CString::new(rule) else { return };
        unsafe {
            let mut e: ErrBuf = [0; 8];
            (self.f.error_init)(&mut e);
            (self.f.bus_remove_match)(self.c, r.as_ptr(), &mut e);
            if (self.f.error_is_set)(&e) != 0 {
                (self.f.error_free)(&mut e);
            }
        }
    }

    pub fn request_name(&self, name: &str) -> bool {
        let n = CString::new(name).unwrap();
        unsafe {
            let mut e: ErrBuf = [0; 8];
            (self.f.error_init)(&mut e);
            let r = (self.f.bus_request_name)(self.c, n.as_ptr(), 4, &mut e);
            if (self.f.error_is_set)(&e) != 0 {
                (self.f.error_free)(&mut e);
                return false;
            }
            r == 1
        }
    }

    /// Send a message (signal, or a no-reply method call when `call_destination` is given) and flush.
    pub fn send(&self, mtype: u8, path: &str, iface: &str, member: &str, destination: Option<&str>, args: &[Arg]) -> bool {
        unsafe {
            let (p, i, m) = (CString::new(path).unwrap(), CString::new(iface).unwrap(), CString::new(member).unwrap());
            let msg = if mtype == 4 {
                (self.f.message_new_signal)(p.as_ptr(), i.as_ptr(), m.as_ptr())
            } else {
                let d = CString::new(destination.unwrap_or("org.freedesktop.DBus")).unwrap();
                let msg = (self.f.message_new_method_call)(d.as_ptr(), p.as_ptr(), i.as_ptr(), m.as_ptr());
                if !msg.is_null() {
                    (self.f.message_set_no_reply)(msg, 1);
                }
                msg
            };
            if msg.is_null() {
                return false;
            }
            if mtype == 4 {
                if let Some(d) = destination {
                    let d = CString::new(d).unwrap();
                    (self.f.message_set_destination)(msg, d.as_ptr());
                }
            }
            let mut it: IterBuf = [0; 16];
            (self.f.iter_init_append)(msg, &mut it);
            for a in args {
                let ok = match a {
                    Arg::Str(s) | Arg::Path(s) => {
                        let c = CString::new(s.as_str()).unwrap();
                        let ptr: *const c_char = c.as_ptr();
                        let code = if matches!(a, Arg::Str(_)) { b's' } else { b'o' } as c_int;
                        (self.f.iter_append_basic)(&mut it, code, &ptr as *const *const c_char as *const c_void)
                    }
                    Arg::U32(v) => (self.f.iter_append_basic)(&mut it, b'u' as c_int, v as *const u32 as *const c_void),
                };
                if ok == 0 {
                    (self.f.message_unref)(msg);
                    return false;
                }
            }
            let ok = (self.f.connection_send)(self.c, msg, std::ptr::null_mut());
            (self.f.connection_flush)(self.c);
            (self.f.message_unref)(msg);
            ok != 0
        }
    }

    /// Read until a message with member `marker` arrives (at most `limit_ms`); returns the (type, member, sender) of everything before it.
    pub fn read_until(&self, marker: &str, limit_ms: u64) -> Option<Vec<(i32, String, String)>> {
        let start = std::time::Instant::now();
        let mut seen = Vec::new();
        unsafe {
            loop {
                loop {
                    let m = (self.f.connection_pop_message)(self.c);
                    if m.is_null() {
                        break;
                    }
                    let s = |p: *const c_char| if p.is_null() { String::new() } else { std::ffi::CStr::from_ptr(p).to_string_lossy().to_string() };
                    let member = s((self.f.message_get_member)(m));
                    let sender = s((self.f.message_get_sender)(m));
                    let t = (self.f.message_get_type)(m);
                    (self.f.message_unref)(m);
                    if member == marker {
                        return Some(seen);
                    }
                    seen.push((t, member, sender));
                }
                if start.elapsed().as_millis() as u64 > limit_ms {
                    return None;
                }
                if (self.f.connection_read_write)(self.c, 50) == 0 {
                    return None;
                }
            }
        }
    }
}

impl<'a> Drop for BusConn<'a> {
    fn drop(&mut self) {
        unsafe {
            (self.f.connection_close)(self.c);
            (self.f.connection_unref)(self.c);
        }
    }
}
