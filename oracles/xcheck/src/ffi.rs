//! `dlopen` bindings to the two independent implementations found in the image:
//! libdbus-1 (the reference D-Bus implementation) and GLib (the reference GVariant implementation).
//! No headers are needed; only the handful of functions below are resolved.

use std::ffi::{c_char, c_int, c_void, CString};

pub struct Lib(*mut c_void);

impl Lib {
    pub fn open(names: &[&str]) -> Option<Lib> {
        for n in names {
            let c = CString::new(*n).unwrap();
            let h = unsafe { libc::dlopen(c.as_ptr(), libc::RTLD_NOW | libc::RTLD_LOCAL) };
            if !h.is_null() {
                return Some(Lib(h));
            }
        }
        None
    }

    /// # Safety
    /// `T` must be the function pointer type of the symbol.
    pub unsafe fn sym<T: Copy>(&self, name: &str) -> T {
        let c = CString::new(name).unwrap();
        let p = libc::dlsym(self.0, c.as_ptr());
        assert!(!p.is_null(), "symbol {name} not found");
        assert_eq!(std::mem::size_of::<T>(), std::mem::size_of::<*mut c_void>());
        std::mem::transmute_copy(&p)
    }
}

type ValidateFn = unsafe extern "C" fn(*const c_char, *mut c_void) -> u32;

pub struct DBus {
    _lib: Lib,
    signature_validate: ValidateFn,
    validate_path: ValidateFn,
    validate_interface: ValidateFn,
    validate_member: ValidateFn,
    validate_error_name: ValidateFn,
    validate_bus_name: ValidateFn,
    demarshal: unsafe extern "C" fn(*const c_char, c_int, *mut c_void) -> *mut c_void,
    bytes_needed: unsafe extern "C" fn(*const c_char, c_int) -> c_int,
    marshal: unsafe extern "C" fn(*mut c_void, *mut *mut c_char, *mut c_int) -> u32,
    unref: unsafe extern "C" fn(*mut c_void),
    free: unsafe extern "C" fn(*mut c_void),
    get_signature: unsafe extern "C" fn(*mut c_void) -> *const c_char,
    get_version: unsafe extern "C" fn(*mut c_int, *mut c_int, *mut c_int),
}

impl DBus {
    pub fn open() -> Option<DBus> {
        let lib = Lib::open(&["libdbus-1.so.3", "libdbus-1.so"])?;
        unsafe {
            Some(DBus {
                signature_validate: lib.sym("dbus_signature_validate"),
                validate_path: lib.sym("dbus_validate_path"),
                validate_interface: lib.sym("dbus_validate_interface"),
                validate_member: lib.sym("dbus_validate_member"),
                validate_error_name: lib.sym("dbus_validate_error_name"),
                validate_bus_name: lib.sym("dbus_validate_bus_name"),
                demarshal: lib.sym("dbus_message_demarshal"),
                bytes_needed: lib.sym("dbus_message_demarshal_bytes_needed"),
                marshal: lib.sym("dbus_message_marshal"),
                unref: lib.sym("dbus_message_unref"),
                free: lib.sym("dbus_free"),
                get_signature: lib.sym("dbus_message_get_signature"),
                get_version: lib.sym("dbus_get_version"),
                _lib: lib,
            })
        }
    }

    pub fn version(&self) -> String {
        let (mut a, mut b, mut c) = (0, 0, 0);
        unsafe { (self.get_version)(&mut a, &mut b, &mut c) };
        format!("{a}.{b}.{c}")
    }

    fn call(&self, f: ValidateFn, s: &[u8]) -> Option<bool> {
        let c = CString::new(s).ok()?; // a C string cannot carry NUL
        Some(unsafe { f(c.as_ptr(), std::ptr::null_mut()) } != 0)
    }

    pub fn signature(&self, s: &[u8]) -> Option<bool> {
        self.call(self.signature_validate, s)
    }
    pub fn path(&self, s: &[u8]) -> Option<bool> {
        self.call(self.validate_path, s)
    }
    pub fn interface(&self, s: &[u8]) -> Option<bool> {
        self.call(self.validate_interface, s)
    }
    pub fn member(&self, s: &[u8]) -> Option<bool> {
        self.call(self.validate_member, s)
    }
    pub fn error_name(&self, s: &[u8]) -> Option<bool> {
        self.call(self.validate_error_name, s)
    }
    pub fn bus_name(&self, s: &[u8]) -> Option<bool> {
        self.call(self.validate_bus_name, s)
    }

    /// Whether libdbus accepts `bytes` as one complete message; when it does, its own re-marshalling and body signature.
    pub fn demarshal(&self, bytes: &[u8]) -> Option<(Vec<u8>, String)> {
        unsafe {
            let m = (self.demarshal)(bytes.as_ptr() as *const c_char, bytes.len() as c_int, std::ptr::null_mut());
            if m.is_null() {
                return None;
            }
            let mut out: *mut c_char = std::ptr::null_mut();
            let mut len: c_int = 0;
            let ok = (self.marshal)(m, &mut out, &mut len);
            let again = if ok != 0 && !out.is_null() {
                let v = std::slice::from_raw_parts(out as *const u8, len as usize).to_vec();
                (self.free)(out as *mut c_void);
                v
            } else {
                Vec::new()
            };
            let sig = std::ffi::CStr::from_ptr((self.get_signature)(m)).to_string_lossy().to_string();
            (self.unref)(m);
            Some((again, sig))
        }
    }

    pub fn bytes_needed(&self, b: &[u8]) -> i32 {
        unsafe { (self.bytes_needed)(b.as_ptr() as *const c_char, b.len() as c_int) }
    }
}

type P = *mut c_void;

pub struct GLib {
    _lib: Lib,
    pub type_new: unsafe extern "C" fn(*const c_char) -> P,
    pub type_free: unsafe extern "C" fn(P),
    pub type_string_is_valid: unsafe extern "C" fn(*const c_char) -> c_int,
    pub new_boolean: unsafe extern "C" fn(c_int) -> P,
    pub new_byte: unsafe extern "C" fn(u8) -> P,
    pub new_int16: unsafe extern "C" fn(i16) -> P,
    pub new_uint16: unsafe extern "C" fn(u16) -> P,
    pub new_int32: unsafe extern "C" fn(i32) -> P,
    pub new_uint32: unsafe extern "C" fn(u32) -> P,
    pub new_int64: unsafe extern "C" fn(i64) -> P,
    pub new_uint64: unsafe extern "C" fn(u64) -> P,
    pub new_handle: unsafe extern "C" fn(i32) -> P,
    pub new_double: unsafe extern "C" fn(f64) -> P,
    pub new_string: unsafe extern "C" fn(*const c_char) -> P,
    pub new_object_path: unsafe extern "C" fn(*const c_char) -> P,
    pub new_signature: unsafe extern "C" fn(*const c_char) -> P,
    pub new_variant: unsafe extern "C" fn(P) -> P,
    pub new_array: unsafe extern "C" fn(P, *const P, usize) -> P,
    pub new_tuple: unsafe extern "C" fn(*const P, usize) -> P,
    pub new_dict_entry: unsafe extern "C" fn(P, P) -> P,
    pub new_maybe: unsafe extern "C" fn(P, P) -> P,
    pub ref_sink: unsafe extern "C" fn(P) -> P,
    pub unref: unsafe extern "C" fn(P),
    pub get_size: unsafe extern "C" fn(P) -> usize,
    pub store: unsafe extern "C" fn(P, *mut c_void),
    pub byteswap: unsafe extern "C" fn(P) -> P,
    pub new_from_data: unsafe extern "C" fn(P, *const c_void, usize, c_int, P, P) -> P,
    pub is_normal_form: unsafe extern "C" fn(P) -> c_int,
    pub equal: unsafe extern "C" fn(P, P) -> c_int,
    pub print: unsafe extern "C" fn(P, c_int) -> *mut c_char,
    pub g_free: unsafe extern "C" fn(*mut c_void),
    pub major: u32,
    pub minor: u32,
    pub micro: u32,
}

impl GLib {
    pub fn open() -> Option<GLib> {
        let lib = Lib::open(&["libglib-2.0.so.0", "libglib-2.0.so"])?;
        unsafe {
            let major: *const u32 = lib.sym("glib_major_version");
            let minor: *const u32 = lib.sym("glib_minor_version");
            let micro: *const u32 = lib.sym("glib_micro_version");
            Some(GLib {
                type_new: lib.sym("g_variant_type_new"),
                type_free: lib.sym("g_variant_type_free"),
                type_string_is_valid: lib.sym("g_variant_type_string_is_valid"),
                new_boolean: lib.sym("g_variant_new_boolean"),
                new_byte: lib.sym("g_variant_new_byte"),
                new_int16: lib.sym("g_variant_new_int16"),
                new_uint16: lib.sym("g_variant_new_uint16"),
                new_int32: lib.sym("g_variant_new_int32"),
                new_uint32: lib.sym("g_variant_new_uint32"),
                new_int64: lib.sym("g_variant_new_int64"),
                new_uint64: lib.sym("g_variant_new_uint64"),
                new_handle: lib.sym("g_variant_new_handle"),
                new_double: lib.sym("g_variant_new_double"),
                new_string: lib.sym("g_variant_new_string"),
                new_object_path: lib.sym("g_variant_new_object_path"),
                new_signature: lib.sym("g_variant_new_signature"),
                new_variant: lib.sym("g_variant_new_variant"),
                new_array: lib.sym("g_variant_new_array"),
                new_tuple: lib.sym("g_variant_new_tuple"),
                new_dict_entry: lib.sym("g_variant_new_dict_entry"),
                new_maybe: lib.sym("g_variant_new_maybe"),
                ref_sink: lib.sym("g_variant_ref_sink"),
                unref: lib.sym("g_variant_unref"),
                get_size: lib.sym("g_variant_get_size"),
                store: lib.sym("g_variant_store"),
                byteswap: lib.sym("g_variant_byteswap"),
                new_from_data: lib.sym("g_variant_new_from_data"),
                is_normal_form: lib.sym("g_variant_is_normal_form"),
                equal: lib.sym("g_variant_equal"),
                print: lib.sym("g_variant_print"),
                g_free: lib.sym("g_free"),
                major: *major,
                minor: *minor,
                micro: *micro,
                _lib: lib,
            })
        }
    }
}
