//! SplitMix64-seeded xoshiro256** PRNG. No external dependency, deterministic.

#[derive(Clone, Debug)]
pub struct Rng {
    s: [u64; 4],
}

fn splitmix(x: &mut u64) -> u64 {
    *x = x.wrapping_add(0x9E3779B97F4A7C15);
    let mut z = *x;
    z = (z ^ (z >> 30)).wrapping_mul(0xBF58476D1CE4E5B9);
    z = (z ^ (z >> 27)).wrapping_mul(0x94D049BB133111EB);
    z ^ (z >> 31)
}

/// FNV-1a hash of a string, used to mix property names into seeds.
pub fn fnv(s: &str) -> u64 {
    let mut h: u64 = 0xcbf29ce484222325;
    for b in s.bytes() {
        h ^= b as u64;
        h = h.wrapping_mul(0x100000001b3);
    }
    h
}

pub fn fnv_bytes(s: &[u8]) -> u64 {
    let mut h: u64 = 0xcbf29ce484222325;
    for b in s {
        h ^= *b as u64;
        h = h.wrapping_mul(0x100000001b3);
    }
    h
}

impl Rng {
    pub fn new(seed: u64) -> Self {
        let mut x = seed;
        let s = [
            splitmix(&mut x),
            splitmix(&mut x),
            splitmix(&mut x),
            splitmix(&mut x),
        ];
        Rng { s }
    }

    /// Seed from (VERIF_SEED, property, shard, case index).
    pub fn for_case(seed: u64, property: &str, shard: u64, index: u64) -> Self {
        let mut x = seed ^ fnv(property).rotate_left(17);
        let a = splitmix(&mut x);
        let mut y = a ^ shard.wrapping_mul(0xD6E8FEB86659FD93);
        let b = splitmix(&mut y);
        let mut z = b ^ index.wrapping_mul(0xA24BAED4963EE407);
        Rng::new(splitmix(&mut z))
    }

    pub fn next_u64(&mut self) -> u64 {
        let result = self.s[1].wrapping_mul(5).rotate_left(7).wrapping_mul(9);
        let t = self.s[1] << 17;
        self.s[2] ^= self.s[0];
        self.s[3] ^= self.s[1];
        self.s[1] ^= self.s[2];
        self.s[0] ^= self.s[3];
        self.s[2] ^= t;
        self.s[3] = self.s[3].rotate_left(45);
        result
    }

    pub fn next_u32(&mut self) -> u32 {
        (self.next_u64() >> 32) as u32
    }

    /// Uniform in 0..n (n > 0).
    pub fn below(&mut self, n: u64) -> u64 {
        debug_assert!(n > 0);
        // multiply-shift; bias negligible for our purposes
        ((self.next_u64() as u128 * n as u128) >> 64) as u64
    }

    pub fn usize_below(&mut self, n: usize) -> usize {
        self.below(n as u64) as usize
    }

    /// Uniform in lo..=hi.
    pub fn range(&mut self, lo: u64, hi: u64) -> u64 {
        lo + self.below(hi - lo + 1)
    }

    pub fn chance(&mut self, num: u64, den: u64) -> bool {
        self.below(den) < num
    }

    pub fn bool(&mut self) -> bool {
        self.next_u64() & 1 == 1
    }

    pub fn pick<'a, T>(&mut self, xs: &'a [T]) -> &'a T {
        &xs[self.usize_below(xs.len())]
    }

    pub fn bytes(&mut self, n: usize) -> Vec<u8> {
        let mut v = Vec::with_capacity(n);
        while v.len() < n {
            let x = self.next_u64().to_le_bytes();
            let take = (n - v.len()).min(8);
            v.extend_from_slice(&x[..take]);
        }
        v
    }

    pub fn shuffle<T>(&mut self, xs: &mut [T]) {
        for i in (1..xs.len()).rev() {
            let j = self.usize_below(i + 1);
            xs.swap(i, j);
        }
    }
}

#[cfg(test)]
mod tests {
    use super::*;
    #[test]
    fn deterministic() {
        let mut a = Rng::for_case(1, "C01", 2, 3);
        let mut b = Rng::for_case(1, "C01", 2, 3);
        for _ in 0..10 {
            assert_eq!(a.next_u64(), b.next_u64());
        }
        let mut c = Rng::for_case(1, "C01", 2, 4);
        assert_ne!(a.next_u64(), c.next_u64());
    }
}
