//! Reference D-Bus message marshaller / parser (header layout, header fields
//! array, body alignment), from the specification's "Message Format" section.
//! Independent of zbus. Used by the monitors as the oracle for built messages,
//! and by the scripted peers (RawPeer, FakeBus) to talk to zbus on the wire.

use crate::dbus::{marshal_seq, unmarshal_seq, Endian, Mark, Out};
use crate::sig::{parse_sig, seq_to_string, Sig, SigOpts};
use crate::val::Val;

pub const METHOD_CALL: u8 = 1;
pub const METHOD_RETURN: u8 = 2;
pub const ERROR: u8 = 3;
pub const SIGNAL: u8 = 4;

pub const F_PATH: u8 = 1;
pub const F_INTERFACE: u8 = 2;
pub const F_MEMBER: u8 = 3;
pub const F_ERROR_NAME: u8 = 4;
pub const F_REPLY_SERIAL: u8 = 5;
pub const F_DESTINATION: u8 = 6;
pub const F_SENDER: u8 = 7;
pub const F_SIGNATURE: u8 = 8;
pub const F_UNIX_FDS: u8 = 9;

pub const FLAG_NO_REPLY: u8 = 1;
pub const FLAG_NO_AUTO_START: u8 = 2;
pub const FLAG_ALLOW_INTERACTIVE_AUTH: u8 = 4;

#[derive(Clone, Debug, PartialEq)]
pub struct Msg {
    pub endian: Endian,
    pub mtype: u8,
    pub flags: u8,
    pub version: u8,
    pub serial: u32,
    /// header fields in wire order: (code, payload of the variant)
    pub fields: Vec<(u8, Val)>,
    pub body: Vec<Val>,
}

impl Msg {
    pub fn new(mtype: u8, serial: u32) -> Msg {
        Msg {
            endian: Endian::Le,
            mtype,
            flags: 0,
            version: 1,
            serial,
            fields: Vec::new(),
            body: Vec::new(),
        }
    }

    pub fn method_call(serial: u32, path: &str, iface: Option<&str>, member: &str) -> Msg {
        let mut m = Msg::new(METHOD_CALL, serial);
        m.fields.push((F_PATH, Val::O(path.into())));
        if let Some(i) = iface {
            m.fields.push((F_INTERFACE, Val::S(i.into())));
        }
        m.fields.push((F_MEMBER, Val::S(member.into())));
        m
    }

    pub fn signal(serial: u32, path: &str, iface: &str, member: &str) -> Msg {
        let mut m = Msg::new(SIGNAL, serial);
        m.fields.push((F_PATH, Val::O(path.into())));
        m.fields.push((F_INTERFACE, Val::S(iface.into())));
        m.fields.push((F_MEMBER, Val::S(member.into())));
        m
    }

    pub fn method_return(serial: u32, reply_serial: u32) -> Msg {
        let mut m = Msg::new(METHOD_RETURN, serial);
        m.fields.push((F_REPLY_SERIAL, Val::U(reply_serial)));
        m
    }

    pub fn error(serial: u32, reply_serial: u32, name: &str) -> Msg {
        let mut m = Msg::new(ERROR, serial);
        m.fields.push((F_ERROR_NAME, Val::S(name.into())));
        m.fields.push((F_REPLY_SERIAL, Val::U(reply_serial)));
        m
    }

    pub fn with_sender(mut self, s: &str) -> Msg {
        self.fields.push((F_SENDER, Val::S(s.into())));
        self
    }

    pub fn with_destination(mut self, s: &str) -> Msg {
        self.fields.push((F_DESTINATION, Val::S(s.into())));
        self
    }

    pub fn with_body(mut self, body: Vec<Val>) -> Msg {
        self.body = body;
        self
    }

    pub fn with_flags(mut self, f: u8) -> Msg {
        self.flags = f;
        self
    }

    pub fn field(&self, code: u8) -> Option<&Val> {
        self.fields.iter().find(|(c, _)| *c == code).map(|(_, v)| v)
    }

    pub fn field_str(&self, code: u8) -> Option<&str> {
        match self.field(code) {
            Some(Val::S(s)) | Some(Val::O(s)) | Some(Val::G(s)) => Some(s.as_str()),
            _ => None,
        }
    }

    pub fn field_u32(&self, code: u8) -> Option<u32> {
        match self.field(code) {
            Some(Val::U(u)) => Some(*u),
            _ => None,
        }
    }

    pub fn path(&self) -> Option<&str> {
        self.field_str(F_PATH)
    }
    pub fn interface(&self) -> Option<&str> {
        self.field_str(F_INTERFACE)
    }
    pub fn member(&self) -> Option<&str> {
        self.field_str(F_MEMBER)
    }
    pub fn error_name(&self) -> Option<&str> {
        self.field_str(F_ERROR_NAME)
    }
    pub fn reply_serial(&self) -> Option<u32> {
        self.field_u32(F_REPLY_SERIAL)
    }
    pub fn sender(&self) -> Option<&str> {
        self.field_str(F_SENDER)
    }
    pub fn destination(&self) -> Option<&str> {
        self.field_str(F_DESTINATION)
    }
    pub fn signature(&self) -> &str {
        self.field_str(F_SIGNATURE).unwrap_or("")
    }

    pub fn body_sig_string(&self) -> String {
        seq_to_string(&self.body.iter().map(|v| v.sig()).collect::<Vec<_>>())
    }

    /// Marshal the message. The SIGNATURE field is added automatically when the
    /// body is not empty (unless a field with code 8 is already present), and
    /// UNIX_FDS when the body mentions fds (unless present).
    pub fn marshal(&self) -> Vec<u8> {
        let mut fields = self.fields.clone();
        if !self.body.is_empty() && !fields.iter().any(|(c, _)| *c == F_SIGNATURE) {
            fields.push((F_SIGNATURE, Val::G(self.body_sig_string())));
        }
        let nfds: usize = self.body.iter().map(|b| b.count_fds()).sum();
        if nfds > 0 && !fields.iter().any(|(c, _)| *c == F_UNIX_FDS) {
            fields.push((F_UNIX_FDS, Val::U(nfds as u32)));
        }
        self.marshal_with(&fields, None)
    }

    /// Marshal and return structural marks over the whole message (for mutators).
    pub fn marshal_marked(&self) -> (Vec<u8>, Vec<(usize, Mark)>) {
        let bytes = self.marshal();
        let e = self.endian;
        // re-marshal header and body through `Out` to collect marks
        let mut fields = self.fields.clone();
        if !self.body.is_empty() && !fields.iter().any(|(c, _)| *c == F_SIGNATURE) {
            fields.push((F_SIGNATURE, Val::G(self.body_sig_string())));
        }
        let nfds: usize = self.body.iter().map(|b| b.count_fds()).sum();
        if nfds > 0 && !fields.iter().any(|(c, _)| *c == F_UNIX_FDS) {
            fields.push((F_UNIX_FDS, Val::U(nfds as u32)));
        }
        let mut o = Out::new(e, 0);
        o.buf.extend_from_slice(&bytes[..12]);
        let entry_sig = Sig::St(vec![Sig::Y, Sig::V]);
        let arr = Val::A(
            entry_sig,
            fields.iter().map(|(c, v)| Val::St(vec![Val::Y(*c), Val::V(Box::new(v.clone()))])).collect(),
        );
        o.put(&arr);
        o.pad(8);
        let body_off = o.buf.len();
        let mut marks = o.marks;
        // fixed header bytes are interesting too
        for i in 0..12 {
            marks.push((i, Mark::Fixed));
        }
        let mut bo = Out::new(e, 0);
        for v in &self.body {
            bo.put(v);
        }
        for (p, m) in bo.marks {
            marks.push((body_off + p, m));
        }
        (bytes, marks)
    }

    /// Marshal with explicit fields and optionally a forged body length.
    pub fn marshal_with(&self, fields: &[(u8, Val)], forged_body_len: Option<u32>) -> Vec<u8> {
        let e = self.endian;
        // body first (to know its length); the body always starts 8-aligned so offset 0 is equivalent
        let body = marshal_seq(&self.body, e, 0);
        let mut o = Out::new(e, 0);
        o.buf.push(match e {
            Endian::Le => b'l',
            Endian::Be => b'B',
        });
        o.buf.push(self.mtype);
        o.buf.push(self.flags);
        o.buf.push(self.version);
        o.buf.extend_from_slice(&e.u32(forged_body_len.unwrap_or(body.len() as u32)));
        o.buf.extend_from_slice(&e.u32(self.serial));
        let entry_sig = Sig::St(vec![Sig::Y, Sig::V]);
        let arr = Val::A(
            entry_sig,
            fields
                .iter()
                .map(|(c, v)| Val::St(vec![Val::Y(*c), Val::V(Box::new(v.clone()))]))
                .collect(),
        );
        o.put(&arr);
        o.pad(8);
        let mut out = o.buf;
        out.extend_from_slice(&body);
        out
    }
}

#[derive(Clone, Debug)]
pub struct Parsed {
    pub msg: Msg,
    pub body_len: u32,
    pub fields_len: u32,
    pub body_offset: usize,
    pub total_len: usize,
    /// raw body bytes
    pub body_bytes: Vec<u8>,
    /// fields whose code is not one of 1..=9
    pub unknown_fields: Vec<u8>,
}

/// Total length of the message starting at `b` if at least 16 bytes are
/// available and the fixed header is sane.
pub fn peek_len(b: &[u8]) -> Result<usize, String> {
    if b.len() < 16 {
        return Err("need 16 bytes".into());
    }
    let e = match b[0] {
        b'l' => Endian::Le,
        b'B' => Endian::Be,
        x => return Err(format!("bad endian byte {x:#x}")),
    };
    let body_len = e.rd32(&b[4..8]) as usize;
    let fields_len = e.rd32(&b[12..16]) as usize;
    let hdr = 16 + fields_len;
    let body_offset = (hdr + 7) / 8 * 8;
    Ok(body_offset + body_len)
}

/// Parse one complete message (exactly `b`). Validates the header layout,
/// field types, zero padding, declared lengths, and (when the signature field
/// parses) the body against its signature.
pub fn parse(b: &[u8], nfds: Option<u32>) -> Result<Parsed, String> {
    if b.len() < 16 {
        return Err("shorter than the fixed header".into());
    }
    let e = match b[0] {
        b'l' => Endian::Le,
        b'B' => Endian::Be,
        x => return Err(format!("bad endian byte {x:#x}")),
    };
    let hdr_sigs = [
        Sig::Y,
        Sig::Y,
        Sig::Y,
        Sig::Y,
        Sig::U,
        Sig::U,
        Sig::A(Box::new(Sig::St(vec![Sig::Y, Sig::V]))),
    ];
    let (vals, used) = unmarshal_seq(b, &hdr_sigs, e, 0, None).map_err(|(r, t)| format!("header: {} in {}", r.name(), t))?;
    let (mtype, flags, version, body_len, serial) = match (&vals[1], &vals[2], &vals[3], &vals[4], &vals[5]) {
        (Val::Y(a), Val::Y(f), Val::Y(v), Val::U(bl), Val::U(s)) => (*a, *f, *v, *bl, *s),
        _ => unreachable!(),
    };
    let fields_len = e.rd32(&b[12..16]);
    let mut fields = Vec::new();
    let mut unknown = Vec::new();
    if let Val::A(_, entries) = &vals[6] {
        for en in entries {
            if let Val::St(f) = en {
                if let (Val::Y(code), Val::V(payload)) = (&f[0], &f[1]) {
                    let want = match *code {
                        F_PATH => Some(Sig::O),
                        F_INTERFACE | F_MEMBER | F_ERROR_NAME | F_DESTINATION | F_SENDER => Some(Sig::S),
                        F_REPLY_SERIAL | F_UNIX_FDS => Some(Sig::U),
                        F_SIGNATURE => Some(Sig::G),
                        _ => None,
                    };
                    match want {
                        Some(w) if payload.sig() != w => {
                            return Err(format!("field {code} has type {} (expected {w})", payload.sig()));
                        }
                        None => unknown.push(*code),
                        _ => {}
                    }
                    fields.push((*code, (**payload).clone()));
                }
            }
        }
    }
    // padding to 8 must be zero
    let body_offset = (used + 7) / 8 * 8;
    if b.len() < body_offset {
        return Err("truncated before the body".into());
    }
    if b[used..body_offset].iter().any(|x| *x != 0) {
        return Err("non-zero padding before the body".into());
    }
    let total = body_offset + body_len as usize;
    if b.len() != total {
        return Err(format!("declared length {total} != actual {}", b.len()));
    }
    if serial == 0 {
        return Err("serial is zero".into());
    }
    let body_bytes = b[body_offset..].to_vec();
    let sig_str = fields
        .iter()
        .find(|(c, _)| *c == F_SIGNATURE)
        .and_then(|(_, v)| if let Val::G(s) = v { Some(s.clone()) } else { None })
        .unwrap_or_default();
    let sigs = parse_sig(sig_str.as_bytes(), SigOpts { allow_maybe: false }).map_err(|e| format!("body signature: {e:?}"))?;
    let (body, bused) =
        unmarshal_seq(&body_bytes, &sigs, e, 0, nfds).map_err(|(r, t)| format!("body: {} in {}", r.name(), t))?;
    if bused != body_bytes.len() {
        return Err(format!("body: {} trailing bytes", body_bytes.len() - bused));
    }
    Ok(Parsed {
        msg: Msg {
            endian: e,
            mtype,
            flags,
            version,
            serial,
            fields,
            body,
        },
        body_len,
        fields_len,
        body_offset,
        total_len: total,
        body_bytes,
        unknown_fields: unknown,
    })
}

/// Split a byte stream into complete messages (reference framing).
pub fn split_stream(mut b: &[u8]) -> Result<(Vec<Vec<u8>>, usize), String> {
    let mut out = Vec::new();
    let mut consumed = 0;
    while b.len() >= 16 {
        let n = peek_len(b)?;
        if b.len() < n {
            break;
        }
        out.push(b[..n].to_vec());
        b = &b[n..];
        consumed += n;
    }
    Ok((out, consumed))
}

#[cfg(test)]
mod tests {
    use super::*;

    #[test]
    fn roundtrip() {
        let m = Msg::method_call(7, "/a/b", Some("org.x.Y"), "Foo")
            .with_destination(":1.5")
            .with_body(vec![Val::S("hi".into()), Val::U(9)]);
        let b = m.marshal();
        assert_eq!(b[0], b'l');
        assert_eq!(peek_len(&b).unwrap(), b.len());
        let p = parse(&b, None).unwrap();
        assert_eq!(p.msg.path(), Some("/a/b"));
        assert_eq!(p.msg.member(), Some("Foo"));
        assert_eq!(p.msg.signature(), "su");
        assert_eq!(p.msg.body, m.body);
        assert_eq!(p.body_offset % 8, 0);
        let mut be = m.clone();
        be.endian = Endian::Be;
        let b2 = be.marshal();
        assert_eq!(b2[0], b'B');
        assert_eq!(parse(&b2, None).unwrap().msg.body, m.body);
    }

    #[test]
    fn spec_layout() {
        // empty-bodied signal: fixed header then a(yv)
        let m = Msg::signal(1, "/", "a.b", "C");
        let b = m.marshal();
        assert_eq!(&b[..4], &[b'l', 4, 0, 1]);
        assert_eq!(&b[4..8], &[0, 0, 0, 0]);
        assert_eq!(&b[8..12], &[1, 0, 0, 0]);
        // first field: code 1, sig "o", path "/"
        assert_eq!(&b[16..20], &[1, 1, b'o', 0]);
        assert_eq!(b.len() % 8, 0);
    }

    #[test]
    fn stream() {
        let a = Msg::signal(1, "/", "a.b", "C").marshal();
        let c = Msg::method_return(2, 1).with_body(vec![Val::Y(1)]).marshal();
        let mut s = a.clone();
        s.extend_from_slice(&c);
        s.extend_from_slice(&c[..10]);
        let (msgs, used) = split_stream(&s).unwrap();
        assert_eq!(msgs, vec![a.clone(), c.clone()]);
        assert_eq!(used, a.len() + c.len());
    }
}
