//! Reference value tree typed by `Sig`, with generators.

use crate::prng::Rng;
use crate::sig::{gen_sig, GenOpts, Sig};

#[derive(Clone, Debug, PartialEq)]
pub enum Val {
    Y(u8),
    B(bool),
    N(i16),
    Q(u16),
    I(i32),
    U(u32),
    X(i64),
    T(u64),
    /// f64 as raw bits so that NaN payloads compare exactly
    D(u64),
    S(String),
    O(String),
    G(String),
    /// fd index into the out-of-band fd list
    H(u32),
    V(Box<Val>),
    A(Sig, Vec<Val>),
    Dict(Sig, Sig, Vec<(Val, Val)>),
    St(Vec<Val>),
    M(Sig, Option<Box<Val>>),
}

impl Val {
    pub fn sig(&self) -> Sig {
        match self {
            Val::Y(_) => Sig::Y,
            Val::B(_) => Sig::B,
            Val::N(_) => Sig::N,
            Val::Q(_) => Sig::Q,
            Val::I(_) => Sig::I,
            Val::U(_) => Sig::U,
            Val::X(_) => Sig::X,
            Val::T(_) => Sig::T,
            Val::D(_) => Sig::D,
            Val::S(_) => Sig::S,
            Val::O(_) => Sig::O,
            Val::G(_) => Sig::G,
            Val::H(_) => Sig::H,
            Val::V(_) => Sig::V,
            Val::A(e, _) => Sig::A(Box::new(e.clone())),
            Val::Dict(k, v, _) => Sig::Dict(Box::new(k.clone()), Box::new(v.clone())),
            Val::St(fs) => Sig::St(fs.iter().map(|f| f.sig()).collect()),
            Val::M(c, _) => Sig::M(Box::new(c.clone())),
        }
    }

    /// Number of fd indices mentioned in the value (with multiplicity).
    pub fn count_fds(&self) -> usize {
        match self {
            Val::H(_) => 1,
            Val::V(v) => v.count_fds(),
            Val::A(_, xs) => xs.iter().map(|x| x.count_fds()).sum(),
            Val::Dict(_, _, es) => es.iter().map(|(k, v)| k.count_fds() + v.count_fds()).sum(),
            Val::St(fs) => fs.iter().map(|x| x.count_fds()).sum(),
            Val::M(_, Some(v)) => v.count_fds(),
            _ => 0,
        }
    }

    pub fn max_fd_index(&self) -> Option<u32> {
        let mut m = None;
        self.visit(&mut |v| {
            if let Val::H(i) = v {
                m = Some(m.map_or(*i, |x: u32| x.max(*i)));
            }
        });
        m
    }

    pub fn visit(&self, f: &mut dyn FnMut(&Val)) {
        f(self);
        match self {
            Val::V(v) => v.visit(f),
            Val::A(_, xs) => xs.iter().for_each(|x| x.visit(f)),
            Val::Dict(_, _, es) => es.iter().for_each(|(k, v)| {
                k.visit(f);
                v.visit(f)
            }),
            Val::St(fs) => fs.iter().for_each(|x| x.visit(f)),
            Val::M(_, Some(v)) => v.visit(f),
            _ => {}
        }
    }

    /// Whether some dict in the value has two entries with the same key.
    pub fn has_duplicate_dict_keys(&self) -> bool {
        let mut dup = false;
        self.visit(&mut |v| {
            if let Val::Dict(_, _, es) = v {
                for i in 0..es.len() {
                    for j in (i + 1)..es.len() {
                        if es[i].0 == es[j].0 {
                            dup = true;
                        }
                    }
                }
            }
        });
        dup
    }

    /// Maximum nesting: (arrays, structs, variants, maybes) along a path,
    /// counted the way the property states them (dicts count as arrays).
    pub fn depths(&self) -> (usize, usize, usize) {
        // returns maxima of (array, struct, total)
        fn go(v: &Val, a: usize, s: usize, t: usize, best: &mut (usize, usize, usize)) {
            best.0 = best.0.max(a);
            best.1 = best.1.max(s);
            best.2 = best.2.max(t);
            match v {
                Val::V(x) => go(x, a, s, t + 1, best),
                Val::A(_, xs) => {
                    best.0 = best.0.max(a + 1);
                    best.2 = best.2.max(t + 1);
                    xs.iter().for_each(|x| go(x, a + 1, s, t + 1, best))
                }
                Val::Dict(_, _, es) => {
                    best.0 = best.0.max(a + 1);
                    best.2 = best.2.max(t + 1);
                    es.iter().for_each(|(k, x)| {
                        go(k, a + 1, s, t + 1, best);
                        go(x, a + 1, s, t + 1, best)
                    })
                }
                Val::St(fs) => {
                    best.1 = best.1.max(s + 1);
                    best.2 = best.2.max(t + 1);
                    fs.iter().for_each(|x| go(x, a, s + 1, t + 1, best))
                }
                Val::M(_, Some(x)) => go(x, a, s, t + 1, best),
                _ => {}
            }
        }
        let mut best = (0, 0, 0);
        go(self, 0, 0, 0, &mut best);
        best
    }

    /// Compact textual form for evidence samples / replay files.
    pub fn show(&self) -> String {
        let mut s = String::new();
        self.show_into(&mut s);
        s
    }

    fn show_into(&self, o: &mut String) {
        use std::fmt::Write;
        match self {
            Val::Y(x) => write!(o, "y:{x}").unwrap(),
            Val::B(x) => write!(o, "b:{x}").unwrap(),
            Val::N(x) => write!(o, "n:{x}").unwrap(),
            Val::Q(x) => write!(o, "q:{x}").unwrap(),
            Val::I(x) => write!(o, "i:{x}").unwrap(),
            Val::U(x) => write!(o, "u:{x}").unwrap(),
            Val::X(x) => write!(o, "x:{x}").unwrap(),
            Val::T(x) => write!(o, "t:{x}").unwrap(),
            Val::D(x) => write!(o, "d:0x{x:016x}").unwrap(),
            Val::S(x) => write!(o, "s:{x:?}").unwrap(),
            Val::O(x) => write!(o, "o:{x:?}").unwrap(),
            Val::G(x) => write!(o, "g:{x:?}").unwrap(),
            Val::H(x) => write!(o, "h:{x}").unwrap(),
            Val::V(v) => {
                write!(o, "<{} ", v.sig()).unwrap();
                v.show_into(o);
                o.push('>');
            }
            Val::A(e, xs) => {
                write!(o, "@a{e}[").unwrap();
                for (i, x) in xs.iter().enumerate() {
                    if i > 0 {
                        o.push(',');
                    }
                    if i >= 8 {
                        write!(o, "…+{}", xs.len() - i).unwrap();
                        break;
                    }
                    x.show_into(o);
                }
                o.push(']');
            }
            Val::Dict(k, v, es) => {
                write!(o, "@a{{{k}{v}}}{{").unwrap();
                for (i, (a, b)) in es.iter().enumerate() {
                    if i > 0 {
                        o.push(',');
                    }
                    if i >= 8 {
                        write!(o, "…+{}", es.len() - i).unwrap();
                        break;
                    }
                    a.show_into(o);
                    o.push_str("=>");
                    b.show_into(o);
                }
                o.push('}');
            }
            Val::St(fs) => {
                o.push('(');
                for (i, x) in fs.iter().enumerate() {
                    if i > 0 {
                        o.push(',');
                    }
                    x.show_into(o);
                }
                o.push(')');
            }
            Val::M(c, None) => write!(o, "@m{c} nothing").unwrap(),
            Val::M(_, Some(v)) => {
                o.push_str("just ");
                v.show_into(o);
            }
        }
    }
}

// --------------------------------------------------------------------------
// Value generators

#[derive(Clone, Copy, Debug)]
pub struct ValOpts {
    /// soft budget of leaves; containers shrink as it is consumed
    pub budget: usize,
    /// maximum array/dict length
    pub max_len: usize,
    /// probability (percent) of picking a boundary value for a leaf
    pub boundary_pct: u64,
    /// number of fds available for `h` indices (0 ⇒ index 0 is still used)
    pub nfds: u32,
    /// signature generation options for variant payloads
    pub sig: GenOpts,
    /// maximum string length
    pub max_str: usize,
}

impl Default for ValOpts {
    fn default() -> Self {
        ValOpts {
            budget: 40,
            max_len: 5,
            boundary_pct: 40,
            nfds: 0,
            sig: GenOpts::default(),
            max_str: 12,
        }
    }
}

const F64_SPECIALS: &[u64] = &[
    0x0000000000000000, // +0.0
    0x8000000000000000, // -0.0
    0x3ff0000000000000, // 1.0
    0xbff0000000000000, // -1.0
    0x7ff0000000000000, // +inf
    0xfff0000000000000, // -inf
    0x7ff8000000000000, // qNaN
    0xfff8000000000001, // -qNaN payload
    0x7ff0000000000001, // sNaN
    0x0000000000000001, // min subnormal
    0x7fefffffffffffff, // MAX
    0x0010000000000000, // MIN_POSITIVE
];

pub fn gen_string(rng: &mut Rng, max: usize, boundary: bool) -> String {
    if boundary {
        match rng.below(8) {
            0 => return String::new(),
            1 => return "a".into(),
            2 => return "é".into(),
            3 => return "日本語".into(),
            4 => return "\u{10FFFF}".into(),
            5 => return "x".repeat(255),
            6 => return "x".repeat(256),
            _ => return "a,'\\=b".into(),
        }
    }
    let n = rng.usize_below(max + 1);
    let mut s = String::new();
    for _ in 0..n {
        let c = match rng.below(12) {
            0 => 'é',
            1 => '€',
            2 => '😀',
            3 => ' ',
            4 => '.',
            5 => '/',
            _ => (b'a' + rng.below(26) as u8) as char,
        };
        s.push(c);
    }
    s
}

pub fn gen_object_path(rng: &mut Rng) -> String {
    match rng.below(6) {
        0 => return "/".into(),
        1 => return "/a".into(),
        _ => {}
    }
    let n = 1 + rng.usize_below(4);
    let mut s = String::new();
    for _ in 0..n {
        s.push('/');
        let m = 1 + rng.usize_below(6);
        for _ in 0..m {
            let c = match rng.below(8) {
                0 => '_',
                1 => (b'0' + rng.below(10) as u8) as char,
                2 => (b'A' + rng.below(26) as u8) as char,
                _ => (b'a' + rng.below(26) as u8) as char,
            };
            s.push(c);
        }
    }
    s
}

pub fn gen_sig_string(rng: &mut Rng, o: &GenOpts) -> String {
    // zero to three complete types (never maybe, never fd in a `g` value)
    let o2 = GenOpts {
        allow_maybe: false,
        max_depth: o.max_depth.min(3),
        ..*o
    };
    let n = rng.usize_below(4);
    let mut s = String::new();
    for _ in 0..n {
        gen_sig(rng, &o2, 1).write(&mut s);
    }
    s
}

pub fn gen_leaf(rng: &mut Rng, sig: &Sig, o: &ValOpts) -> Val {
    let b = rng.chance(o.boundary_pct, 100);
    macro_rules! int {
        ($t:ty, $variant:ident) => {{
            if b {
                let opts: [$t; 6] = [0, 1, <$t>::MIN, <$t>::MAX, <$t>::MAX - 1, (0 as $t).wrapping_sub(1)];
                Val::$variant(*rng.pick(&opts))
            } else {
                Val::$variant(rng.next_u64() as $t)
            }
        }};
    }
    match sig {
        Sig::Y => int!(u8, Y),
        Sig::B => Val::B(rng.bool()),
        Sig::N => int!(i16, N),
        Sig::Q => int!(u16, Q),
        Sig::I => int!(i32, I),
        Sig::U => int!(u32, U),
        Sig::X => int!(i64, X),
        Sig::T => int!(u64, T),
        Sig::D => {
            if b {
                Val::D(*rng.pick(F64_SPECIALS))
            } else if rng.bool() {
                Val::D((rng.next_u64() as i64 as f64 / 1024.0).to_bits())
            } else {
                Val::D(rng.next_u64())
            }
        }
        Sig::S => {
            let bb = b && rng.chance(1, 2);
            Val::S(gen_string(rng, o.max_str, bb))
        }
        Sig::O => Val::O(gen_object_path(rng)),
        Sig::G => Val::G(gen_sig_string(rng, &o.sig)),
        Sig::H => Val::H(if o.nfds == 0 { 0 } else { rng.below(o.nfds as u64) as u32 }),
        _ => unreachable!("gen_leaf on container"),
    }
}

pub fn gen_val(rng: &mut Rng, sig: &Sig, o: &ValOpts) -> Val {
    let mut budget = o.budget as isize;
    gen_val_b(rng, sig, o, &mut budget, 0)
}

fn gen_len(rng: &mut Rng, o: &ValOpts, budget: &mut isize) -> usize {
    if *budget <= 0 {
        return if rng.chance(1, 4) { 1 } else { 0 };
    }
    match rng.below(10) {
        0 | 1 => 0,
        2 | 3 => 1,
        _ => rng.usize_below(o.max_len + 1),
    }
}

fn gen_val_b(rng: &mut Rng, sig: &Sig, o: &ValOpts, budget: &mut isize, vdepth: usize) -> Val {
    *budget -= 1;
    match sig {
        Sig::V => {
            // payload signature: keep total container depth sane
            let so = GenOpts {
                max_depth: if vdepth >= 2 { 0 } else { o.sig.max_depth.min(2) },
                allow_maybe: o.sig.allow_maybe,
                allow_fd: o.sig.allow_fd,
                allow_variant: vdepth < 3,
                max_fields: 3,
            };
            let inner = gen_sig(rng, &so, 0);
            Val::V(Box::new(gen_val_b(rng, &inner, o, budget, vdepth + 1)))
        }
        Sig::A(e) => {
            let n = gen_len(rng, o, budget);
            Val::A(
                (**e).clone(),
                (0..n).map(|_| gen_val_b(rng, e, o, budget, vdepth)).collect(),
            )
        }
        Sig::Dict(k, v) => {
            let n = gen_len(rng, o, budget);
            let mut es: Vec<(Val, Val)> = Vec::new();
            for _ in 0..n {
                let key = gen_val_b(rng, k, o, budget, vdepth);
                if es.iter().any(|(kk, _)| dict_key_equal(kk, &key)) {
                    continue;
                }
                let val = gen_val_b(rng, v, o, budget, vdepth);
                es.push((key, val));
            }
            Val::Dict((**k).clone(), (**v).clone(), es)
        }
        Sig::St(fs) => Val::St(fs.iter().map(|f| gen_val_b(rng, f, o, budget, vdepth)).collect()),
        Sig::M(c) => {
            if rng.chance(1, 3) {
                Val::M((**c).clone(), None)
            } else {
                Val::M((**c).clone(), Some(Box::new(gen_val_b(rng, c, o, budget, vdepth))))
            }
        }
        _ => gen_leaf(rng, sig, o),
    }
}

/// Keys considered "the same key" by any reasonable map: exact equality, and
/// for doubles numeric equality (+0.0 == -0.0) and all NaNs lumped together.
pub fn dict_key_equal(a: &Val, b: &Val) -> bool {
    match (a, b) {
        (Val::D(x), Val::D(y)) => {
            let (fx, fy) = (f64::from_bits(*x), f64::from_bits(*y));
            x == y || fx == fy || (fx.is_nan() && fy.is_nan())
        }
        _ => a == b,
    }
}

// --------------------------------------------------------------------------
// Shrinking (delta debugging on value trees)

impl Val {
    /// Size metric used by the shrinker.
    pub fn weight(&self) -> usize {
        match self {
            Val::Y(x) => 1 + (*x != 0) as usize,
            Val::B(x) => 2 + *x as usize,
            Val::N(x) => 3 + (*x != 0) as usize,
            Val::Q(x) => 3 + (*x != 0) as usize,
            Val::I(x) => 4 + (*x != 0) as usize,
            Val::U(x) => 4 + (*x != 0) as usize,
            Val::X(x) => 5 + (*x != 0) as usize,
            Val::T(x) => 5 + (*x != 0) as usize,
            Val::D(x) => 5 + (*x != 0) as usize,
            Val::H(x) => 6 + (*x != 0) as usize,
            Val::S(s) => 6 + s.len(),
            Val::O(s) => 7 + s.len(),
            Val::G(s) => 7 + s.len(),
            Val::V(x) => 8 + x.weight(),
            Val::A(e, xs) => 8 + sig_weight(e) + xs.iter().map(|x| x.weight()).sum::<usize>(),
            Val::Dict(k, v, es) => {
                10 + sig_weight(k) + sig_weight(v) + es.iter().map(|(a, b)| a.weight() + b.weight()).sum::<usize>()
            }
            Val::St(fs) => 8 + fs.iter().map(|x| x.weight()).sum::<usize>(),
            Val::M(c, x) => 8 + sig_weight(c) + x.as_ref().map_or(0, |x| x.weight()),
        }
    }

    fn minimal_leaf(&self) -> Option<Val> {
        Some(match self {
            Val::Y(x) if *x != 0 => Val::Y(0),
            Val::B(true) => Val::B(false),
            Val::N(x) if *x != 0 => Val::N(0),
            Val::Q(x) if *x != 0 => Val::Q(0),
            Val::I(x) if *x != 0 => Val::I(0),
            Val::U(x) if *x != 0 => Val::U(0),
            Val::X(x) if *x != 0 => Val::X(0),
            Val::T(x) if *x != 0 => Val::T(0),
            Val::D(x) if *x != 0 => Val::D(0),
            Val::H(x) if *x != 0 => Val::H(0),
            Val::S(s) if !s.is_empty() => Val::S(if s.len() > 1 { s[..s.char_indices().nth(1).map_or(s.len(), |c| c.0)].to_string() } else { String::new() }),
            Val::O(s) if s != "/" => Val::O("/".into()),
            Val::G(s) if !s.is_empty() => Val::G(String::new()),
            _ => return None,
        })
    }

    /// One-step reductions of this value (deterministic order). With
    /// `keep_sig` only reductions that preserve the value's signature are given.
    pub fn reductions(&self, keep_sig: bool, allow_maybe: bool) -> Vec<Val> {
        let mut out = Vec::new();
        let basic = self.sig().is_basic();
        if let Some(m) = self.minimal_leaf() {
            out.push(m);
        }
        if !keep_sig && basic && !matches!(self, Val::Y(_)) {
            out.push(Val::Y(0));
        }
        match self {
            Val::V(x) => {
                if !keep_sig {
                    out.push((**x).clone());
                }
                if !matches!(**x, Val::Y(0)) {
                    out.push(Val::V(Box::new(Val::Y(0))));
                }
                for r in x.reductions(false, allow_maybe) {
                    out.push(Val::V(Box::new(r)));
                }
            }
            Val::A(e, xs) => {
                if !keep_sig {
                    for x in xs {
                        out.push(x.clone());
                    }
                    if xs.is_empty() && *e != Sig::Y {
                        out.push(Val::A(Sig::Y, vec![]));
                        if let Sig::A(inner) | Sig::M(inner) = e {
                            out.push(Val::A((**inner).clone(), vec![]));
                        }
                    }
                }
                for i in 0..xs.len() {
                    let mut ys = xs.clone();
                    ys.remove(i);
                    out.push(Val::A(e.clone(), ys));
                }
                for i in 0..xs.len() {
                    let single = xs.len() == 1 && !keep_sig;
                    for r in xs[i].reductions(!single, allow_maybe) {
                        let mut ys = xs.clone();
                        let es = r.sig();
                        ys[i] = r;
                        out.push(Val::A(if single { es } else { e.clone() }, ys));
                    }
                }
            }
            Val::Dict(k, v, es) => {
                if !keep_sig {
                    for (a, b) in es {
                        out.push(a.clone());
                        out.push(b.clone());
                    }
                    if es.is_empty() && (*k != Sig::Y || *v != Sig::Y) {
                        out.push(Val::Dict(Sig::Y, Sig::Y, vec![]));
                    }
                }
                for i in 0..es.len() {
                    let mut ys = es.clone();
                    ys.remove(i);
                    out.push(Val::Dict(k.clone(), v.clone(), ys));
                }
                for i in 0..es.len() {
                    let single = es.len() == 1 && !keep_sig;
                    for r in es[i].0.reductions(!single, allow_maybe) {
                        if !r.sig().is_basic() {
                            continue;
                        }
                        if es.iter().enumerate().any(|(j, (kk, _))| j != i && dict_key_equal(kk, &r)) {
                            continue;
                        }
                        let mut ys = es.clone();
                        let ks = r.sig();
                        ys[i].0 = r;
                        out.push(Val::Dict(if single { ks } else { k.clone() }, v.clone(), ys));
                    }
                    for r in es[i].1.reductions(!single, allow_maybe) {
                        let mut ys = es.clone();
                        let vs = r.sig();
                        ys[i].1 = r;
                        out.push(Val::Dict(k.clone(), if single { vs } else { v.clone() }, ys));
                    }
                }
            }
            Val::St(fs) => {
                if !keep_sig {
                    for f in fs {
                        out.push(f.clone());
                    }
                    if fs.len() > 1 {
                        for i in 0..fs.len() {
                            let mut ys = fs.clone();
                            ys.remove(i);
                            out.push(Val::St(ys));
                        }
                    }
                }
                for i in 0..fs.len() {
                    for r in fs[i].reductions(keep_sig, allow_maybe) {
                        let mut ys = fs.clone();
                        ys[i] = r;
                        out.push(Val::St(ys));
                    }
                }
            }
            Val::M(c, x) => {
                match x {
                    Some(x) => {
                        if !keep_sig {
                            out.push((**x).clone());
                        }
                        out.push(Val::M(c.clone(), None));
                        for r in x.reductions(keep_sig, allow_maybe) {
                            out.push(Val::M(r.sig(), Some(Box::new(r))));
                        }
                    }
                    None => {
                        if !keep_sig && *c != Sig::Y {
                            out.push(Val::M(Sig::Y, None));
                        }
                    }
                }
            }
            _ => {}
        }
        let _ = allow_maybe;
        out
    }
}

/// Greedy shrink: repeatedly take the first one-step reduction that still
/// fails and is lighter, until none does or `max_probes` oracle calls were
/// spent. Returns the minimal value and the number of probes used.
pub fn shrink(start: &Val, keep_sig: bool, max_probes: usize, fails: &mut dyn FnMut(&Val) -> bool) -> (Val, usize) {
    let mut cur = start.clone();
    let mut probes = 0;
    'outer: loop {
        let w = cur.weight();
        for cand in cur.reductions(keep_sig, true) {
            if cand.weight() >= w {
                continue;
            }
            if probes >= max_probes {
                break 'outer;
            }
            probes += 1;
            if fails(&cand) {
                cur = cand;
                continue 'outer;
            }
        }
        break;
    }
    (cur, probes)
}

/// Weight of a type: `y` is the lightest, so shrinking normalises element types.
pub fn sig_weight(s: &Sig) -> usize {
    match s {
        Sig::Y => 1,
        Sig::B => 2,
        Sig::N | Sig::Q => 3,
        Sig::I | Sig::U => 4,
        Sig::X | Sig::T | Sig::D => 5,
        Sig::H => 6,
        Sig::S => 6,
        Sig::O | Sig::G => 7,
        Sig::V => 8,
        Sig::A(c) | Sig::M(c) => 8 + sig_weight(c),
        Sig::Dict(k, v) => 10 + sig_weight(k) + sig_weight(v),
        Sig::St(fs) => 8 + fs.iter().map(sig_weight).sum::<usize>(),
    }
}
