//! Reference models of the D-Bus SASL profile (DESIGN.md appendix A.6): pure
//! functions from the received line sequence to the expected replies and the
//! final verdict. Independent of zbus.

#[derive(Clone, Copy, Debug, PartialEq, Eq)]
pub enum Mech {
    External,
    Anonymous,
}

#[derive(Clone, Debug, PartialEq, Eq)]
pub enum SReply {
    Ok,
    Rejected,
    Data,
    Error,
    AgreeFd,
    /// the server ends the conversation (a misplaced BEGIN); ERROR is accepted too
    DisconnectOrError,
    /// malformed argument (bad hex): ERROR or REJECTED are both acceptable
    ErrorOrRejected,
}

#[derive(Clone, Copy, Debug, PartialEq, Eq)]
pub enum SState {
    WaitingForAuth,
    WaitingForData,
    WaitingForBegin,
    Done,
    Closed,
}

#[derive(Clone, Copy, Debug)]
pub struct ServerCfg {
    pub mech: Mech,
    pub peer_uid: Option<u32>,
    pub can_fd: bool,
}

#[derive(Clone, Debug)]
pub struct ServerRun {
    /// per consumed line: (state before, reply)
    pub steps: Vec<(SState, SReply)>,
    pub authenticated: bool,
    pub cap_fd: bool,
    pub lines_consumed: usize,
    pub final_state: SState,
}

fn unhex(s: &[u8]) -> Option<Vec<u8>> {
    if s.len() % 2 != 0 {
        return None;
    }
    let mut out = Vec::new();
    for c in s.chunks(2) {
        let h = (c[0] as char).to_digit(16)?;
        let l = (c[1] as char).to_digit(16)?;
        out.push((h * 16 + l) as u8);
    }
    Some(out)
}

fn words(line: &[u8]) -> Vec<&[u8]> {
    line.split(|c| *c == b' ').filter(|w| !w.is_empty()).collect()
}

fn mech_step(cfg: &ServerCfg, identity: Option<&[u8]>) -> (SReply, SState) {
    match cfg.mech {
        Mech::Anonymous => (SReply::Ok, SState::WaitingForBegin),
        Mech::External => {
            let id = identity.unwrap_or(b"");
            let ok = match cfg.peer_uid {
                None => false,
                Some(uid) => id.is_empty() || id == uid.to_string().as_bytes(),
            };
            if ok {
                (SReply::Ok, SState::WaitingForBegin)
            } else {
                (SReply::Rejected, SState::WaitingForAuth)
            }
        }
    }
}

pub fn server_model(lines: &[Vec<u8>], cfg: &ServerCfg) -> ServerRun {
    let mut st = SState::WaitingForAuth;
    let mut steps = Vec::new();
    let mut cap_fd = false;
    let mut consumed = 0;
    for line in lines {
        if st == SState::Done || st == SState::Closed {
            break;
        }
        consumed += 1;
        let w = words(line);
        let cmd: &[u8] = w.first().copied().unwrap_or(b"");
        let before = st;
        let reply = match st {
            SState::WaitingForAuth => match cmd {
                b"AUTH" => {
                    if w.len() < 2 {
                        SReply::Rejected
                    } else {
                        let m = match w[1] {
                            b"EXTERNAL" => Some(Mech::External),
                            b"ANONYMOUS" => Some(Mech::Anonymous),
                            _ => None,
                        };
                        if w.len() >= 3 && unhex(w[2]).is_none() {
                            // malformed argument: which complaint comes first is not prescribed
                            SReply::ErrorOrRejected
                        } else if m != Some(cfg.mech) {
                            SReply::Rejected
                        } else if w.len() >= 3 {
                            match unhex(w[2]) {
                                None => SReply::ErrorOrRejected,
                                Some(id) => {
                                    let (r, s) = mech_step(cfg, Some(&id));
                                    st = s;
                                    r
                                }
                            }
                        } else {
                            // no initial response: the server sends an (empty) challenge
                            st = SState::WaitingForData;
                            SReply::Data
                        }
                    }
                }
                b"BEGIN" => {
                    st = SState::Closed;
                    SReply::DisconnectOrError
                }
                b"ERROR" | b"CANCEL" => SReply::Rejected,
                _ => SReply::Error,
            },
            SState::WaitingForData => match cmd {
                b"DATA" => {
                    if w.len() >= 2 {
                        match unhex(w[1]) {
                            None => {
                                st = SState::WaitingForAuth;
                                SReply::ErrorOrRejected
                            }
                            Some(id) => {
                                let (r, s) = mech_step(cfg, Some(&id));
                                st = s;
                                r
                            }
                        }
                    } else {
                        let (r, s) = mech_step(cfg, None);
                        st = s;
                        r
                    }
                }
                b"BEGIN" => {
                    st = SState::Closed;
                    SReply::DisconnectOrError
                }
                b"CANCEL" | b"ERROR" => {
                    st = SState::WaitingForAuth;
                    SReply::Rejected
                }
                _ => SReply::Error,
            },
            SState::WaitingForBegin => match cmd {
                b"BEGIN" => {
                    st = SState::Done;
                    steps.push((before, SReply::Ok));
                    // BEGIN has no reply; record a placeholder and stop
                    steps.pop();
                    break;
                }
                b"NEGOTIATE_UNIX_FD" => {
                    if cfg.can_fd {
                        cap_fd = true;
                        SReply::AgreeFd
                    } else {
                        SReply::Error
                    }
                }
                b"CANCEL" | b"ERROR" => {
                    st = SState::WaitingForAuth;
                    SReply::Rejected
                }
                _ => SReply::Error,
            },
            SState::Done | SState::Closed => unreachable!(),
        };
        steps.push((before, reply));
    }
    ServerRun {
        steps,
        authenticated: st == SState::Done,
        cap_fd: cap_fd && st == SState::Done,
        lines_consumed: consumed,
        final_state: st,
    }
}

/// Classify a reply line written by an implementation.
pub fn classify_reply(line: &[u8], guid: &str) -> Option<SReply> {
    let w = words(line);
    match w.first().copied()? {
        b"OK" => {
            if w.len() == 2 && w[1] == guid.as_bytes() {
                Some(SReply::Ok)
            } else {
                None
            }
        }
        b"REJECTED" => Some(SReply::Rejected),
        b"DATA" => Some(SReply::Data),
        b"ERROR" => Some(SReply::Error),
        b"AGREE_UNIX_FD" => Some(SReply::AgreeFd),
        _ => None,
    }
}

/// Does an observed reply satisfy the model's expectation?
pub fn reply_ok(expected: &SReply, got: &SReply) -> bool {
    match expected {
        SReply::DisconnectOrError => *got == SReply::Error,
        SReply::ErrorOrRejected => *got == SReply::Error || *got == SReply::Rejected,
        e => e == got,
    }
}

// --------------------------------------------------------------------------
// Client side

#[derive(Clone, Debug, PartialEq, Eq)]
pub enum CVerdict {
    /// handshake must succeed; fd passing as given
    Success { cap_fd: bool },
    Fail,
}

/// The client sends AUTH (EXTERNAL with its uid), then on OK optionally
/// NEGOTIATE_UNIX_FD and BEGIN. `replies` are the server's lines in order.
/// `expected_guid`: when given, OK must carry exactly it.
pub fn client_model(replies: &[Vec<u8>], expected_guid: Option<&str>, client_wants_fd: bool) -> CVerdict {
    let first = match replies.first() {
        Some(f) => f,
        None => return CVerdict::Fail,
    };
    let w = words(first);
    if w.first().copied() != Some(b"OK".as_ref()) || w.len() != 2 {
        return CVerdict::Fail;
    }
    let g = w[1];
    if g.len() != 32 || !g.iter().all(|c| c.is_ascii_hexdigit()) {
        return CVerdict::Fail;
    }
    if let Some(eg) = expected_guid {
        if !g.eq_ignore_ascii_case(eg.as_bytes()) {
            return CVerdict::Fail;
        }
    }
    if !client_wants_fd {
        return CVerdict::Success { cap_fd: false };
    }
    match replies.get(1) {
        None => CVerdict::Fail, // the answer to NEGOTIATE_UNIX_FD never came
        Some(r) => {
            let w = words(r);
            match w.first().copied() {
                Some(b"AGREE_UNIX_FD") if w.len() == 1 => CVerdict::Success { cap_fd: true },
                Some(b"ERROR") => CVerdict::Success { cap_fd: false },
                _ => CVerdict::Fail,
            }
        }
    }
}

#[cfg(test)]
mod tests {
    use super::*;
    fn l(s: &str) -> Vec<u8> {
        s.as_bytes().to_vec()
    }
    #[test]
    fn server_basic() {
        let cfg = ServerCfg { mech: Mech::External, peer_uid: Some(1000), can_fd: true };
        let r = server_model(&[l("AUTH EXTERNAL 31303030"), l("NEGOTIATE_UNIX_FD"), l("BEGIN")], &cfg);
        assert!(r.authenticated && r.cap_fd);
        assert_eq!(r.steps[0].1, SReply::Ok);
        assert_eq!(r.steps[1].1, SReply::AgreeFd);
        let r = server_model(&[l("AUTH EXTERNAL 31303031"), l("BEGIN")], &cfg);
        assert!(!r.authenticated);
        assert_eq!(r.steps[0].1, SReply::Rejected);
        let r = server_model(&[l("AUTH EXTERNAL"), l("DATA"), l("BEGIN")], &cfg);
        assert!(r.authenticated);
        let nocred = ServerCfg { mech: Mech::External, peer_uid: None, can_fd: true };
        let r = server_model(&[l("AUTH EXTERNAL"), l("DATA"), l("BEGIN")], &nocred);
        assert!(!r.authenticated);
        let r = server_model(&[l("BEGIN")], &cfg);
        assert!(!r.authenticated);
        let anon = ServerCfg { mech: Mech::Anonymous, peer_uid: None, can_fd: false };
        let r = server_model(&[l("AUTH ANONYMOUS"), l("DATA"), l("BEGIN")], &anon);
        assert!(r.authenticated);
        let r = server_model(&[l("AUTH ANONYMOUS 61"), l("BEGIN")], &anon);
        assert!(r.authenticated);
        let r = server_model(&[l("AUTH EXTERNAL 31"), l("BEGIN")], &anon);
        assert!(!r.authenticated);
        let r = server_model(&[l("FOO"), l("AUTH ANONYMOUS 00"), l("BEGIN")], &anon);
        assert_eq!(r.steps[0].1, SReply::Error);
        assert!(r.authenticated);
    }
    #[test]
    fn client_basic() {
        let g = "0123456789abcdef0123456789abcdef";
        assert_eq!(client_model(&[l(&format!("OK {g}"))], Some(g), false), CVerdict::Success { cap_fd: false });
        assert_eq!(client_model(&[l(&format!("OK {g}")), l("AGREE_UNIX_FD")], Some(g), true), CVerdict::Success { cap_fd: true });
        assert_eq!(client_model(&[l(&format!("OK {g}")), l("ERROR no")], None, true), CVerdict::Success { cap_fd: false });
        assert_eq!(client_model(&[l("REJECTED EXTERNAL")], None, false), CVerdict::Fail);
        assert_eq!(client_model(&[l("OK 0123")], None, false), CVerdict::Fail);
        assert_eq!(client_model(&[l(&format!("OK {g}"))], Some("ffffffffffffffffffffffffffffffff"), false), CVerdict::Fail);
    }
}
