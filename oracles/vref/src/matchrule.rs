//! Reference match rules: value type, spec-conformant string parser/printer and
//! the matching predicate (DESIGN.md appendix A.4). Independent of zbus.

use crate::msg::*;
use crate::val::Val;

#[derive(Clone, Debug, Default, PartialEq, Eq)]
pub struct RefRule {
    pub msg_type: Option<u8>,
    pub sender: Option<String>,
    pub interface: Option<String>,
    pub member: Option<String>,
    pub path: Option<String>,
    pub path_namespace: Option<String>,
    pub destination: Option<String>,
    pub args: Vec<(u8, String)>,
    pub arg_paths: Vec<(u8, String)>,
    pub arg0ns: Option<String>,
}

fn type_name(t: u8) -> &'static str {
    match t {
        METHOD_CALL => "method_call",
        METHOD_RETURN => "method_return",
        ERROR => "error",
        _ => "signal",
    }
}

/// Quote a value: inside single quotes everything is literal; an apostrophe is
/// written by closing the quotes, escaping it with a backslash, and reopening.
pub fn quote(v: &str) -> String {
    let mut s = String::from("'");
    for c in v.chars() {
        if c == '\'' {
            s.push_str("'\\''");
        } else {
            s.push(c);
        }
    }
    s.push('\'');
    s
}

impl RefRule {
    pub fn to_rule_string(&self) -> String {
        let mut parts: Vec<String> = Vec::new();
        if let Some(t) = self.msg_type {
            parts.push(format!("type={}", quote(type_name(t))));
        }
        for (k, v) in [
            ("sender", &self.sender),
            ("interface", &self.interface),
            ("member", &self.member),
            ("path", &self.path),
            ("path_namespace", &self.path_namespace),
            ("destination", &self.destination),
        ] {
            if let Some(v) = v {
                parts.push(format!("{k}={}", quote(v)));
            }
        }
        for (i, v) in &self.args {
            parts.push(format!("arg{i}={}", quote(v)));
        }
        for (i, v) in &self.arg_paths {
            parts.push(format!("arg{i}path={}", quote(v)));
        }
        if let Some(v) = &self.arg0ns {
            parts.push(format!("arg0namespace={}", quote(v)));
        }
        parts.join(",")
    }

    /// Canonical form for comparisons: args sorted by index.
    pub fn canonical(&self) -> RefRule {
        let mut r = self.clone();
        r.args.sort();
        r.arg_paths.sort();
        r
    }
}

/// Spec-conformant tokeniser: `key=value` pairs separated by commas; in the
/// value, text inside '...' is literal, outside quotes a backslash escapes an
/// apostrophe (`\'`), a comma ends the value.
pub fn tokenize(s: &str) -> Result<Vec<(String, String)>, String> {
    let b: Vec<char> = s.chars().collect();
    let mut i = 0;
    let mut out = Vec::new();
    if b.is_empty() {
        // the empty rule matches everything (dbus-daemon accepts it)
        return Ok(out);
    }
    while i < b.len() {
        // key
        let mut key = String::new();
        while i < b.len() && b[i] != '=' {
            if b[i] == ',' {
                return Err("comma in key".into());
            }
            key.push(b[i]);
            i += 1;
        }
        if i >= b.len() {
            return Err("missing '='".into());
        }
        i += 1; // '='
        if key.is_empty() {
            return Err("empty key".into());
        }
        let mut val = String::new();
        let mut in_quote = false;
        loop {
            if i >= b.len() {
                if in_quote {
                    return Err("unterminated quote".into());
                }
                break;
            }
            let c = b[i];
            if in_quote {
                if c == '\'' {
                    in_quote = false;
                } else {
                    val.push(c);
                }
                i += 1;
            } else if c == '\'' {
                in_quote = true;
                i += 1;
            } else if c == '\\' && i + 1 < b.len() && b[i + 1] == '\'' {
                val.push('\'');
                i += 2;
            } else if c == ',' {
                i += 1;
                if i >= b.len() {
                    return Err("trailing comma".into());
                }
                break;
            } else {
                val.push(c);
                i += 1;
            }
        }
        out.push((key, val));
    }
    Ok(out)
}

pub fn parse_rule(s: &str) -> Result<RefRule, String> {
    let mut r = RefRule::default();
    for (k, v) in tokenize(s)? {
        match k.as_str() {
            "type" => {
                r.msg_type = Some(match v.as_str() {
                    "signal" => SIGNAL,
                    "method_call" => METHOD_CALL,
                    "method_return" => METHOD_RETURN,
                    "error" => ERROR,
                    _ => return Err("bad type".into()),
                })
            }
            "sender" => r.sender = Some(v),
            "interface" => r.interface = Some(v),
            "member" => r.member = Some(v),
            "path" => r.path = Some(v),
            "path_namespace" => r.path_namespace = Some(v),
            "destination" => r.destination = Some(v),
            "arg0namespace" => r.arg0ns = Some(v),
            "eavesdrop" => {}
            k if k.starts_with("arg") => {
                let rest = &k[3..];
                if let Some(n) = rest.strip_suffix("path") {
                    let i: u8 = n.parse().map_err(|_| "bad arg index")?;
                    if i > 63 {
                        return Err("arg index > 63".into());
                    }
                    r.arg_paths.push((i, v));
                } else {
                    let i: u8 = rest.parse().map_err(|_| "bad arg index")?;
                    if i > 63 {
                        return Err("arg index > 63".into());
                    }
                    r.args.push((i, v));
                }
            }
            _ => return Err(format!("unknown key {k}")),
        }
    }
    if r.path.is_some() && r.path_namespace.is_some() {
        return Err("path and path_namespace are mutually exclusive".into());
    }
    Ok(r)
}

fn is_unique(name: &str) -> bool {
    name.starts_with(':')
}

/// Three-valued result: Some(bool) when the rule can be decided from the
/// message alone, None when it hinges on a well-known sender/destination name
/// (which only the bus can resolve).
pub fn matches(r: &RefRule, m: &Msg) -> Option<bool> {
    let mut undecidable = false;
    if let Some(t) = r.msg_type {
        if t != m.mtype {
            return Some(false);
        }
    }
    if let Some(s) = &r.sender {
        if is_unique(s) {
            if m.sender() != Some(s.as_str()) {
                return Some(false);
            }
        } else {
            undecidable = true;
        }
    }
    if let Some(i) = &r.interface {
        if m.interface() != Some(i.as_str()) {
            return Some(false);
        }
    }
    if let Some(x) = &r.member {
        if m.member() != Some(x.as_str()) {
            return Some(false);
        }
    }
    if let Some(p) = &r.path {
        if m.path() != Some(p.as_str()) {
            return Some(false);
        }
    }
    if let Some(ns) = &r.path_namespace {
        match m.path() {
            None => return Some(false),
            Some(p) => {
                let ok = p == ns || ns == "/" || (p.starts_with(ns.as_str()) && p.as_bytes().get(ns.len()) == Some(&b'/'));
                if !ok {
                    return Some(false);
                }
            }
        }
    }
    if let Some(d) = &r.destination {
        match m.destination() {
            None => return Some(false),
            Some(md) => {
                if is_unique(md) {
                    if md != d {
                        return Some(false);
                    }
                } else {
                    undecidable = true;
                }
            }
        }
    }
    for (i, want) in &r.args {
        match m.body.get(*i as usize) {
            Some(Val::S(s)) if s == want => {}
            _ => return Some(false),
        }
    }
    for (i, want) in &r.arg_paths {
        let got = match m.body.get(*i as usize) {
            Some(Val::S(s)) | Some(Val::O(s)) => s,
            _ => return Some(false),
        };
        let ok = got == want
            || (got.ends_with('/') && want.starts_with(got.as_str()))
            || (want.ends_with('/') && got.starts_with(want.as_str()));
        if !ok {
            return Some(false);
        }
    }
    if let Some(ns) = &r.arg0ns {
        match m.body.first() {
            Some(Val::S(s)) => {
                let ok = s == ns || (s.starts_with(ns.as_str()) && s.as_bytes().get(ns.len()) == Some(&b'.'));
                if !ok {
                    return Some(false);
                }
            }
            _ => return Some(false),
        }
    }
    if undecidable {
        None
    } else {
        Some(true)
    }
}

#[cfg(test)]
mod tests {
    use super::*;

    #[test]
    fn spec_examples() {
        // path_namespace
        let r = parse_rule("path_namespace='/com/example/foo'").unwrap();
        for (p, want) in [("/com/example/foo", true), ("/com/example/foo/bar", true), ("/com/example/foobar", false), ("/com/example", false)] {
            let m = Msg::signal(1, p, "a.b", "C");
            assert_eq!(matches(&r, &m), Some(want), "{p}");
        }
        // arg0path
        let r = parse_rule("arg0path='/aa/bb/'").unwrap();
        for (a, want) in [("/", true), ("/aa/", true), ("/aa/bb/", true), ("/aa/bb/cc/", true), ("/aa/bb/cc", true), ("/aa/b", false), ("/aa", false), ("/aa/bb", false)] {
            let m = Msg::signal(1, "/", "a.b", "C").with_body(vec![Val::S(a.into())]);
            assert_eq!(matches(&r, &m), Some(want), "{a}");
        }
        // arg0namespace
        let r = parse_rule("arg0namespace='com.example.backend1'").unwrap();
        for (a, want) in [("com.example.backend1.foo.bar", true), ("com.example.backend1.foo", true), ("com.example.backend1", true), ("com.example.backend2", false), ("com.example.backend10", false)] {
            let m = Msg::signal(1, "/", "a.b", "C").with_body(vec![Val::S(a.into())]);
            assert_eq!(matches(&r, &m), Some(want), "{a}");
        }
    }

    #[test]
    fn quoting() {
        assert_eq!(quote("a'b"), "'a'\\''b'");
        let r = parse_rule("arg0='a,b',arg1='it'\\''s',arg2=''").unwrap();
        assert_eq!(r.args, vec![(0, "a,b".into()), (1, "it's".into()), (2, "".into())]);
        let s = r.to_rule_string();
        assert_eq!(parse_rule(&s).unwrap(), r);
        assert!(parse_rule("arg0='abc").is_err());
        assert!(parse_rule("type='signal',").is_err());
        // backslash inside quotes is literal
        let r = parse_rule("arg0='a\\b'").unwrap();
        assert_eq!(r.args[0].1, "a\\b");
    }
}
