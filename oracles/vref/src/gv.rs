//! Reference GVariant normal-form serialiser, written from the GVariant
//! serialisation specification (DESIGN.md appendix A.7) and checked against
//! GLib-produced vectors (appendix A.9). Independent of zvariant.

use crate::dbus::Endian;
use crate::val::Val;

fn pad_to(buf: &mut Vec<u8>, al: usize) {
    while buf.len() % al != 0 {
        buf.push(0);
    }
}

/// Width of the framing offsets of a container whose non-offset part is
/// `body` bytes long and which needs `n` offsets.
pub fn offset_width(body: usize, n: usize) -> usize {
    if body + n <= 0xff {
        1
    } else if body + 2 * n <= 0xffff {
        2
    } else if (body as u64) + 4 * (n as u64) <= 0xffff_ffff {
        4
    } else {
        8
    }
}

fn put_offsets(buf: &mut Vec<u8>, offs: &[usize]) {
    if offs.is_empty() {
        return;
    }
    let w = offset_width(buf.len(), offs.len());
    for o in offs {
        let le = (*o as u64).to_le_bytes();
        buf.extend_from_slice(&le[..w]);
    }
}

fn tuple(fields: &[&Val], fixed: bool, align: usize, e: Endian) -> Vec<u8> {
    let mut buf = Vec::new();
    if fields.is_empty() {
        return vec![0];
    }
    let mut offs = Vec::new();
    for (i, f) in fields.iter().enumerate() {
        let fs = f.sig();
        pad_to(&mut buf, fs.align_gv());
        buf.extend_from_slice(&serialize(f, e));
        if fs.fixed_size_gv().is_none() && i + 1 != fields.len() {
            offs.push(buf.len());
        }
    }
    if fixed {
        if !crate::sig::gv_quirks().1 {
            pad_to(&mut buf, align);
        }
    } else {
        offs.reverse();
        put_offsets(&mut buf, &offs);
    }
    buf
}

/// Serialise `v` assuming its first byte is placed at a position that satisfies
/// the alignment of its type.
pub fn serialize(v: &Val, e: Endian) -> Vec<u8> {
    match v {
        Val::Y(x) => vec![*x],
        Val::B(x) if crate::sig::gv_quirks().0 => e.u32(*x as u32).to_vec(),
        Val::B(x) => vec![*x as u8],
        Val::N(x) => e.u16(*x as u16).to_vec(),
        Val::Q(x) => e.u16(*x).to_vec(),
        Val::I(x) => e.u32(*x as u32).to_vec(),
        Val::U(x) | Val::H(x) => e.u32(*x).to_vec(),
        Val::X(x) => e.u64(*x as u64).to_vec(),
        Val::T(x) | Val::D(x) => e.u64(*x).to_vec(),
        Val::S(s) | Val::O(s) | Val::G(s) => {
            let mut b = s.as_bytes().to_vec();
            b.push(0);
            b
        }
        Val::V(inner) => {
            let mut b = serialize(inner, e);
            b.push(0);
            b.extend_from_slice(inner.sig().to_sig_string().as_bytes());
            b
        }
        Val::M(c, None) => {
            let _ = c;
            Vec::new()
        }
        Val::M(c, Some(x)) => {
            let mut b = serialize(x, e);
            if c.fixed_size_gv().is_none() {
                b.push(0);
            }
            b
        }
        Val::A(es, xs) => {
            let mut buf = Vec::new();
            if es.fixed_size_gv().is_some() {
                for x in xs {
                    // (a no-op per the specification, where a fixed size is a multiple of the alignment; under the
                    // not-padded quirk model the next element is aligned instead)
                    pad_to(&mut buf, es.align_gv());
                    buf.extend_from_slice(&serialize(x, e));
                }
            } else {
                let al = es.align_gv();
                let mut offs = Vec::new();
                for x in xs {
                    pad_to(&mut buf, al);
                    buf.extend_from_slice(&serialize(x, e));
                    offs.push(buf.len());
                }
                put_offsets(&mut buf, &offs);
            }
            buf
        }
        Val::Dict(ks, vs, entries) => {
            let entry_fixed = ks.fixed_size_gv().is_some() && vs.fixed_size_gv().is_some();
            let al = ks.align_gv().max(vs.align_gv());
            let mut buf = Vec::new();
            let mut offs = Vec::new();
            for (k, x) in entries {
                pad_to(&mut buf, al);
                buf.extend_from_slice(&tuple(&[k, x], entry_fixed, al, e));
                if !entry_fixed {
                    offs.push(buf.len());
                }
            }
            put_offsets(&mut buf, &offs);
            buf
        }
        Val::St(fs) => {
            let sig = v.sig();
            let refs: Vec<&Val> = fs.iter().collect();
            tuple(&refs, sig.fixed_size_gv().is_some(), sig.align_gv(), e)
        }
    }
}

/// Serialise at absolute offset `offset`: leading zero padding up to the
/// type's alignment, then the normal form.
pub fn serialize_at(v: &Val, e: Endian, offset: usize) -> Vec<u8> {
    let al = v.sig().align_gv();
    let mut buf = Vec::new();
    while (offset + buf.len()) % al != 0 {
        buf.push(0);
    }
    buf.extend_from_slice(&serialize(v, e));
    buf
}

#[cfg(test)]
mod tests {
    use super::*;
    use crate::sig::Sig;

    fn s(x: &str) -> Val {
        Val::S(x.into())
    }
    fn hex(b: &[u8]) -> String {
        b.iter().map(|x| format!("{x:02x}")).collect::<Vec<_>>().join(" ")
    }

    #[test]
    fn glib_vectors() {
        let le = Endian::Le;
        assert_eq!(
            hex(&serialize(&Val::St(vec![s("a"), s("bc"), s("d")]), le)),
            "61 00 62 63 00 64 00 05 02"
        );
        assert_eq!(
            hex(&serialize(&Val::St(vec![s("a"), Val::Q(1), s("bc")]), le)),
            "61 00 01 00 62 63 00 02"
        );
        assert_eq!(
            hex(&serialize(&Val::St(vec![Val::Y(1), s("x"), Val::I(2)]), le)),
            "01 78 00 00 02 00 00 00 03"
        );
        assert_eq!(
            hex(&serialize(
                &Val::Dict(Sig::S, Sig::V, vec![(s("k"), Val::V(Box::new(Val::I(1))))]),
                le
            )),
            "6b 00 00 00 00 00 00 00 01 00 00 00 00 69 02 0f"
        );
        let st = Sig::St(vec![Sig::S, Sig::I]);
        assert_eq!(
            hex(&serialize(
                &Val::A(
                    st,
                    vec![Val::St(vec![s("a"), Val::I(1)]), Val::St(vec![s("b"), Val::I(2)])]
                ),
                le
            )),
            "61 00 00 00 01 00 00 00 02 00 00 00 62 00 00 00 02 00 00 00 02 09 15"
        );
        assert_eq!(hex(&serialize(&Val::M(Sig::S, Some(Box::new(s("x")))), le)), "78 00 00");
        assert_eq!(hex(&serialize(&Val::M(Sig::S, None), le)), "");
        assert_eq!(hex(&serialize(&Val::M(Sig::I, Some(Box::new(Val::I(5)))), le)), "05 00 00 00");
        assert_eq!(hex(&serialize(&Val::St(vec![]), le)), "00");
        assert_eq!(hex(&serialize(&Val::V(Box::new(s("x"))), le)), "78 00 00 73");
        assert_eq!(
            hex(&serialize(&Val::St(vec![Val::V(Box::new(Val::Y(1))), Val::Y(2)]), le)),
            "01 00 79 02 03"
        );
        assert_eq!(
            hex(&serialize(
                &Val::A(Sig::V, vec![Val::V(Box::new(Val::I(1))), Val::V(Box::new(Val::I(2)))]),
                le
            )),
            "01 00 00 00 00 69 00 00 02 00 00 00 00 69 06 0e"
        );
        assert_eq!(
            hex(&serialize(&Val::St(vec![Val::X(1), Val::Y(2)]), le)),
            "01 00 00 00 00 00 00 00 02 00 00 00 00 00 00 00"
        );
        assert_eq!(
            hex(&serialize(&Val::St(vec![Val::I(1), Val::Y(2)]), le)),
            "01 00 00 00 02 00 00 00"
        );
        assert_eq!(
            hex(&serialize(&Val::A(Sig::B, vec![Val::B(true), Val::B(false)]), le)),
            "01 00"
        );
        assert_eq!(hex(&serialize(&Val::St(vec![Val::B(true), Val::Y(1)]), le)), "01 01");
        assert_eq!(
            hex(&serialize(&Val::St(vec![Val::A(Sig::I, vec![Val::I(1)]), Val::Y(7)]), le)),
            "01 00 00 00 07 04"
        );
        assert_eq!(
            hex(&serialize(&Val::St(vec![s("a"), Val::Q(258), s("bc")]), Endian::Be)),
            "61 00 01 02 62 63 00 02"
        );
        assert_eq!(
            hex(&serialize(&Val::A(Sig::S, vec![s("a"), s("bc")]), le)),
            "61 00 62 63 00 02 05"
        );
    }

    #[test]
    fn widths() {
        assert_eq!(offset_width(254, 1), 1);
        assert_eq!(offset_width(255, 1), 2);
        assert_eq!(offset_width(250, 5), 1);
        assert_eq!(offset_width(250, 6), 2);
        assert_eq!(offset_width(65533, 1), 2);
        assert_eq!(offset_width(65534, 1), 4);
    }
}
