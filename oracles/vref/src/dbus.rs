//! Reference D-Bus marshaller and *validating* unmarshaller, written from the
//! D-Bus specification's "Marshaling (Wire Format)" and "Valid Signatures" /
//! "Valid Object Paths" sections. Independent of zvariant.

use crate::names::valid_object_path;
use crate::sig::{parse_sig, Sig, SigOpts};
use crate::val::Val;

#[derive(Clone, Copy, Debug, PartialEq, Eq)]
pub enum Endian {
    Le,
    Be,
}

impl Endian {
    pub fn name(self) -> &'static str {
        match self {
            Endian::Le => "LE",
            Endian::Be => "BE",
        }
    }
    pub fn u16(self, v: u16) -> [u8; 2] {
        match self {
            Endian::Le => v.to_le_bytes(),
            Endian::Be => v.to_be_bytes(),
        }
    }
    pub fn u32(self, v: u32) -> [u8; 4] {
        match self {
            Endian::Le => v.to_le_bytes(),
            Endian::Be => v.to_be_bytes(),
        }
    }
    pub fn u64(self, v: u64) -> [u8; 8] {
        match self {
            Endian::Le => v.to_le_bytes(),
            Endian::Be => v.to_be_bytes(),
        }
    }
    pub fn rd16(self, b: &[u8]) -> u16 {
        let a = [b[0], b[1]];
        match self {
            Endian::Le => u16::from_le_bytes(a),
            Endian::Be => u16::from_be_bytes(a),
        }
    }
    pub fn rd32(self, b: &[u8]) -> u32 {
        let a = [b[0], b[1], b[2], b[3]];
        match self {
            Endian::Le => u32::from_le_bytes(a),
            Endian::Be => u32::from_be_bytes(a),
        }
    }
    pub fn rd64(self, b: &[u8]) -> u64 {
        let a = [b[0], b[1], b[2], b[3], b[4], b[5], b[6], b[7]];
        match self {
            Endian::Le => u64::from_le_bytes(a),
            Endian::Be => u64::from_be_bytes(a),
        }
    }
}

// --------------------------------------------------------------------------
// Marshalling

#[derive(Clone, Copy, Debug, PartialEq, Eq)]
pub enum Mark {
    Pad,
    ArrayLen,
    StrLen,
    Nul,
    Bool,
    SigLen,
    SigByte,
    StrByte,
    PathByte,
    FdIndex,
    Fixed,
}

pub struct Out {
    pub buf: Vec<u8>,
    /// absolute position of buf[0] within the message
    pub base: usize,
    pub endian: Endian,
    /// (offset in buf, kind) of structurally interesting bytes, for mutators
    pub marks: Vec<(usize, Mark)>,
}

impl Out {
    pub fn new(endian: Endian, base: usize) -> Self {
        Out {
            buf: Vec::new(),
            base,
            endian,
            marks: Vec::new(),
        }
    }
    pub fn abs(&self) -> usize {
        self.base + self.buf.len()
    }
    pub fn pad(&mut self, align: usize) {
        while self.abs() % align != 0 {
            self.marks.push((self.buf.len(), Mark::Pad));
            self.buf.push(0);
        }
    }
    fn mark(&mut self, m: Mark) {
        self.marks.push((self.buf.len(), m));
    }
    pub fn put(&mut self, v: &Val) {
        let e = self.endian;
        match v {
            Val::Y(x) => {
                self.mark(Mark::Fixed);
                self.buf.push(*x)
            }
            Val::B(x) => {
                self.pad(4);
                self.mark(Mark::Bool);
                self.buf.extend_from_slice(&e.u32(*x as u32));
            }
            Val::N(x) => {
                self.pad(2);
                self.buf.extend_from_slice(&e.u16(*x as u16));
            }
            Val::Q(x) => {
                self.pad(2);
                self.buf.extend_from_slice(&e.u16(*x));
            }
            Val::I(x) => {
                self.pad(4);
                self.buf.extend_from_slice(&e.u32(*x as u32));
            }
            Val::U(x) | Val::H(x) => {
                self.pad(4);
                self.mark(if matches!(v, Val::H(_)) { Mark::FdIndex } else { Mark::Fixed });
                self.buf.extend_from_slice(&e.u32(*x));
            }
            Val::X(x) => {
                self.pad(8);
                self.buf.extend_from_slice(&e.u64(*x as u64));
            }
            Val::T(x) | Val::D(x) => {
                self.pad(8);
                self.buf.extend_from_slice(&e.u64(*x));
            }
            Val::S(s) | Val::O(s) => {
                self.pad(4);
                self.mark(Mark::StrLen);
                self.buf.extend_from_slice(&e.u32(s.len() as u32));
                let kind = if matches!(v, Val::O(_)) { Mark::PathByte } else { Mark::StrByte };
                for b in s.as_bytes() {
                    self.mark(kind);
                    self.buf.push(*b);
                }
                self.mark(Mark::Nul);
                self.buf.push(0);
            }
            Val::G(s) => {
                self.mark(Mark::SigLen);
                self.buf.push(s.len() as u8);
                for b in s.as_bytes() {
                    self.mark(Mark::SigByte);
                    self.buf.push(*b);
                }
                self.mark(Mark::Nul);
                self.buf.push(0);
            }
            Val::V(inner) => {
                let s = inner.sig().to_sig_string();
                self.mark(Mark::SigLen);
                self.buf.push(s.len() as u8);
                for b in s.as_bytes() {
                    self.mark(Mark::SigByte);
                    self.buf.push(*b);
                }
                self.mark(Mark::Nul);
                self.buf.push(0);
                self.put(inner);
            }
            Val::A(es, xs) => {
                self.pad(4);
                self.mark(Mark::ArrayLen);
                let len_at = self.buf.len();
                self.buf.extend_from_slice(&[0; 4]);
                self.pad(es.align_dbus());
                let start = self.buf.len();
                for x in xs {
                    self.put(x);
                }
                let n = (self.buf.len() - start) as u32;
                self.buf[len_at..len_at + 4].copy_from_slice(&e.u32(n));
            }
            Val::Dict(_, _, entries) => {
                self.pad(4);
                self.mark(Mark::ArrayLen);
                let len_at = self.buf.len();
                self.buf.extend_from_slice(&[0; 4]);
                self.pad(8);
                let start = self.buf.len();
                for (k, v) in entries {
                    self.pad(8);
                    self.put(k);
                    self.put(v);
                }
                let n = (self.buf.len() - start) as u32;
                self.buf[len_at..len_at + 4].copy_from_slice(&e.u32(n));
            }
            Val::St(fs) => {
                self.pad(8);
                for f in fs {
                    self.put(f);
                }
            }
            Val::M(..) => panic!("maybe is not a D-Bus type"),
        }
    }
}

/// Marshal and return the structural marks as well.
pub fn marshal_marked(v: &Val, endian: Endian, offset: usize) -> (Vec<u8>, Vec<(usize, Mark)>) {
    let mut o = Out::new(endian, offset);
    o.put(v);
    (o.buf, o.marks)
}

/// Marshal one value whose first byte (padding included) lands at absolute
/// message offset `offset`.
pub fn marshal(v: &Val, endian: Endian, offset: usize) -> Vec<u8> {
    let mut o = Out::new(endian, offset);
    o.put(v);
    o.buf
}

/// Marshal a sequence of values (a message body: no enclosing struct alignment).
pub fn marshal_seq(vs: &[Val], endian: Endian, offset: usize) -> Vec<u8> {
    let mut o = Out::new(endian, offset);
    for v in vs {
        o.put(v);
    }
    o.buf
}

// --------------------------------------------------------------------------
// Validating unmarshaller

#[derive(Clone, Copy, Debug, PartialEq, Eq, Hash)]
pub enum Reason {
    Truncated,
    PaddingNonZero,
    BoolRange,
    StrNoNul,
    StrInteriorNul,
    Utf8,
    ObjPathGrammar,
    SigGrammar,
    VariantSigNotSingle,
    ArrayLenBoundary,
    DepthArray,
    DepthStruct,
    DepthTotal,
    FdIndex,
}

impl Reason {
    pub fn name(self) -> &'static str {
        match self {
            Reason::Truncated => "Truncated",
            Reason::PaddingNonZero => "PaddingNonZero",
            Reason::BoolRange => "BoolRange",
            Reason::StrNoNul => "StrNoNul",
            Reason::StrInteriorNul => "StrInteriorNul",
            Reason::Utf8 => "Utf8",
            Reason::ObjPathGrammar => "ObjPathGrammar",
            Reason::SigGrammar => "SigGrammar",
            Reason::VariantSigNotSingle => "VariantSigNotSingle",
            Reason::ArrayLenBoundary => "ArrayLenBoundary",
            Reason::DepthArray => "DepthArray",
            Reason::DepthStruct => "DepthStruct",
            Reason::DepthTotal => "DepthTotal",
            Reason::FdIndex => "FdIndex",
        }
    }
}

#[derive(Clone, Copy, Debug, Default)]
struct Depth {
    a: usize,
    s: usize,
    v: usize,
}

impl Depth {
    fn check(self) -> Result<Self, Reason> {
        if self.s > 32 {
            return Err(Reason::DepthStruct);
        }
        if self.a > 32 {
            return Err(Reason::DepthArray);
        }
        if self.a + self.s + self.v > 64 {
            return Err(Reason::DepthTotal);
        }
        Ok(self)
    }
}

pub struct In<'a> {
    pub b: &'a [u8],
    pub pos: usize,
    pub base: usize,
    pub endian: Endian,
    /// number of fds that accompany the data; None = do not check indices
    pub nfds: Option<u32>,
    /// the type (as a string) inside which the last error happened, for locators
    pub err_type: String,
}

impl<'a> In<'a> {
    pub fn new(b: &'a [u8], endian: Endian, base: usize, nfds: Option<u32>) -> Self {
        In {
            b,
            pos: 0,
            base,
            endian,
            nfds,
            err_type: String::new(),
        }
    }

    fn fail<T>(&mut self, sig: &Sig, r: Reason) -> Result<T, Reason> {
        if self.err_type.is_empty() {
            self.err_type = sig.to_sig_string();
        }
        Err(r)
    }

    fn align(&mut self, sig: &Sig, al: usize) -> Result<(), Reason> {
        while (self.base + self.pos) % al != 0 {
            if self.pos >= self.b.len() {
                return self.fail(sig, Reason::Truncated);
            }
            if self.b[self.pos] != 0 {
                return self.fail(sig, Reason::PaddingNonZero);
            }
            self.pos += 1;
        }
        Ok(())
    }

    fn take(&mut self, sig: &Sig, n: usize) -> Result<&'a [u8], Reason> {
        if self.b.len() - self.pos < n {
            return self.fail(sig, Reason::Truncated);
        }
        let s = &self.b[self.pos..self.pos + n];
        self.pos += n;
        Ok(s)
    }

    fn string_body(&mut self, sig: &Sig, len: usize) -> Result<String, Reason> {
        let body = self.take(sig, len)?;
        let nul = self.take(sig, 1)?;
        if body.contains(&0) {
            return self.fail(sig, Reason::StrInteriorNul);
        }
        if nul[0] != 0 {
            return self.fail(sig, Reason::StrNoNul);
        }
        match std::str::from_utf8(body) {
            Ok(s) => Ok(s.to_string()),
            Err(_) => self.fail(sig, Reason::Utf8),
        }
    }

    fn get(&mut self, sig: &Sig, d: Depth) -> Result<Val, Reason> {
        let e = self.endian;
        Ok(match sig {
            Sig::Y => Val::Y(self.take(sig, 1)?[0]),
            Sig::B => {
                self.align(sig, 4)?;
                match e.rd32(self.take(sig, 4)?) {
                    0 => Val::B(false),
                    1 => Val::B(true),
                    _ => return self.fail(sig, Reason::BoolRange),
                }
            }
            Sig::N => {
                self.align(sig, 2)?;
                Val::N(e.rd16(self.take(sig, 2)?) as i16)
            }
            Sig::Q => {
                self.align(sig, 2)?;
                Val::Q(e.rd16(self.take(sig, 2)?))
            }
            Sig::I => {
                self.align(sig, 4)?;
                Val::I(e.rd32(self.take(sig, 4)?) as i32)
            }
            Sig::U => {
                self.align(sig, 4)?;
                Val::U(e.rd32(self.take(sig, 4)?))
            }
            Sig::H => {
                self.align(sig, 4)?;
                let i = e.rd32(self.take(sig, 4)?);
                if let Some(n) = self.nfds {
                    if i >= n {
                        return self.fail(sig, Reason::FdIndex);
                    }
                }
                Val::H(i)
            }
            Sig::X => {
                self.align(sig, 8)?;
                Val::X(e.rd64(self.take(sig, 8)?) as i64)
            }
            Sig::T => {
                self.align(sig, 8)?;
                Val::T(e.rd64(self.take(sig, 8)?))
            }
            Sig::D => {
                self.align(sig, 8)?;
                Val::D(e.rd64(self.take(sig, 8)?))
            }
            Sig::S => {
                self.align(sig, 4)?;
                let len = e.rd32(self.take(sig, 4)?) as usize;
                Val::S(self.string_body(sig, len)?)
            }
            Sig::O => {
                self.align(sig, 4)?;
                let len = e.rd32(self.take(sig, 4)?) as usize;
                let s = self.string_body(sig, len)?;
                if !valid_object_path(s.as_bytes()) {
                    return self.fail(sig, Reason::ObjPathGrammar);
                }
                Val::O(s)
            }
            Sig::G => {
                let len = self.take(sig, 1)?[0] as usize;
                let s = self.string_body(sig, len)?;
                if parse_sig(s.as_bytes(), SigOpts { allow_maybe: false }).is_err() {
                    return self.fail(sig, Reason::SigGrammar);
                }
                Val::G(s)
            }
            Sig::V => {
                let len = self.take(sig, 1)?[0] as usize;
                let s = self.string_body(sig, len)?;
                let parsed = match parse_sig(s.as_bytes(), SigOpts { allow_maybe: false }) {
                    Ok(p) => p,
                    Err(_) => return self.fail(sig, Reason::SigGrammar),
                };
                if parsed.len() != 1 {
                    return self.fail(sig, Reason::VariantSigNotSingle);
                }
                let d2 = Depth { v: d.v + 1, ..d };
                let d2 = match d2.check() {
                    Ok(d) => d,
                    Err(r) => return self.fail(sig, r),
                };
                let inner = self.get(&parsed[0], d2)?;
                Val::V(Box::new(inner))
            }
            Sig::A(es) => {
                self.align(sig, 4)?;
                let d2 = Depth { a: d.a + 1, ..d };
                let d2 = match d2.check() {
                    Ok(d) => d,
                    Err(r) => return self.fail(sig, r),
                };
                let len = e.rd32(self.take(sig, 4)?) as usize;
                self.align(sig, es.align_dbus())?;
                let start = self.pos;
                if self.b.len() - start < len {
                    return self.fail(sig, Reason::Truncated);
                }
                let end = start + len;
                let mut xs = Vec::new();
                while self.pos < end {
                    // element decoding must stay within the declared length
                    let saved = self.b;
                    self.b = &saved[..end];
                    let r = self.get(es, d2);
                    self.b = saved;
                    match r {
                        Ok(x) => xs.push(x),
                        Err(Reason::Truncated) => {
                            self.err_type.clear();
                            return self.fail(sig, Reason::ArrayLenBoundary);
                        }
                        Err(r) => return Err(r),
                    }
                }
                Val::A((**es).clone(), xs)
            }
            Sig::Dict(ks, vs) => {
                self.align(sig, 4)?;
                let d2 = Depth { a: d.a + 1, ..d };
                let d2 = match d2.check() {
                    Ok(d) => d,
                    Err(r) => return self.fail(sig, r),
                };
                let len = e.rd32(self.take(sig, 4)?) as usize;
                self.align(sig, 8)?;
                let start = self.pos;
                if self.b.len() - start < len {
                    return self.fail(sig, Reason::Truncated);
                }
                let end = start + len;
                let mut es = Vec::new();
                while self.pos < end {
                    let saved = self.b;
                    self.b = &saved[..end];
                    let r = (|| {
                        self.align(sig, 8)?;
                        let k = self.get(ks, d2)?;
                        let v = self.get(vs, d2)?;
                        Ok((k, v))
                    })();
                    self.b = saved;
                    match r {
                        Ok(kv) => es.push(kv),
                        Err(Reason::Truncated) => {
                            self.err_type.clear();
                            return self.fail(sig, Reason::ArrayLenBoundary);
                        }
                        Err(r) => return Err(r),
                    }
                }
                Val::Dict((**ks).clone(), (**vs).clone(), es)
            }
            Sig::St(fs) => {
                self.align(sig, 8)?;
                let d2 = Depth { s: d.s + 1, ..d };
                let d2 = match d2.check() {
                    Ok(d) => d,
                    Err(r) => return self.fail(sig, r),
                };
                let mut out = Vec::new();
                for f in fs {
                    out.push(self.get(f, d2)?);
                }
                Val::St(out)
            }
            Sig::M(_) => panic!("maybe is not a D-Bus type"),
        })
    }
}

/// Result of the reference decode of one value of type `sig` at the start of
/// `bytes` (whose first byte is at absolute message offset `offset`).
pub fn unmarshal(
    bytes: &[u8],
    sig: &Sig,
    endian: Endian,
    offset: usize,
    nfds: Option<u32>,
) -> Result<(Val, usize), (Reason, String)> {
    let mut i = In::new(bytes, endian, offset, nfds);
    match i.get(sig, Depth::default()) {
        Ok(v) => Ok((v, i.pos)),
        Err(r) => Err((r, i.err_type)),
    }
}

/// Decode a sequence of complete types (a message body).
pub fn unmarshal_seq(
    bytes: &[u8],
    sigs: &[Sig],
    endian: Endian,
    offset: usize,
    nfds: Option<u32>,
) -> Result<(Vec<Val>, usize), (Reason, String)> {
    let mut i = In::new(bytes, endian, offset, nfds);
    let mut out = Vec::new();
    for s in sigs {
        match i.get(s, Depth::default()) {
            Ok(v) => out.push(v),
            Err(r) => return Err((r, i.err_type)),
        }
    }
    Ok((out, i.pos))
}

#[cfg(test)]
mod tests {
    use super::*;
    use crate::prng::Rng;
    use crate::sig::{gen_sig, GenOpts};
    use crate::val::{gen_val, ValOpts};

    #[test]
    fn spec_examples() {
        // uint32 7 at offset 0 LE
        assert_eq!(marshal(&Val::U(7), Endian::Le, 0), vec![7, 0, 0, 0]);
        assert_eq!(marshal(&Val::U(7), Endian::Be, 0), vec![0, 0, 0, 7]);
        // string "foo"
        assert_eq!(
            marshal(&Val::S("foo".into()), Endian::Le, 0),
            vec![3, 0, 0, 0, b'f', b'o', b'o', 0]
        );
        // spec example: array of int64 with 4 bytes of padding, n=8
        let v = Val::A(Sig::X, vec![Val::X(5)]);
        assert_eq!(
            marshal(&v, Endian::Le, 0),
            vec![8, 0, 0, 0, 0, 0, 0, 0, 5, 0, 0, 0, 0, 0, 0, 0]
        );
        // empty array of int64 still has the padding
        let v = Val::A(Sig::X, vec![]);
        assert_eq!(marshal(&v, Endian::Le, 0), vec![0, 0, 0, 0, 0, 0, 0, 0]);
        // variant of u8
        let v = Val::V(Box::new(Val::Y(9)));
        assert_eq!(marshal(&v, Endian::Le, 0), vec![1, b'y', 0, 9]);
        // variant of u32 pads after signature
        let v = Val::V(Box::new(Val::U(9)));
        assert_eq!(marshal(&v, Endian::Le, 0), vec![1, b'u', 0, 0, 9, 0, 0, 0]);
        // offset matters
        assert_eq!(marshal(&Val::U(7), Endian::Le, 1), vec![0, 0, 0, 7, 0, 0, 0]);
        // struct (yi)
        let v = Val::St(vec![Val::Y(1), Val::I(2)]);
        assert_eq!(marshal(&v, Endian::Le, 0), vec![1, 0, 0, 0, 2, 0, 0, 0]);
        // dict a{sv}: {"k": <1>}? check entry alignment
        let v = Val::Dict(
            Sig::Y,
            Sig::Y,
            vec![(Val::Y(1), Val::Y(2)), (Val::Y(3), Val::Y(4))],
        );
        assert_eq!(
            marshal(&v, Endian::Le, 0),
            vec![10, 0, 0, 0, 0, 0, 0, 0, 1, 2, 0, 0, 0, 0, 0, 0, 3, 4]
        );
    }

    #[test]
    fn roundtrip_random() {
        let o = GenOpts::default();
        for i in 0..3000u64 {
            let mut rng = Rng::new(i);
            let sig = gen_sig(&mut rng, &o, 0);
            let v = gen_val(&mut rng, &sig, &ValOpts::default());
            for e in [Endian::Le, Endian::Be] {
                for off in [0usize, 1, 3, 4, 7] {
                    let b = marshal(&v, e, off);
                    let (v2, n) = unmarshal(&b, &sig, e, off, None).unwrap();
                    assert_eq!(n, b.len());
                    assert_eq!(v2, v, "sig {sig}");
                }
            }
        }
    }

    #[test]
    fn rejects() {
        let s = Sig::S;
        let good = marshal(&Val::S("ab".into()), Endian::Le, 0);
        let mut bad = good.clone();
        bad[6] = b'X';
        assert_eq!(unmarshal(&bad, &s, Endian::Le, 0, None).unwrap_err().0, Reason::StrNoNul);
        let mut bad = good.clone();
        bad[4] = 0;
        assert_eq!(
            unmarshal(&bad, &s, Endian::Le, 0, None).unwrap_err().0,
            Reason::StrInteriorNul
        );
        let b = vec![2, 0, 0, 0];
        assert_eq!(unmarshal(&b, &Sig::B, Endian::Le, 0, None).unwrap_err().0, Reason::BoolRange);
        // array of u32 with len 6
        let b = vec![6, 0, 0, 0, 1, 0, 0, 0, 2, 0, 0, 0];
        assert_eq!(
            unmarshal(&b, &Sig::A(Box::new(Sig::U)), Endian::Le, 0, None).unwrap_err().0,
            Reason::ArrayLenBoundary
        );
        // variant with two types
        let b = vec![2, b'y', b'y', 0, 1, 2];
        assert_eq!(
            unmarshal(&b, &Sig::V, Endian::Le, 0, None).unwrap_err().0,
            Reason::VariantSigNotSingle
        );
        // padding
        let b = vec![1, 1, 0, 0, 2, 0, 0, 0];
        let st = Sig::St(vec![Sig::Y, Sig::I]);
        assert_eq!(unmarshal(&b, &st, Endian::Le, 0, None).unwrap_err().0, Reason::PaddingNonZero);
    }
}

// --------------------------------------------------------------------------
// Structure-aware mutation of marshalled data

use crate::prng::Rng;

/// Apply one structure-aware mutation; returns the mutated bytes and a label.
pub fn mutate(bytes: &[u8], marks: &[(usize, Mark)], e: Endian, rng: &mut Rng) -> (Vec<u8>, &'static str) {
    let mut b = bytes.to_vec();
    if b.is_empty() {
        return (vec![rng.next_u64() as u8], "grow-empty");
    }
    let choice = rng.below(10);
    if choice < 6 && !marks.is_empty() {
        let (pos, kind) = *rng.pick(marks);
        if pos + 4 > b.len() {
            let n = rng.usize_below(b.len());
            b.truncate(n);
            return (b, "truncate");
        }
        match kind {
            Mark::Pad => {
                b[pos] = 1 + rng.below(255) as u8;
                return (b, "pad-nonzero");
            }
            Mark::Nul => {
                b[pos] = 1 + rng.below(255) as u8;
                return (b, "terminator-nonzero");
            }
            Mark::Bool => {
                let v: u32 = *rng.pick(&[2u32, 255, 256, 0x0100_0000, 0xffff_ffff, 0x8000_0000]);
                b[pos..pos + 4].copy_from_slice(&e.u32(v));
                return (b, "bool-out-of-range");
            }
            Mark::ArrayLen | Mark::StrLen => {
                let old = e.rd32(&b[pos..pos + 4]);
                let delta: i64 = *rng.pick(&[1i64, -1, 2, -2, 4, -4, 7, 8, -8, 1 << 16, 1 << 26, 1 << 31]);
                let new = (old as i64 + delta).max(0) as u32;
                b[pos..pos + 4].copy_from_slice(&e.u32(new));
                return (b, if kind == Mark::ArrayLen { "array-len-edit" } else { "str-len-edit" });
            }
            Mark::SigLen => {
                let d: i16 = *rng.pick(&[1i16, -1, 2, 100]);
                b[pos] = (b[pos] as i16 + d).clamp(0, 255) as u8;
                return (b, "sig-len-edit");
            }
            Mark::SigByte => {
                b[pos] = *rng.pick(b"ybnqiuxtdsogvha(){}mz\0\xff");
                return (b, "sig-byte-edit");
            }
            Mark::StrByte => {
                b[pos] = *rng.pick(&[0u8, 0xff, 0xc0, 0x80, 0xed, 0xf8, b'/']);
                return (b, "str-byte-edit");
            }
            Mark::PathByte => {
                b[pos] = *rng.pick(&[0u8, b'/', b'-', b'.', 0xc3, b' ', b'a']);
                return (b, "path-byte-edit");
            }
            Mark::FdIndex => {
                let v: u32 = *rng.pick(&[1u32, 2, 3, 100, 0xffff_ffff]);
                b[pos..pos + 4].copy_from_slice(&e.u32(v));
                return (b, "fd-index-edit");
            }
            Mark::Fixed => {
                b[pos] ^= 1 << rng.below(8);
                return (b, "fixed-flip");
            }
        }
    }
    match choice {
        6 => {
            let n = rng.usize_below(b.len());
            b.truncate(n);
            (b, "truncate")
        }
        7 => {
            let p = rng.usize_below(b.len());
            b[p] ^= 1 << rng.below(8);
            (b, "bit-flip")
        }
        8 => {
            let p = rng.usize_below(b.len());
            b[p] = rng.next_u64() as u8;
            (b, "byte-set")
        }
        _ => {
            // splice: copy a random chunk over another place
            let n = 1 + rng.usize_below(b.len().min(8));
            let from = rng.usize_below(b.len() - n + 1);
            let to = rng.usize_below(b.len() - n + 1);
            let chunk = b[from..from + n].to_vec();
            b[to..to + n].copy_from_slice(&chunk);
            (b, "splice")
        }
    }
}
