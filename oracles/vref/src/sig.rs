//! Reference model of the D-Bus type grammar (plus the GVariant `m` extension).
//! Written from the D-Bus specification ("Type System" / "Valid Signatures"),
//! shares no code with zvariant.

use crate::prng::Rng;
use std::fmt;

#[derive(Clone, Debug, PartialEq, Eq, Hash, PartialOrd, Ord)]
pub enum Sig {
    Y,
    B,
    N,
    Q,
    I,
    U,
    X,
    T,
    D,
    S,
    O,
    G,
    V,
    H,
    A(Box<Sig>),
    /// `a{kv}`
    Dict(Box<Sig>, Box<Sig>),
    St(Vec<Sig>),
    /// GVariant maybe `mT`
    M(Box<Sig>),
}

pub const BASIC_CODES: &[u8] = b"ybnqiuxtdsogh";

thread_local! {
    static GV_QUIRKS: std::cell::Cell<(bool, bool)> = const { std::cell::Cell::new((false, false)) };
}

/// Model of two LISTED deviations of the library under test from the GVariant specification, switched on only to predict the
/// library's bytes for values that touch them (so that any OTHER difference in such values still shows):
/// .0 booleans are 4 bytes aligned to 4; .1 fixed-size tuples / dict entries are not padded at the end to their alignment.
/// Off (the specification) by default and for every oracle verdict.
pub fn set_gv_quirks(bool_is_4_bytes: bool, fixed_tuples_not_padded: bool) {
    GV_QUIRKS.with(|q| q.set((bool_is_4_bytes, fixed_tuples_not_padded)));
}

pub fn gv_quirks() -> (bool, bool) {
    GV_QUIRKS.with(|q| q.get())
}

#[derive(Clone, Copy, Debug, PartialEq, Eq)]
pub enum SigErr {
    TooLong,
    UnknownCode,
    ArrayNoElement,
    EmptyStruct,
    UnclosedStruct,
    StrayClose,
    DictNotInArray,
    DictKeyNotBasic,
    DictArity,
    ArrayDepth,
    StructDepth,
    MaybeNoChild,
    MaybeNotEnabled,
}

#[derive(Clone, Copy, Debug)]
pub struct SigOpts {
    pub allow_maybe: bool,
}

impl Sig {
    pub fn basic_from_code(c: u8) -> Option<Sig> {
        Some(match c {
            b'y' => Sig::Y,
            b'b' => Sig::B,
            b'n' => Sig::N,
            b'q' => Sig::Q,
            b'i' => Sig::I,
            b'u' => Sig::U,
            b'x' => Sig::X,
            b't' => Sig::T,
            b'd' => Sig::D,
            b's' => Sig::S,
            b'o' => Sig::O,
            b'g' => Sig::G,
            b'h' => Sig::H,
            _ => return None,
        })
    }

    pub fn is_basic(&self) -> bool {
        matches!(
            self,
            Sig::Y
                | Sig::B
                | Sig::N
                | Sig::Q
                | Sig::I
                | Sig::U
                | Sig::X
                | Sig::T
                | Sig::D
                | Sig::S
                | Sig::O
                | Sig::G
                | Sig::H
        )
    }

    pub fn is_container(&self) -> bool {
        matches!(self, Sig::A(_) | Sig::Dict(..) | Sig::St(_) | Sig::M(_) | Sig::V)
    }

    pub fn write(&self, out: &mut String) {
        match self {
            Sig::Y => out.push('y'),
            Sig::B => out.push('b'),
            Sig::N => out.push('n'),
            Sig::Q => out.push('q'),
            Sig::I => out.push('i'),
            Sig::U => out.push('u'),
            Sig::X => out.push('x'),
            Sig::T => out.push('t'),
            Sig::D => out.push('d'),
            Sig::S => out.push('s'),
            Sig::O => out.push('o'),
            Sig::G => out.push('g'),
            Sig::V => out.push('v'),
            Sig::H => out.push('h'),
            Sig::A(c) => {
                out.push('a');
                c.write(out);
            }
            Sig::Dict(k, v) => {
                out.push_str("a{");
                k.write(out);
                v.write(out);
                out.push('}');
            }
            Sig::St(fs) => {
                out.push('(');
                for f in fs {
                    f.write(out);
                }
                out.push(')');
            }
            Sig::M(c) => {
                out.push('m');
                c.write(out);
            }
        }
    }

    pub fn to_sig_string(&self) -> String {
        let mut s = String::new();
        self.write(&mut s);
        s
    }

    /// D-Bus alignment (spec table).
    pub fn align_dbus(&self) -> usize {
        match self {
            Sig::Y | Sig::G | Sig::V => 1,
            Sig::N | Sig::Q => 2,
            Sig::B | Sig::I | Sig::U | Sig::H | Sig::S | Sig::O | Sig::A(_) | Sig::Dict(..) => 4,
            Sig::X | Sig::T | Sig::D | Sig::St(_) => 8,
            Sig::M(c) => c.align_dbus(), // not a D-Bus type; never marshalled
        }
    }

    /// GVariant alignment.
    pub fn align_gv(&self) -> usize {
        match self {
            Sig::B if gv_quirks().0 => 4,
            Sig::Y | Sig::B | Sig::S | Sig::O | Sig::G => 1,
            Sig::N | Sig::Q => 2,
            Sig::I | Sig::U | Sig::H => 4,
            Sig::X | Sig::T | Sig::D | Sig::V => 8,
            Sig::A(c) | Sig::M(c) => c.align_gv(),
            Sig::Dict(k, v) => k.align_gv().max(v.align_gv()),
            Sig::St(fs) => fs.iter().map(|f| f.align_gv()).max().unwrap_or(1),
        }
    }

    /// GVariant fixed size, if the type is fixed-size.
    pub fn fixed_size_gv(&self) -> Option<usize> {
        match self {
            Sig::B if gv_quirks().0 => Some(4),
            Sig::Y | Sig::B => Some(1),
            Sig::N | Sig::Q => Some(2),
            Sig::I | Sig::U | Sig::H => Some(4),
            Sig::X | Sig::T | Sig::D => Some(8),
            Sig::S | Sig::O | Sig::G | Sig::V | Sig::A(_) | Sig::Dict(..) | Sig::M(_) => None,
            Sig::St(fs) => {
                if fs.is_empty() {
                    return Some(1);
                }
                let mut pos = 0usize;
                for f in fs {
                    let sz = f.fixed_size_gv()?;
                    let al = f.align_gv();
                    pos = (pos + al - 1) / al * al;
                    pos += sz;
                }
                if gv_quirks().1 {
                    return Some(pos);
                }
                let al = self.align_gv();
                Some((pos + al - 1) / al * al)
            }
        }
    }

    pub fn contains_maybe(&self) -> bool {
        match self {
            Sig::M(_) => true,
            Sig::A(c) => c.contains_maybe(),
            Sig::Dict(k, v) => k.contains_maybe() || v.contains_maybe(),
            Sig::St(fs) => fs.iter().any(|f| f.contains_maybe()),
            _ => false,
        }
    }

    pub fn contains_fd(&self) -> bool {
        match self {
            Sig::H => true,
            Sig::A(c) | Sig::M(c) => c.contains_fd(),
            Sig::Dict(k, v) => k.contains_fd() || v.contains_fd(),
            Sig::St(fs) => fs.iter().any(|f| f.contains_fd()),
            _ => false,
        }
    }

    pub fn contains_variant(&self) -> bool {
        match self {
            Sig::V => true,
            Sig::A(c) | Sig::M(c) => c.contains_variant(),
            Sig::Dict(k, v) => k.contains_variant() || v.contains_variant(),
            Sig::St(fs) => fs.iter().any(|f| f.contains_variant()),
            _ => false,
        }
    }

    pub fn contains_dict(&self) -> bool {
        match self {
            Sig::Dict(..) => true,
            Sig::A(c) | Sig::M(c) => c.contains_dict(),
            Sig::St(fs) => fs.iter().any(|f| f.contains_dict()),
            _ => false,
        }
    }

    /// Number of nodes in the type tree.
    pub fn nodes(&self) -> usize {
        match self {
            Sig::A(c) | Sig::M(c) => 1 + c.nodes(),
            Sig::Dict(k, v) => 1 + k.nodes() + v.nodes(),
            Sig::St(fs) => 1 + fs.iter().map(|f| f.nodes()).sum::<usize>(),
            _ => 1,
        }
    }

    /// (array depth, struct depth) maxima along any path.
    pub fn depths(&self) -> (usize, usize) {
        match self {
            Sig::A(c) => {
                let (a, s) = c.depths();
                (a + 1, s)
            }
            Sig::M(c) => c.depths(),
            Sig::Dict(k, v) => {
                let (a1, s1) = k.depths();
                let (a2, s2) = v.depths();
                (a1.max(a2) + 1, s1.max(s2))
            }
            Sig::St(fs) => {
                let mut a = 0;
                let mut s = 0;
                for f in fs {
                    let (fa, fs_) = f.depths();
                    a = a.max(fa);
                    s = s.max(fs_);
                }
                (a, s + 1)
            }
            _ => (0, 0),
        }
    }
}

impl fmt::Display for Sig {
    fn fmt(&self, f: &mut fmt::Formatter<'_>) -> fmt::Result {
        f.write_str(&self.to_sig_string())
    }
}

pub fn seq_to_string(seq: &[Sig]) -> String {
    let mut s = String::new();
    for x in seq {
        x.write(&mut s);
    }
    s
}

struct P<'a> {
    b: &'a [u8],
    i: usize,
    opts: SigOpts,
}

impl<'a> P<'a> {
    fn single(&mut self, adepth: usize, sdepth: usize) -> Result<Sig, SigErr> {
        if self.i >= self.b.len() {
            return Err(SigErr::ArrayNoElement);
        }
        let c = self.b[self.i];
        self.i += 1;
        if let Some(s) = Sig::basic_from_code(c) {
            return Ok(s);
        }
        match c {
            b'v' => Ok(Sig::V),
            b'a' => {
                if adepth + 1 > 32 {
                    return Err(SigErr::ArrayDepth);
                }
                if self.i >= self.b.len() {
                    return Err(SigErr::ArrayNoElement);
                }
                if self.b[self.i] == b'{' {
                    self.i += 1;
                    // key
                    if self.i >= self.b.len() {
                        return Err(SigErr::DictArity);
                    }
                    if self.b[self.i] == b'}' {
                        return Err(SigErr::DictArity);
                    }
                    let k = self.single(adepth + 1, sdepth)?;
                    if !k.is_basic() {
                        return Err(SigErr::DictKeyNotBasic);
                    }
                    if self.i >= self.b.len() || self.b[self.i] == b'}' {
                        return Err(SigErr::DictArity);
                    }
                    let v = self.single(adepth + 1, sdepth)?;
                    if self.i >= self.b.len() || self.b[self.i] != b'}' {
                        return Err(SigErr::DictArity);
                    }
                    self.i += 1;
                    Ok(Sig::Dict(Box::new(k), Box::new(v)))
                } else {
                    let c = self.single(adepth + 1, sdepth).map_err(|e| match e {
                        SigErr::StrayClose => SigErr::ArrayNoElement,
                        e => e,
                    })?;
                    Ok(Sig::A(Box::new(c)))
                }
            }
            b'(' => {
                if sdepth + 1 > 32 {
                    return Err(SigErr::StructDepth);
                }
                let mut fs = Vec::new();
                loop {
                    if self.i >= self.b.len() {
                        return Err(SigErr::UnclosedStruct);
                    }
                    if self.b[self.i] == b')' {
                        self.i += 1;
                        break;
                    }
                    fs.push(self.single(adepth, sdepth + 1)?);
                }
                if fs.is_empty() {
                    return Err(SigErr::EmptyStruct);
                }
                Ok(Sig::St(fs))
            }
            b'm' => {
                if !self.opts.allow_maybe {
                    return Err(SigErr::MaybeNotEnabled);
                }
                if self.i >= self.b.len() {
                    return Err(SigErr::MaybeNoChild);
                }
                let c = self.single(adepth, sdepth).map_err(|e| match e {
                    SigErr::StrayClose => SigErr::MaybeNoChild,
                    e => e,
                })?;
                Ok(Sig::M(Box::new(c)))
            }
            b')' | b'}' => Err(SigErr::StrayClose),
            b'{' => Err(SigErr::DictNotInArray),
            _ => Err(SigErr::UnknownCode),
        }
    }
}

/// Recognise a signature: zero or more complete types, at most 255 bytes.
pub fn parse_sig(bytes: &[u8], opts: SigOpts) -> Result<Vec<Sig>, SigErr> {
    if bytes.len() > 255 {
        return Err(SigErr::TooLong);
    }
    let mut p = P {
        b: bytes,
        i: 0,
        opts,
    };
    let mut out = Vec::new();
    while p.i < bytes.len() {
        out.push(p.single(0, 0)?);
    }
    Ok(out)
}

/// Recognise exactly one complete type.
pub fn parse_single(bytes: &[u8], opts: SigOpts) -> Result<Sig, SigErr> {
    let v = parse_sig(bytes, opts)?;
    if v.len() == 1 {
        Ok(v.into_iter().next().unwrap())
    } else {
        Err(SigErr::UnknownCode)
    }
}

// --------------------------------------------------------------------------
// Generators

#[derive(Clone, Copy, Debug)]
pub struct GenOpts {
    pub max_depth: usize,
    pub max_fields: usize,
    pub allow_maybe: bool,
    pub allow_fd: bool,
    pub allow_variant: bool,
}

impl Default for GenOpts {
    fn default() -> Self {
        GenOpts {
            max_depth: 4,
            max_fields: 4,
            allow_maybe: false,
            allow_fd: false,
            allow_variant: true,
        }
    }
}

pub fn gen_basic(rng: &mut Rng, o: &GenOpts) -> Sig {
    loop {
        let c = *rng.pick(BASIC_CODES);
        if c == b'h' && !o.allow_fd {
            continue;
        }
        return Sig::basic_from_code(c).unwrap();
    }
}

pub fn gen_sig(rng: &mut Rng, o: &GenOpts, depth: usize) -> Sig {
    let leaf = depth >= o.max_depth || rng.chance(2, 5);
    if leaf {
        if o.allow_variant && rng.chance(1, 10) {
            return Sig::V;
        }
        return gen_basic(rng, o);
    }
    let k = rng.below(if o.allow_maybe { 10 } else { 8 });
    match k {
        0..=2 => Sig::A(Box::new(gen_sig(rng, o, depth + 1))),
        3..=4 => Sig::Dict(
            Box::new(gen_basic(rng, o)),
            Box::new(gen_sig(rng, o, depth + 1)),
        ),
        5..=7 => {
            let n = 1 + rng.usize_below(o.max_fields);
            Sig::St((0..n).map(|_| gen_sig(rng, o, depth + 1)).collect())
        }
        _ => {
            // maybe of maybe is legal in GVariant
            Sig::M(Box::new(gen_sig(rng, o, depth + 1)))
        }
    }
}

/// All single complete types with at most `max_nodes` nodes, struct arity <= 3.
pub fn enumerate_sigs(max_nodes: usize, allow_maybe: bool, allow_fd: bool) -> Vec<Sig> {
    // by_nodes[n] = all sigs with exactly n nodes
    let mut by_nodes: Vec<Vec<Sig>> = vec![Vec::new(); max_nodes + 1];
    if max_nodes >= 1 {
        for &c in BASIC_CODES {
            if c == b'h' && !allow_fd {
                continue;
            }
            by_nodes[1].push(Sig::basic_from_code(c).unwrap());
        }
        by_nodes[1].push(Sig::V);
    }
    for n in 2..=max_nodes {
        let mut cur = Vec::new();
        // array / maybe of (n-1)
        for c in by_nodes[n - 1].clone() {
            cur.push(Sig::A(Box::new(c.clone())));
            if allow_maybe {
                cur.push(Sig::M(Box::new(c)));
            }
        }
        // dict: 1 + 1 (key basic) + v
        if n >= 3 {
            for k in by_nodes[1].clone() {
                if !k.is_basic() {
                    continue;
                }
                for v in by_nodes[n - 2].clone() {
                    cur.push(Sig::Dict(Box::new(k.clone()), Box::new(v)));
                }
            }
        }
        // structs with 1..=3 fields summing to n-1
        let rest = n - 1;
        for a in by_nodes[rest].clone() {
            cur.push(Sig::St(vec![a]));
        }
        for i in 1..rest {
            let j = rest - i;
            for a in &by_nodes[i] {
                for b in &by_nodes[j] {
                    cur.push(Sig::St(vec![a.clone(), b.clone()]));
                }
            }
        }
        for i in 1..rest {
            for j in 1..(rest - i) {
                let k = rest - i - j;
                if k == 0 {
                    continue;
                }
                for a in &by_nodes[i] {
                    for b in &by_nodes[j] {
                        for c in &by_nodes[k] {
                            cur.push(Sig::St(vec![a.clone(), b.clone(), c.clone()]));
                        }
                    }
                }
            }
        }
        by_nodes[n] = cur;
    }
    by_nodes.into_iter().flatten().collect()
}

#[cfg(test)]
mod tests {
    use super::*;
    const O: SigOpts = SigOpts { allow_maybe: false };
    const OM: SigOpts = SigOpts { allow_maybe: true };

    #[test]
    fn libdbus_confirmed_vectors() {
        assert!(parse_sig(b"a{sv}", O).is_ok());
        assert_eq!(parse_sig(b"ii", O).unwrap().len(), 2);
        assert!(parse_sig(b"a{vs}", O).is_err());
        assert!(parse_sig(b"()", O).is_err());
        assert!(parse_sig(b"", O).unwrap().is_empty());
        let a32 = format!("{}i", "a".repeat(32));
        let a33 = format!("{}i", "a".repeat(33));
        assert!(parse_sig(a32.as_bytes(), O).is_ok());
        assert_eq!(parse_sig(a33.as_bytes(), O), Err(SigErr::ArrayDepth));
        let s32 = format!("{}i{}", "(".repeat(32), ")".repeat(32));
        let s33 = format!("{}i{}", "(".repeat(33), ")".repeat(33));
        assert!(parse_sig(s32.as_bytes(), O).is_ok());
        assert_eq!(parse_sig(s33.as_bytes(), O), Err(SigErr::StructDepth));
        assert!(parse_sig("i".repeat(255).as_bytes(), O).is_ok());
        assert_eq!(parse_sig("i".repeat(256).as_bytes(), O), Err(SigErr::TooLong));
        assert!(parse_sig(b"{ss}", O).is_err());
        assert!(parse_sig(b"a{s}", O).is_err());
        assert!(parse_sig(b"a{sss}", O).is_err());
        assert!(parse_sig(b"a", O).is_err());
        assert!(parse_sig(b"a)", O).is_err());
        assert!(parse_sig(b"(i", O).is_err());
        assert!(parse_sig(b"i)", O).is_err());
        assert!(parse_sig(b"mi", O).is_err());
        assert!(parse_sig(b"mi", OM).is_ok());
        assert!(parse_sig(b"m", OM).is_err());
        assert!(parse_sig(b"a{sa{sv}}", O).is_ok());
        assert!(parse_sig(b"a{(i)s}", O).is_err());
        assert!(parse_sig(b"z", O).is_err());
    }

    #[test]
    fn print_roundtrip() {
        for s in ["a{sv}", "(ia(sy)v)", "aaai", "a{ya{sv}}", "mms"] {
            let p = parse_sig(s.as_bytes(), OM).unwrap();
            assert_eq!(seq_to_string(&p), s);
        }
    }

    #[test]
    fn gv_fixed() {
        let s = parse_single(b"(iy)", O).unwrap();
        assert_eq!(s.fixed_size_gv(), Some(8));
        let s = parse_single(b"(xy)", O).unwrap();
        assert_eq!(s.fixed_size_gv(), Some(16));
        let s = parse_single(b"(by)", O).unwrap();
        assert_eq!(s.fixed_size_gv(), Some(2));
        let s = parse_single(b"(yi)", O).unwrap();
        assert_eq!(s.fixed_size_gv(), Some(8));
        assert_eq!(parse_single(b"(ys)", O).unwrap().fixed_size_gv(), None);
    }

    #[test]
    fn enumerate_counts() {
        let v = enumerate_sigs(3, false, false);
        assert!(v.len() > 100);
        for s in &v {
            let st = s.to_sig_string();
            assert_eq!(parse_single(st.as_bytes(), O).unwrap(), *s);
        }
    }
}
