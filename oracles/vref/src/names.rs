//! Recognisers for the D-Bus name kinds, written from the specification's
//! "Valid Names" / "Valid Object Paths" bullet lists (DESIGN.md appendix A.3).

fn is_alnum_us(c: u8) -> bool {
    c.is_ascii_alphanumeric() || c == b'_'
}

pub fn valid_object_path(b: &[u8]) -> bool {
    if b.is_empty() || b[0] != b'/' {
        return false;
    }
    if b.len() == 1 {
        return true;
    }
    if b[b.len() - 1] == b'/' {
        return false;
    }
    let mut prev_slash = false;
    for (i, &c) in b.iter().enumerate() {
        if c == b'/' {
            if prev_slash && i > 0 {
                return false;
            }
            prev_slash = true;
        } else {
            if !is_alnum_us(c) {
                return false;
            }
            prev_slash = false;
        }
    }
    true
}

/// Interface names and error names.
pub fn valid_interface_name(b: &[u8]) -> bool {
    if b.is_empty() || b.len() > 255 {
        return false;
    }
    let mut elements = 0;
    for el in b.split(|&c| c == b'.') {
        if el.is_empty() {
            return false;
        }
        if el[0].is_ascii_digit() {
            return false;
        }
        if !el.iter().all(|&c| is_alnum_us(c)) {
            return false;
        }
        elements += 1;
    }
    elements >= 2
}

pub fn valid_error_name(b: &[u8]) -> bool {
    valid_interface_name(b)
}

pub fn valid_member_name(b: &[u8]) -> bool {
    if b.is_empty() || b.len() > 255 {
        return false;
    }
    if b[0].is_ascii_digit() {
        return false;
    }
    b.iter().all(|&c| is_alnum_us(c))
}

fn is_bus_char(c: u8) -> bool {
    c.is_ascii_alphanumeric() || c == b'_' || c == b'-'
}

pub fn valid_unique_name(b: &[u8]) -> bool {
    if b.len() > 255 || b.len() < 2 || b[0] != b':' {
        return false;
    }
    let rest = &b[1..];
    let mut elements = 0;
    for el in rest.split(|&c| c == b'.') {
        if el.is_empty() {
            return false;
        }
        if !el.iter().all(|&c| is_bus_char(c)) {
            return false;
        }
        elements += 1;
    }
    elements >= 2
}

pub fn valid_well_known_name(b: &[u8]) -> bool {
    if b.is_empty() || b.len() > 255 {
        return false;
    }
    if b[0] == b':' {
        return false;
    }
    let mut elements = 0;
    for el in b.split(|&c| c == b'.') {
        if el.is_empty() {
            return false;
        }
        if el[0].is_ascii_digit() {
            return false;
        }
        if !el.iter().all(|&c| is_bus_char(c)) {
            return false;
        }
        elements += 1;
    }
    elements >= 2
}

pub fn valid_bus_name(b: &[u8]) -> bool {
    valid_unique_name(b) || valid_well_known_name(b)
}

/// The library documents "any string of 1..=255 bytes" (the spec gives no grammar).
pub fn valid_property_name(b: &[u8]) -> bool {
    !b.is_empty() && b.len() <= 255
}

pub fn valid_guid(b: &[u8]) -> bool {
    b.len() == 32 && b.iter().all(|c| c.is_ascii_hexdigit())
}

#[cfg(test)]
mod tests {
    use super::*;
    #[test]
    fn paths() {
        for ok in ["/", "/a", "/a/b", "/_/0", "/A1_/b"] {
            assert!(valid_object_path(ok.as_bytes()), "{ok}");
        }
        for bad in ["", "a", "/a/", "//", "/a//b", "/a-b", "/a.b", "/é", "//a"] {
            assert!(!valid_object_path(bad.as_bytes()), "{bad}");
        }
    }
    #[test]
    fn names() {
        assert!(valid_interface_name(b"a.b"));
        assert!(!valid_interface_name(b"a"));
        assert!(!valid_interface_name(b"a..b"));
        assert!(!valid_interface_name(b"a.0b"));
        assert!(!valid_interface_name(b"a.b-c"));
        assert!(!valid_interface_name(b".a.b"));
        assert!(!valid_interface_name(b"a.b."));
        assert!(valid_member_name(b"Foo_1"));
        assert!(!valid_member_name(b"1Foo"));
        assert!(!valid_member_name(b"a.b"));
        assert!(!valid_member_name(b""));
        assert!(valid_unique_name(b":1.42"));
        assert!(!valid_unique_name(b":1"));
        assert!(!valid_unique_name(b"1.42"));
        assert!(!valid_unique_name(b":1..2"));
        assert!(valid_well_known_name(b"org.foo-bar.Baz"));
        assert!(!valid_well_known_name(b"org.0foo"));
        assert!(!valid_well_known_name(b"org"));
        assert!(!valid_well_known_name(b":org.a"));
        assert!(valid_guid(b"0123456789abcdefABCDEF0123456789"));
        assert!(!valid_guid(b"0123456789abcdefABCDEF012345678"));
        assert!(!valid_guid(b"01234567-89ab-cdef-ABCD-EF0123456789"));
    }
}
