//! Recognisers for the D-Bus name kinds, written from the specification's
//! "Valid Names" / "Valid Object Paths" bullet lists (DESIGN.md appendix A.3).

fn is_alnum_us(c: u8) -> bool {
    c.is_ascii_alphanumeric() || c == b'_'
}

pub fn valid_object_path(b: &[u8]) -> bool {
    if b.is_empty() || b[0] != b'/' {
        return false;
    }
    if b.len() == 1 {
        return true;
    }
    if b[b.len() - 1] == b'/' {
        return false;
    }
    let mut prev_slash = false;
    for (i, &c) in b.iter().enumerate() {
        if c == b'/' {
            if prev_slash && i > 0 {
                return false;
            }
            prev_slash = true;
        } else {
            if !is_alnum_us(c) {
                return false;
            }
            prev_slash = false;
        }
    }
    true
}

/// Interface names and error names.
pub fn valid_interface_name(b: &[u8]) -> bool {
    if b.is_empty() || b.len() > 255 {
        return false;
    }
    let mut elements = 0;
    for el in b.split(|&c| c == b'.') {
        if el.is_empty() {
            return false;
        }
        if el[0].is_ascii_digit() {
            return false;
        }
        if !el.iter().all(|&c| is_alnum_us(c)) {
            return false;
        }
        elements += 1;
    }
    elements >= 2
}

pub fn valid_error_name(b: &[u8]) -> bool {
    valid_interface_name(b)
}

pub fn valid_member_name(b: &[u8]) -> bool {
    if b.is_empty() || b.len() > 255 {
        return false;
    }
    if b[0].is_ascii_digit() {
        return false;
    }
    b.iter().all(|&c| is_alnum_us(c))
}

fn is_bus_char(c: u8) -> bool {
    c.is_ascii_alphanumeric() || c == b'_' || c == b'-'
}

pub fn valid_unique_name(b: &[u8]) -> bool {
    if b.len() > 255 || b.len() < 2 || b[0] != b':' {
        return false;
    }
    let rest = &b[1..];
    let mut elements = 0;
    for el in rest.split(|&c| c == b'.') {
        if el.is_empty() {
            return false;
        }
        if !el.iter().all(|&c| is_bus_char(c)) {
            return false;
        }
        elements += 1;
    }
    elements >= 2
}

pub fn valid_well_known_name(b: &[u8]) -> bool {
    if b.is_empty() || b.len() > 255 {
        return false;
    }
    if b[0] == b':' {
        return false;
    }
    let mut elements = 0;
    for el in b.split(|&c| c == b'.') {
        if el.is_empty() {
            return false;
        }
        if el[0].is_ascii_digit() {
            return false;
        }
        if !el.iter().all(|&c| is_bus_char(c)) {
            return false;
        }
        elements += 1;
    }
    elements >= 2
}

pub fn valid_bus_name(b: &[u8]) -> bool {
    valid_unique_name(b) || valid_well_known_name(b)
}

/// The library documents "any string of 1..=255 bytes" (the spec gives no grammar).
pub fn valid_property_name(b: &[u8]) -> bool {
    !b.is_empty() && b.len() <= 255
}

pub fn valid_guid(b: &[u8]) -> bool {
    b.len() == 32 && b.iter().all(|c| c.is_ascii_hexdigit())
}

#[cfg(test)]
mod tests {
    use super::*;
    #[test]
    fn paths() {
        for ok in ["/", "/a", "/a/b", "/_/0", "/A1_/b"] {
            assert!(valid_object_path(ok.as_bytes()), "{ok}");
        }
        for bad in ["", "a", "/a/", "//", "/a//b", "/a-b", "/a.b", "/é", "//a"] {
            assert!(!valid_object_path(bad.as_bytes()), "{bad}");
        }
    }
    #[test]
    fn names() {
        assert!(valid_interface_name(b"a.b"));
        assert!(!valid_interface_name(b"a"));
        assert!(!valid_interface_name(b"a..b"));
        assert!(!valid_interface_name(b"a.0b"));
        assert!(!valid_interface_name(b"a.b-c"));
        assert!(!valid_interface_name(b".a.b"));
        assert!(!valid_interface_name(b"a.b."));
        assert!(valid_member_name(b"Foo_1"));
        assert!(!valid_member_name(b"1Foo"));
        assert!(!valid_member_name(b"a.b"));
        assert!(!valid_member_name(b""));
        assert!(valid_unique_name(b":1.42"));
        assert!(!valid_unique_name(b":1"));
        assert!(!valid_unique_name(b"1.42"));
        assert!(!valid_unique_name(b":1..2"));
        assert!(valid_well_known_name(b"org.foo-bar.Baz"));
        assert!(!valid_well_known_name(b"org.0foo"));
        assert!(!valid_well_known_name(b"org"));
        assert!(!valid_well_known_name(b":org.a"));
        assert!(valid_guid(b"0123456789abcdefABCDEF0123456789"));
        assert!(!valid_guid(b"0123456789abcdefABCDEF012345678"));
        assert!(!valid_guid(b"01234567-89ab-cdef-ABCD-EF0123456789"));
    }
}

// --------------------------------------------------------------------------
// Generators of valid names

use crate::prng::Rng;

fn gen_element(rng: &mut Rng, allow_dash: bool, allow_leading_digit: bool) -> String {
    let n = 1 + rng.usize_below(6);
    let mut s = String::new();
    for i in 0..n {
        let c = loop {
            let c = match rng.below(10) {
                0 => '_',
                1 => (b'0' + rng.below(10) as u8) as char,
                2 => (b'A' + rng.below(26) as u8) as char,
                3 if allow_dash => '-',
                _ => (b'a' + rng.below(26) as u8) as char,
            };
            if i == 0 && c.is_ascii_digit() && !allow_leading_digit {
                continue;
            }
            break c;
        };
        s.push(c);
    }
    s
}

pub fn gen_interface_name(rng: &mut Rng) -> String {
    let n = 2 + rng.usize_below(3);
    (0..n).map(|_| gen_element(rng, false, false)).collect::<Vec<_>>().join(".")
}

pub fn gen_member_name(rng: &mut Rng) -> String {
    gen_element(rng, false, false)
}

pub fn gen_unique_name(rng: &mut Rng) -> String {
    let n = 2 + rng.usize_below(2);
    format!(":{}", (0..n).map(|_| gen_element(rng, true, true)).collect::<Vec<_>>().join("."))
}

pub fn gen_well_known_name(rng: &mut Rng) -> String {
    let n = 2 + rng.usize_below(3);
    (0..n).map(|_| gen_element(rng, true, false)).collect::<Vec<_>>().join(".")
}

pub fn gen_bus_name(rng: &mut Rng) -> String {
    if rng.bool() {
        gen_unique_name(rng)
    } else {
        gen_well_known_name(rng)
    }
}

#[cfg(test)]
mod gen_tests {
    use super::*;
    #[test]
    fn generated_names_are_valid() {
        let mut rng = Rng::new(5);
        for _ in 0..2000 {
            assert!(valid_interface_name(gen_interface_name(&mut rng).as_bytes()));
            assert!(valid_member_name(gen_member_name(&mut rng).as_bytes()));
            assert!(valid_unique_name(gen_unique_name(&mut rng).as_bytes()));
            assert!(valid_well_known_name(gen_well_known_name(&mut rng).as_bytes()));
        }
    }
}
