//! Reference models ("oracles") for the zbus verification machinery.
//! This crate has NO dependency on the code under test.

pub mod dbus;
pub mod gv;
pub mod matchrule;
pub mod msg;
pub mod names;
pub mod prng;
pub mod sasl;
pub mod sig;
pub mod val;

pub fn hex(b: &[u8]) -> String {
    let mut s = String::with_capacity(b.len() * 2);
    for x in b {
        s.push_str(&format!("{x:02x}"));
    }
    s
}

pub fn unhex(s: &str) -> Option<Vec<u8>> {
    let s = s.as_bytes();
    if s.len() % 2 != 0 {
        return None;
    }
    let mut out = Vec::with_capacity(s.len() / 2);
    for c in s.chunks(2) {
        let h = (c[0] as char).to_digit(16)?;
        let l = (c[1] as char).to_digit(16)?;
        out.push((h * 16 + l) as u8);
    }
    Some(out)
}
