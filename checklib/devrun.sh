#!/bin/bash
# devrun.sh <engine> <PROP> [nshards=4] [seed=1] [tier=quick]: run a few shards outside the driver and summarise findings
E=$1; P=$2; N=${3:-4}; S=${4:-1}; T=${5:-quick}
D=/verif/.work/dev-$P; mkdir -p $D; find $D -type f -delete
for i in $(seq 0 $((N-1))); do /verif/.target/$E-default-monitor/monitor/$E --property $P --shard $i/14 --seed $S --tier $T --out-dir $D --scale 1 2>$D/err-$i & done; wait
cat $D/shard-*.jsonl | python3 -c "
import sys,json,collections
sigs=collections.OrderedDict(); counts=collections.Counter()
for l in sys.stdin:
    try: r=json.loads(l)
    except Exception: continue
    if r.get('k')=='finding':
        sigs.setdefault(r['signature'],r)
    elif r.get('k')=='count': counts[r['name']]+=r['n']
    elif r.get('k')=='finding_count': counts['F:'+r['signature']]+=r['n']
for s,r in sigs.items():
    print('==',s); print(json.dumps(r['detail'])[:1800]); print()
for k,v in sorted(counts.items()): print(k,v)
"
tail -n 3 $D/err-0
