#!/bin/bash
# seeded_eval.sh <seeded-id> <PROP> [tier=quick] [extra props...]
# Applies /verif/seeded/<id>/patch.diff to /repo, runs the property's check, records the outcome in
# /verif/seeded/<id>/detect-<PROP>-<tier>.txt, and restores /repo, the evidence file and the replay directory.
set -u
ID=$1; PROP=$2; TIER=${3:-quick}
S=/verif/seeded/$ID
cd /verif; touch /tmp/repo.busy; trap "rm -f /tmp/repo.busy" EXIT
if [ -n "$(git -C /repo status --porcelain --untracked-files=no | grep -v flatpak-summary.dump)" ]; then echo "/repo is not clean"; exit 9; fi
cp evidence/$PROP.json /tmp/evidence-$PROP.bak 2>/dev/null
ls replays > /tmp/replays-before.txt
git -C /repo apply $S/patch.diff || { echo "patch does not apply"; exit 8; }
./check $PROP --tier $TIER > $S/detect-$PROP-$TIER.txt 2>&1
rc=$?
echo "exit=$rc" >> $S/detect-$PROP-$TIER.txt
git -C /repo checkout -- .
cp /tmp/evidence-$PROP.bak evidence/$PROP.json 2>/dev/null
mkdir -p $S/replays
for f in $(ls replays); do grep -qx "$f" /tmp/replays-before.txt || mv replays/$f $S/replays/; done
git checkout -q -- replays 2>/dev/null
echo "$ID $PROP $TIER exit=$rc"; grep -c VIOLATION $S/detect-$PROP-$TIER.txt; grep -A1 VIOLATION $S/detect-$PROP-$TIER.txt | grep signature | head -5
