#!/usr/bin/env python3
"""Regenerate MANIFEST.json from checklib/props.py (single source of truth)."""
import json
import os
import sys

ROOT = os.path.dirname(os.path.dirname(os.path.abspath(__file__)))
sys.path.insert(0, os.path.join(ROOT, "checklib"))
from props import PROPS  # noqa: E402
from manifest_text import TEXT, NOT_APPLICABLE, PENDING  # noqa: E402

import subprocess
# every commit in /repo whose subject starts with "verif hook:" (guarded, add-only instrumentation)
HOOK_COMMITS = [l.split()[0] for l in subprocess.run(
    ["git", "-C", "/repo", "log", "--reverse", "--format=%H %s", "--grep=^verif hook:"],
    stdout=subprocess.PIPE, text=True).stdout.splitlines() if l.strip()]

ids = [json.loads(l)["id"] for l in open(os.path.join(ROOT, "properties.jsonl"))]
checks = []
na = []
for pid in ids:
    if pid in PROPS:
        cfg = PROPS[pid]
        t = TEXT[pid]
        checks.append({
            "property_id": pid,
            "quick_cmd": f"./check {pid} --tier quick",
            "thorough_cmd": f"./check {pid} --tier thorough",
            "evidence_file": f"/verif/evidence/{pid}.json",
            "replay_cmd_template": f"./check {pid} --replay {{path}}",
            "engine": t.get("engine", "zv"),
            "level_claimed": {"category": cfg["level"], "text": t["level_text"], "design_ref": f"DESIGN.md §5 {pid}"},
            "level_note": t["level_note"],
            "technique": t["technique"],
        })
    elif pid in NOT_APPLICABLE:
        na.append({"property_id": pid, "reason": NOT_APPLICABLE[pid]})
    else:
        na.append({"property_id": pid, "reason": PENDING})

m = {
    "version": 1,
    "setup_cmd": "./check --setup",
    "hooks": {
        "guard": "zbus_verif",
        "enable": "RUSTFLAGS='--cfg zbus_verif --check-cfg cfg(zbus_verif)' (set by ./check for every engine build)",
        "baseline_off_cmd": "cd /repo && cargo nextest run --workspace --no-fail-fast --test-threads 8 --offline || cargo test --workspace --no-fail-fast --offline",
        "source_commits": HOOK_COMMITS,
        "add_only": True,
    },
    "engines": [
        {"name": "vref", "path": "oracles/vref", "serves_properties": sorted(PROPS.keys()),
         "kind_free_text": "reference models (D-Bus/GVariant codecs, grammars, sequential models); no dependency on /repo"},
        {"name": "zv", "path": "engines/zv", "serves_properties": [p for p in sorted(PROPS) if TEXT[p].get("engine", "zv") == "zv"],
         "kind_free_text": "zvariant under generated workloads with reference-model monitors, sharded processes, panic/alloc/fd monitors; rebuilt per feature set and sanitizer layer"},
        {"name": "zb", "path": "engines/zb", "serves_properties": [p for p in sorted(PROPS) if TEXT[p].get("engine") == "zb"],
         "kind_free_text": "zbus connection core over a scripted transport with a deterministic scheduler, history monitors; scripted raw peer and scripted message bus"},
        {"name": "zg", "path": "engines/zg", "serves_properties": [p for p in sorted(PROPS) if TEXT[p].get("engine") == "zg"],
         "kind_free_text": "generated interface programs (engines/gen/gen_ifaces.py, regenerated from VERIF_SEED before each build) served by the real object server over the scripted transport"},
        {"name": "zt", "path": "engines/zt", "serves_properties": [p for p in sorted(PROPS) if TEXT[p].get("engine") == "zt"],
         "kind_free_text": "generated type definitions (engines/gen/gen_types.py) compiled against zvariant's derives, judged by the reference decoder"},
    ],
    "checks": checks,
    "not_applicable": na,
    "notes": "Runtime monitoring: the real crates are rebuilt from /repo's working tree (path dependencies) and run under generated/hostile workloads; verdicts are three-valued (exit 0 held / 1 VIOLATION / 2 INCONCLUSIVE). Known findings: known_findings.json.",
}
with open(os.path.join(ROOT, "MANIFEST.json"), "w") as f:
    json.dump(m, f, indent=1)
print(f"MANIFEST.json: {len(checks)} checks, {len(na)} not claimed")
