#!/usr/bin/env python3
"""Assemble /verif/seeded/<id>/meta.json from the agent's meta, my confirmation and the detection runs,
and print the markdown table for DESIGN.md §8."""
import glob
import json
import os
import re

ROOT = os.path.dirname(os.path.dirname(os.path.abspath(__file__)))
rows = []
for d in sorted(glob.glob(os.path.join(ROOT, "seeded", "*"))):
    sid = os.path.basename(d)
    prop = sid.split("-")[0]
    am = {}
    try:
        am = json.load(open(os.path.join(d, "agent_meta.json")))
    except Exception:
        pass
    cf = {}
    try:
        cf = json.load(open(os.path.join(d, "confirm.json")))
    except Exception:
        pass
    detections = []
    for f in sorted(glob.glob(os.path.join(d, "detect-*.txt"))):
        m = re.match(r"detect-(C\d+)-(\w+)\.txt", os.path.basename(f))
        txt = open(f, errors="replace").read()
        rc = re.search(r"exit=(\d+)", txt)
        sigs = re.findall(r"signature: (\S+)", txt)
        detections.append({"check": m.group(1), "tier": m.group(2), "exit": int(rc.group(1)) if rc else None,
                           "detected": bool(rc and rc.group(1) == "1"), "signatures": sigs[:6]})
    meta = {
        "id": sid,
        "property": prop,
        "breaks": am.get("summary", ""),
        "needs_to_manifest": am.get("needs_to_manifest", ""),
        "files_touched": am.get("files_touched", []),
        "author": "independent sub-agent given only the property text and a scratch worktree",
        "confirmed_by_me": {
            "how": "checklib/confirm_seeded.sh in the scratch worktree /tmp/wt/confirm: git apply; cargo build --workspace; "
                   "the demonstration run with and without the patch; cargo nextest run --workspace compared with the baseline pass/fail sets",
            **{k: (v == "true") for k, v in cf.items() if k != "id"},
        },
        "what_i_ran": ["checklib/confirm_seeded.sh <agent out dir> <label>"] + [f"checklib/seeded_eval.sh {sid} {x['check']} {x['tier']}" for x in detections],
        "detection": detections,
    }
    try:
        meta["history"] = open(os.path.join(d, "notes.txt")).read().strip()
    except Exception:
        pass
    with open(os.path.join(d, "meta.json"), "w") as f:
        json.dump(meta, f, indent=1)
    own = [x for x in detections if x["check"] == prop]
    other = [x for x in detections if x["check"] != prop]
    best = "yes" if any(x["detected"] for x in own) else ("no" if own else "not run")
    sig = next((x["signatures"][0] for x in own if x["detected"] and x["signatures"]), "")
    extra = ", ".join(f"{x['check']}: {'yes' if x['detected'] else 'no'}" for x in other)
    summ = re.sub(r"\s+", " ", am.get("summary", ""))[:150]
    rows.append(f"| {sid} | {summ} | {best} | `{sig[:90]}` | {extra} |")

import sys
table = ["| seeded change | what it breaks (agent's summary, truncated) | caught by the property's quick check | first signature | other checks |",
         "|---|---|---|---|---|"] + rows
print("\n".join(table))
if "--write-design" in sys.argv:
    # rewrite the table between the markers in DESIGN.md §8.2
    dp = os.path.join(ROOT, "DESIGN.md")
    d = open(dp).read()
    b, e = "<!-- SEEDED-TABLE-BEGIN -->", "<!-- SEEDED-TABLE-END -->"
    if "SEEDED-TABLE-PLACEHOLDER" in d:
        d = d.replace("SEEDED-TABLE-PLACEHOLDER", b + "\n" + e)
    i, j = d.index(b), d.index(e)
    caught = sum(1 for r in rows if "| yes |" in r)
    head = f"{len(rows)} seeded changes, {caught} caught by the quick check of the property they break (after the strengthening described above):\n\n"
    d = d[:i] + b + "\n" + head + "\n".join(table) + "\n" + d[j:]
    open(dp, "w").write(d)
