"""Human-written texts for MANIFEST.json entries."""

PENDING = "no check registered yet in this revision (machinery under construction); not claimed"

NOT_APPLICABLE = {
    "C35": ("the observable is the compiler's exit status over a feature powerset: there is no execution of the library to "
            "monitor, so runtime monitoring cannot decide it (DESIGN.md §6)"),
}

SAN = "thorough tier repeats a reduced workload under Miri and (where native code is reached) ASan, plus a release-profile run"

TEXT = {
    "C01": {
        "technique": "reference-model monitor (independent D-Bus marshaller) over generated values; Miri/ASan layers",
        "level_text": ("Every encoding produced by the real zvariant serializer in the run is compared byte-for-byte with an independent "
                       "marshaller written from the specification, over random, boundary and exhaustively enumerated small signatures, both "
                       "endians and offsets 0..15; sizes and fd counts are cross-checked. Held-on-observed, not proof. " + SAN),
        "level_note": "trusts vref::dbus (spec examples as unit tests); dict order and fd index allocation are left free as the specification does",
    },
    "C02": {
        "technique": "round-trip monitor at the public API over generated values, 4 feature builds; Miri layer",
        "level_text": ("encode->decode through the real library for dynamic and typed values in both formats, value compared through an independent "
                       "projection (NaN by bits), consumed length compared with encoded length, trailing-garbage insensitivity for D-Bus. " + SAN),
        "level_note": "oracle is the generated input itself; listed GVariant deviations are reported as KNOWN-FINDING by the trigger they need",
    },
    "C05": {
        "technique": "reference-model monitor (independent GVariant serialiser validated against GLib vectors)",
        "level_text": ("library GVariant bytes compared with an independent normal-form serialiser for random/enumerated signatures incl. maybe types, "
                       "GLib-confirmed vectors and containers straddling the 255/65535 offset-width thresholds. " + SAN),
        "level_note": "trusts vref::gv (GLib-produced vectors as unit tests); three listed deviations partition the input space: values touching one are reported under it, the rest judged strictly",
    },
    "C06": {
        "technique": "exhaustive bounded enumeration of strings against a reference recogniser + law checks on accepted signatures",
        "level_text": ("all strings over a 21-symbol alphabet up to length 6/7 plus limit families and random long signatures are parsed by the real parser "
                       "and by an independent recogniser; formatting, string_len and Eq/Hash/Ord across representations are checked on every accepted one"),
        "level_note": "trusts vref::sig (libdbus-confirmed vectors); exhaustive only up to the stated length",
    },
    "C03": {
        "technique": "differential monitor: library decoder vs validating reference unmarshaller on valid, mutated and random bytes",
        "level_text": ("the real D-Bus decoder and an independent validating unmarshaller judge the same bytes (valid encodings, structure-aware "
                       "mutations, random bytes, directed invalid vectors); any accept/reject, value or consumed-length disagreement is a finding "
                       "keyed by the reference's rejection cause. " + SAN),
        "level_note": "trusts vref::dbus::unmarshal; reach is bounded by the mutators (1-2 stacked mutations of valid encodings)",
    },
    "C04": {
        "technique": "crash/allocation monitors (catch_unwind, shard journal, counting allocator) over hostile decode workloads; ASan + Miri layers",
        "level_text": ("hostile byte strings are decoded by the real decoders in sharded child processes with per-case panic capture, a journal "
                       "that identifies the case on process death (stack overflow, abort), and an allocation high-water-mark bound; decoded values "
                       "are re-encoded. " + SAN),
        "level_note": "a clean run means no crash on the inputs generated; reach is bounded by the mutators and the signature generator (depth <= 5)",
    },
    "C07": {
        "technique": "boundary-grid workload over nesting depths with an arithmetic oracle on outcomes (encode and decode)",
        "level_text": ("every depth vector of the boundary band (quick) or of the full 0..40 grid (thorough), in several nesting orders and both formats, "
                       "is encoded by the real serializer and decoded from independently serialised bytes; success/failure must match the three limits"),
        "level_note": "oracle is arithmetic on the property's three limits; over-deep inputs for the decoder come from the reference serialisers",
    },
    "C08": {
        "technique": "algebraic-law monitor over generated value triples + structural equality model + conversion round trips",
        "level_text": ("equivalence, total-order, hash-consistency, clone/owned and signature laws are asserted on generated triples of real Value objects; "
                       "== is additionally compared with an independent structural model; std conversions round-trip"),
        "level_note": "values containing NaN are a listed deviation (5 law signatures); everything else is judged strictly",
    },
    "C10": {"engine": "zb",
        "technique": "exhaustive bounded enumeration of strings against reference recognisers through every construction path",
        "level_text": "every string over a 10-symbol alphabet to length 5/7 plus limit and UUID-shaped families, for 9 validated types and up to 5 construction paths each, compared with recognisers written from the specification",
        "level_note": "trusts vref::names; exhaustive only up to the stated length; expensive paths (from_static_str, TryFrom<Value>, Deserialize) sampled 1/37 beyond length 3",
    },
    "C11": {"engine": "zb",
        "technique": "reference-model monitor (independent message parser/marshaller) + library re-parse over generated messages",
        "level_text": "messages built by the real Builder are dissected by an independent parser written from the message-format section and re-parsed by the library; every requested header datum, derived field and the body must agree. " + SAN,
        "level_note": "trusts vref::msg; dict order and fd index allocation free",
    },
    "C12": {"engine": "zb",
        "technique": "crash/allocation monitors over hostile message bytes; ASan + Miri layers",
        "level_text": "hostile byte strings go through Message::from_bytes and every read path of an accepted message under per-case panic capture, a death journal and an allocation bound. " + SAN,
        "level_note": "reach bounded by the mutators (1-2 stacked mutations, header edits, truncations, random)",
    },
    "C13": {"engine": "zb",
        "technique": "exhaustive code enumeration + stream history monitor on a scripted transport",
        "level_text": "every unknown field code/flag bit/type is fed to the parser and injected between normal messages on a real Connection whose transport the harness scripts; the delivered history must contain every normal message in order",
        "level_note": "transport and schedule are the harness's deterministic ones; unknown message types are a listed known finding",
    },
    "C14": {"engine": "zb",
        "technique": "history monitor over a scripted transport under a seeded deterministic scheduler (all short cut sets, random plans)",
        "level_text": "the real socket-reader/framing code runs over a transport whose read boundaries, fd delivery and task interleaving the harness controls; the delivered history is compared with the sent one. " + SAN,
        "level_note": "single-threaded deterministic scheduler at existing suspension points; libc recvmsg path only under the ASan socketpair layer (thorough)",
    },
    "C15": {"engine": "zb",
        "technique": "history monitor (uniqueness + exact range) over real-thread storms, wrap-around reached through a cfg hook; TSan layer",
        "level_text": "all serial numbers handed out in concurrent storms are recorded per thread and checked offline for zero, duplicates and exact coverage of the expected range including across the 32-bit wrap; contention actually achieved is measured",
        "level_note": "needs the cfg(zbus_verif) counter setter; interleavings come from real threads, not enumerated",
    },
    "C16": {"engine": "zb",
        "technique": "exhaustive bounded enumeration of client scripts against a reference SASL server model over a scripted transport",
        "level_text": "the real server-side handshake runs against every short client script (and random long ones) under scripted read splits and partial writes; authentication verdict and every reply line are compared with an independent model of the SASL profile",
        "level_note": "trusts vref::sasl (written from DESIGN.md A.6); soundness and conformance findings have separate signatures so one can never hide the other",
    },
    "C17": {"engine": "zb",
        "technique": "exhaustive bounded enumeration of server scripts + leftover hand-off history monitor over a scripted transport",
        "level_text": "the real client handshake runs against every short server script; success, fd capability (observed behaviourally) and delivery of messages/fds sent right behind the handshake are compared with the model",
        "level_note": "kernel batching of trailing messages and fds is emulated by the scripted transport",
    },
    "C18": {"engine": "zb",
        "technique": "offline history checker over the captured write-call log under a seeded scheduler with partial writes and stalls",
        "level_text": "the real send path runs with many concurrent senders over a write half that accepts random partial writes and stalls; the captured call log is framed with the reference parser and checked for wholeness, exactly-once, per-sender order and fd placement; interleaving evidence is counted",
        "level_note": "deterministic single-threaded scheduler (real-thread TSan variant is thorough-only); writes are captured at the transport boundary",
    },
    "C19": {"engine": "zb",
        "technique": "call-table history monitor against a scripted peer under a seeded scheduler, with fault injection at the end",
        "level_text": "every call's completion is matched against what the scripted peer actually answered for that call's wire serial, across out-of-order, stray, duplicate and never-sent replies, cancellation and a final transport failure",
        "level_note": "peer speaks the reference codec; hang verdicts are taken at quiescence (logical time)",
    },
    "C20": {"engine": "zb",
        "technique": "interval-model history monitor (rounds separated by quiescence) + structural invariant hook at quiescent points",
        "level_text": "stream lifecycles race with labelled incoming messages; delivery per stream is compared with the interval model and the subscription refcounts are read through a cfg hook under the connection's own locks",
        "level_note": "needs the cfg(zbus_verif) subscriptions snapshot; streams are kept polled as the property requires",
    },
    "C21": {"engine": "zb",
        "technique": "reference-model monitor (independent matching predicate) over generated rule/message near-miss pairs",
        "level_text": "the real matcher and an independent predicate written from the specification judge the same (rule, message) pairs, with messages generated as hits and single-aspect near misses of each rule",
        "level_note": "trusts vref::matchrule (the specification's examples as unit tests); well-known names undecidable locally",
    },
    "C22": {"engine": "zb",
        "technique": "round-trip monitor against an independent specification-conformant rule parser",
        "level_text": "string forms produced by the library are parsed by an independent quote-aware parser and by the library itself; equality and print/parse stability are checked for hostile argument values",
        "level_note": "trusts vref::matchrule::parse_rule",
    },
    "C23": {"engine": "zb",
        "technique": "round-trip + reference percent-codec monitor over generated addresses",
        "level_text": "address values round-trip through Display/FromStr and reference-encoded strings must decode to the intended bytes; malformed escapes must be refused",
        "level_note": "values are raw bytes 1..255 in OS strings (Linux)",
    },
    "C34": {"engine": "zb",
        "technique": "round-trip monitor with an independent XML renderer and model projection",
        "level_text": "documents rendered by the harness are read by the library, projected back to the harness model, written and re-read",
        "level_note": "the harness's XML renderer escapes the five predefined entities; large documents cross the 4096-event buffer",
    },
    "C24": {"engine": "zb",
        "technique": "exhaustive short histories + random long ones against a sequential object-tree model, three observation views",
        "level_text": "after each operation of every short history (and of random long ones) the set of (path, interface) pairs seen by lookup, by real method calls from a scripted peer and by walking Introspect from the root is compared with the model's set",
        "level_note": "interfaces are macro-generated in the harness; introspection XML is read with zbus_xml",
    },
    "C30": {"engine": "zb",
        "technique": "quiescence-based deadlock / lost-call detection under a seeded scheduler",
        "level_text": "handlers that re-enter the object server are called by a scripted peer; a call still unanswered when no actor can move is a deadlock or lost-call witness with the schedule trace",
        "level_note": "two listed known findings (lazy dispatch start race; registration under ObjectManager with a re-entrant getter)",
    },
    "C38": {"engine": "zb",
        "technique": "fault enumeration over a scripted session: EOF / I/O error at every inbound byte offset and every write call, under seeded schedules; verdict at scheduler quiescence",
        "level_text": "the fault position is enumerated exhaustively for one session script; for each, the completion state of every pending call, send and stream is compared with what the completely-received prefix dictates",
        "level_note": "positions are exhaustive for the script; schedules are sampled",
    },
    "C39": {"engine": "zb",
        "technique": "peer-side EOF monitor over random handle sets and drop orders; gate-controlled handlers for graceful shutdown ordering",
        "level_text": "the scripted peer watches for the transport closing while the harness drops handles / opens handler gates in random order under a seeded scheduler",
        "level_note": "EOF must not appear before the last handle is gone / the last handler replied, and must appear at quiescence afterwards",
    },
}
