#!/bin/bash
# confirm_seeded.sh <agent-out-dir> <ID-label>
# Confirms in the scratch worktree /tmp/wt/confirm that a seeded change (1) applies, (2) builds, (3) leaves the baseline
# pass set intact, (4) makes its demonstration fail, and that the demonstration passes without it.
# Writes <agent-out-dir>/confirm.json.
set -u
OUT=$1; ID=$2
WT=/tmp/wt/confirm
export CARGO_NET_OFFLINE=true CARGO_TARGET_DIR=$WT/target
[ -d $WT ] || git -C /repo worktree add --detach $WT $(git -C /repo rev-parse HEAD) >/dev/null 2>&1
cd $WT && git checkout -q -- . && git clean -fdq -e target -e 'demo_*'
BASE=$(git -C $OUT/.. rev-parse HEAD 2>/dev/null || true)
res() { python3 - "$@" <<'PY'
import json,sys
d=dict(a.split('=',1) for a in sys.argv[2:])
json.dump(d,open(sys.argv[1],'w'),indent=1)
PY
}
applies=false; builds=false; tests_ok=false; demo_fails=false; demo_passes_clean=false
DEMO=$WT/demo_$ID; rm -rf $DEMO; cp -r $OUT/demo $DEMO
sed -i -E "s#/tmp/wt/[a-z0-9]+/#$WT/#g" $DEMO/Cargo.toml
cp $WT/Cargo.lock $DEMO/Cargo.lock
rundemo() { (cd $DEMO && if grep -q '^\[\[test\]\]\|#\[test\]' -r src tests 2>/dev/null && ! [ -f src/main.rs ]; then CARGO_TARGET_DIR=$WT/target-demo timeout 1200 cargo test --offline --release 2>&1; else CARGO_TARGET_DIR=$WT/target-demo timeout 1200 cargo run --offline --release $( grep -q gvariant Cargo.toml && echo "" ) 2>&1; fi) > $OUT/demo_$1.log; echo $?; }
# clean run first
rc=$(rundemo clean); [ "$rc" = "0" ] && demo_passes_clean=true
if git apply --check $OUT/patch.diff 2>/dev/null; then applies=true; git apply $OUT/patch.diff; fi
if $applies; then
  if cargo build --workspace --offline > $OUT/confirm_build.log 2>&1; then builds=true; fi
  rc=$(rundemo patched); [ "$rc" != "0" ] && demo_fails=true
  cargo nextest run --workspace --no-fail-fast --tool-config-file pb:/w/lib/nextest.toml --profile pb --test-threads 8 --offline > $OUT/confirm_tests.log 2>&1
  if grep -q "123 passed" $OUT/confirm_tests.log; then
     # same failing set as the baseline run on the clean tree
     grep -E "^\s+FAIL " $OUT/confirm_tests.log | sed -E 's/.*\) //' | sort -u > $OUT/fails.txt
     if diff -q $OUT/fails.txt /tmp/wt/baseline_fails.txt >/dev/null; then tests_ok=true; fi
  fi
fi
git checkout -q -- .
res $OUT/confirm.json id=$ID applies=$applies builds=$builds existing_tests_pass_set_unchanged=$tests_ok demo_fails_with_patch=$demo_fails demo_passes_without_patch=$demo_passes_clean
cat $OUT/confirm.json; echo
rm -rf $DEMO
