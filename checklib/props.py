"""Per-property configuration of the `check` driver.

plan(tier) -> list of steps {engine, features, layer, scale, nshards, timeout}.
Layers: monitor (opt-level 1, debug assertions + overflow checks), release,
asan, tsan, miri.
"""

FEATS4 = ["", "gvariant", "option-as-array", "gvariant,option-as-array"]


def zv_plan(quick_feats, thorough_feats, thorough_layers=(), miri_scale=0.004, asan_scale=0.3):
    def plan(tier):
        steps = []
        feats = quick_feats if tier == "quick" else thorough_feats
        for f in feats:
            steps.append({"engine": "zv", "features": f, "layer": "monitor"})
        if tier == "thorough":
            for layer in thorough_layers:
                f = feats[-1] if layer != "release" else feats[0]
                st = {"engine": "zv", "features": f, "layer": layer}
                if layer == "miri":
                    st["scale"] = miri_scale
                    st["args"] = ["--tier", "quick"]
                elif layer == "asan":
                    st["scale"] = asan_scale
                    st["args"] = ["--tier", "quick"]
                elif layer == "release":
                    st["scale"] = 0.5
                steps.append(st)
        return steps
    return plan


PROPS = {}

PROPS["C01"] = {
    "level": "exploration",
    "plan": zv_plan(["", "option-as-array"], ["", "option-as-array"], ("release", "asan", "miri")),
    "rule": ("generated D-Bus signatures (random to depth 4, exhaustive to 3/4 nodes, 44+8 typed Rust shapes) x "
             "boundary/random values x {LE,BE} x offsets 0..15, each encoding compared byte-for-byte with the "
             "reference marshaller (dict order and fd index allocation left free); distinct = distinct "
             "(signature, endian, offset mod 8) with a container or a padded type"),
    "gates": {"quick": {"evaluations": 50000, "distinct": 5000},
              "thorough": {"evaluations": 500000, "distinct": 20000}},
    "assumptions": ["reference marshaller vref::dbus (unit-tested against specification examples)",
                    "dict entry order and fd index allocation are not prescribed by the specification"],
}

PROPS["C02"] = {
    "level": "exploration",
    "plan": zv_plan(["", "gvariant,option-as-array"], FEATS4, ("release", "miri")),
    "rule": ("generated signatures (random to depth 4, incl. maybe types in GVariant builds) and 44+8 typed Rust shapes x "
             "boundary/random values x formats {D-Bus, GVariant} x {LE,BE} x offsets 0..15: encode with the library, decode "
             "with the library, compare value (NaN by bits, dict order free) and consumed length; D-Bus additionally "
             "with trailing garbage appended; distinct = distinct (signature, format, endian, offset mod 8)"),
    "gates": {"quick": {"evaluations": 50000, "distinct": 5000},
              "thorough": {"evaluations": 500000, "distinct": 20000}},
    "assumptions": ["top-level dict and maybe values have no dynamic decode target in the API and are judged only nested",
                    "g values hold at most one complete type (the library documents that it cannot tell 'ii' from '(ii)')"],
}

PROPS["C05"] = {
    "level": "exploration",
    "plan": zv_plan(["gvariant"], ["gvariant", "gvariant,option-as-array"], ("release", "miri")),
    "rule": ("GVariant signatures (random to depth 4 incl. maybe, exhaustive to 3/4 nodes, typed shapes, GLib-confirmed vectors, "
             "containers crossing the 255/65535 framing-offset thresholds) x values x {LE,BE} x offsets: library bytes "
             "compared with the reference normal-form serialiser (dict order taken from the library's Dict iteration, fd "
             "index allocation free); values touching a listed deviation are reported under it, all others judged strictly; "
             "distinct = distinct (signature, endian, offset mod 8)"),
    "gates": {"quick": {"evaluations": 30000, "distinct": 3000, "passed_trigger_free": 500},
              "thorough": {"evaluations": 300000, "distinct": 10000, "passed_trigger_free": 5000}},
    "assumptions": ["reference serialiser vref::gv (unit-tested against GLib-produced vectors, DESIGN.md A.9)"],
}

PROPS["C06"] = {
    "level": "exploration",
    "plan": zv_plan(["", "gvariant"], ["", "gvariant"], ("release",)),
    "rule": ("EVERY string over the 21-symbol alphabet ybnqiuxtdsgovha(){}mz up to length 6 (quick; 7 thorough) plus boundary "
             "families (254..300 bytes, 31..40 nested arrays/structs, every non-basic dict key) and grammar-directed random "
             "long signatures with single-symbol mutations; accept/reject compared with the reference recogniser, and for "
             "accepted strings formatting, string_len, ==str, and Eq/Hash/Ord across parsed/dynamic/static representations; "
             "distinct = distinct accepted strings"),
    "gates": {"quick": {"evaluations": 1000000, "distinct": 10000},
              "thorough": {"evaluations": 50000000, "distinct": 100000}},
    "exhaustive_note": "all strings over the alphabet up to the length recorded in classes.exhaustive_max_len (count in classes.exhaustive_strings_total) were enumerated in every feature build",
    "assumptions": ["reference recogniser vref::sig (checked against libdbus dbus_signature_validate vectors, DESIGN.md A.9)"],
}

PROPS["C03"] = {
    "level": "exploration",
    "plan": zv_plan(["", "option-as-array"], ["", "option-as-array"], ("release", "miri")),
    "rule": ("reference-marshalled valid encodings of generated signatures/values, 1-2 stacked structure-aware mutations of them "
             "(each padding byte, length field, terminator, bool word, signature byte, string byte, fd index; truncation, flips, "
             "splices), random bytes and hand-made invalid vectors, decoded by the library (dynamic targets and 44+8 typed "
             "shapes) and by the validating reference unmarshaller: accept<=>accept, equal value, equal consumed length; "
             "distinct = distinct (signature, input kind, verdict class)"),
    "gates": {"quick": {"evaluations": 100000, "distinct": 3000, "class:both-accept": 20000, "class:both-reject": 20000},
              "thorough": {"evaluations": 5000000, "distinct": 50000}},
    "assumptions": ["reference unmarshaller vref::dbus enforces exactly the rejection causes the property lists (plus truncation)",
                    "value equality is not judged for dicts whose wire form repeats a key; fd indices are checked against the 2 supplied fds"],
}

PROPS["C04"] = {
    "level": "exploration",
    "plan": zv_plan(["", "gvariant,option-as-array"], FEATS4, ("release", "asan", "miri")),
    "rule": ("hostile inputs (1-2 stacked structure-aware or byte-level mutations of valid D-Bus/GVariant encodings, random bytes, "
             "hand-made vectors: huge length prefixes, 5000-deep variant chains, 255-byte signatures, maybe signatures in D-Bus "
             "data, out-of-range/backward GVariant offsets) decoded as dynamic and typed targets in every format of the feature "
             "build, under catch_unwind + shard journal (process death) + counting-allocator bound 512*(input+sig)+1MiB; every "
             "decoded value is re-encoded; distinct = distinct (signature, format, input kind)"),
    "gates": {"quick": {"evaluations": 200000, "distinct": 5000, "class:decoded": 20000, "class:reencoded": 20000},
              "thorough": {"evaluations": 10000000, "distinct": 100000}},
    "assumptions": ["the allocation bound is deliberately loose (a legitimate ay -> Vec<Value> expansion is ~100x)",
                    "quick tier runs the no-feature and gvariant+option-as-array builds; thorough all four"],
}

PROPS["C07"] = {
    "level": "exploration",
    "plan": zv_plan(["gvariant"], ["", "gvariant"], ("release",)),
    "rule": ("values built as chains of a arrays/dicts, s structures and v variants (boundary band of {0,1,2,30..34,40} x "
             "{0..2,29..35,60..66} in quick, the full 41^3 grid in thorough) in grouped/round-robin/shuffled orders, some with two deep "
             "siblings in one struct (depth must not leak), encoded by the library and decoded from reference-serialised bytes in "
             "both formats; outcome compared with the arithmetic on the three limits; distinct = distinct (a, s, v, format)"),
    "gates": {"quick": {"evaluations": 5000, "distinct": 1000, "class:within-limits": 500, "class:beyond-limits": 500},
              "thorough": {"evaluations": 200000, "distinct": 50000}},
    "assumptions": ["an excess inside one variant-delimited signature may be reported as an invalid signature (C06) instead of MaxDepthExceeded; counted separately",
                    "dicts count as arrays, dict entries are not counted as structures (as the property states the limits)"],
}

PROPS["C08"] = {
    "level": "exploration",
    "plan": zv_plan(["gvariant"], ["", "gvariant"], ("release", "miri")),
    "rule": ("triples of nested Values generated to be equal / one-leaf-different / unrelated (incl. signed zeros, NaNs, fds, maybe) "
             "checked against reflexivity, symmetry, transitivity, cmp antisymmetry/transitivity, cmp==Equal<=>==, partial_cmp==cmp, "
             "equal=>equal hash, try_clone/try_to_owned/OwnedValue preserving == and signature, value_signature == signature on the "
             "wire, and == agreeing with a structural model; plus std-type -> Value -> std-type conversions; distinct = distinct "
             "(signature triple, equality pattern)"),
    "gates": {"quick": {"evaluations": 50000, "distinct": 5000, "class:equal-pair": 20000, "class:unequal-pair": 20000, "conversion_checks": 5000},
              "thorough": {"evaluations": 5000000, "distinct": 100000}},
    "assumptions": ["values containing NaN are a listed deviation: their law failures are reported under it, all NaN-free values are judged strictly"],
}
