"""Per-property configuration of the `check` driver.

plan(tier) -> list of steps {engine, features, layer, scale, nshards, timeout}.
Layers: monitor (opt-level 1, debug assertions + overflow checks), release,
asan, tsan, miri.
"""

FEATS4 = ["", "gvariant", "option-as-array", "gvariant,option-as-array"]


def zv_plan(quick_feats, thorough_feats, thorough_layers=(), miri_scale=0.004, asan_scale=0.3):
    def plan(tier):
        steps = []
        feats = quick_feats if tier == "quick" else thorough_feats
        for f in feats:
            steps.append({"engine": "zv", "features": f, "layer": "monitor"})
        if tier == "thorough":
            for layer in thorough_layers:
                f = feats[-1] if layer != "release" else feats[0]
                st = {"engine": "zv", "features": f, "layer": layer}
                if layer == "miri":
                    st["scale"] = miri_scale
                    st["args"] = ["--tier", "quick"]
                elif layer == "asan":
                    st["scale"] = asan_scale
                    st["args"] = ["--tier", "quick"]
                elif layer == "release":
                    st["scale"] = 0.5
                steps.append(st)
        return steps
    return plan


PROPS = {}

PROPS["C01"] = {
    "level": "exploration",
    "plan": zv_plan(["", "option-as-array"], ["", "option-as-array"], ("release", "asan", "miri")),
    "rule": ("generated D-Bus signatures (random to depth 4, exhaustive to 3/4 nodes, 44+8 typed Rust shapes) x "
             "boundary/random values x {LE,BE} x offsets 0..15, each encoding compared byte-for-byte with the "
             "reference marshaller (dict order and fd index allocation left free); distinct = distinct "
             "(signature, endian, offset mod 8) with a container or a padded type"),
    "gates": {"quick": {"evaluations": 50000, "distinct": 5000},
              "thorough": {"evaluations": 500000, "distinct": 20000}},
    "assumptions": ["reference marshaller vref::dbus (unit-tested against specification examples)",
                    "dict entry order and fd index allocation are not prescribed by the specification"],
}

PROPS["C02"] = {
    "level": "exploration",
    "plan": zv_plan(["", "gvariant,option-as-array"], FEATS4, ("release", "miri")),
    "rule": ("generated signatures (random to depth 4, incl. maybe types in GVariant builds) and 44+8 typed Rust shapes x "
             "boundary/random values x formats {D-Bus, GVariant} x {LE,BE} x offsets 0..15: encode with the library, decode "
             "with the library, compare value (NaN by bits, dict order free) and consumed length; D-Bus additionally "
             "with trailing garbage appended; distinct = distinct (signature, format, endian, offset mod 8)"),
    "gates": {"quick": {"evaluations": 50000, "distinct": 5000},
              "thorough": {"evaluations": 500000, "distinct": 20000}},
    "assumptions": ["borrowed targets (&[u8], &str and containers of them: the zero-copy fast paths) are exercised in D-Bus format, both endians, four offsets",
                    "top-level dict and maybe values have no dynamic decode target in the API and are judged only nested",
                    "g values hold at most one complete type (the library documents that it cannot tell 'ii' from '(ii)')"],
}

PROPS["C05"] = {
    "level": "exploration",
    "plan": zv_plan(["gvariant"], ["gvariant", "gvariant,option-as-array"], ("release", "miri")),
    "rule": ("GVariant signatures (random to depth 4 incl. maybe, exhaustive to 3/4 nodes, typed shapes, GLib-confirmed vectors, "
             "containers crossing the 255/65535 framing-offset thresholds) x values x {LE,BE} x offsets: library bytes "
             "compared with the reference normal-form serialiser (dict order taken from the library's Dict iteration, fd "
             "index allocation free); values touching a listed deviation are reported under it AND (for the two type-level deviations) compared byte-for-byte with the reference "
             "serialiser switched to a model of exactly those deviations, so that any other difference still shows; the zero-length deviation is recognised by its exact shape; all others judged strictly; "
             "distinct = distinct (signature, endian, offset mod 8)"),
    "gates": {"quick": {"evaluations": 30000, "distinct": 3000, "passed_trigger_free": 500, "judged_against_deviation_model": 300},
              "thorough": {"evaluations": 300000, "distinct": 10000, "passed_trigger_free": 5000}},
    "assumptions": ["reference serialiser vref::gv (unit-tested against GLib-produced vectors, DESIGN.md A.9)"],
}

PROPS["C06"] = {
    "level": "exploration",
    "plan": zv_plan(["", "gvariant"], ["", "gvariant"], ("release",)),
    "rule": ("EVERY string over the 21-symbol alphabet ybnqiuxtdsgovha(){}mz up to length 6 (quick; 7 thorough) plus boundary "
             "families (254..300 bytes, 31..40 nested arrays/structs, every non-basic dict key), 6000 (300000 thorough) nesting chains of 0/3/30..34 arrays and 0/3/30..34 structs "
             "(and maybes in GVariant builds) in random order where each array may be a dict continuing in its value and each struct carries the nesting in its first/last/only field, and grammar-directed random "
             "long signatures with single-symbol mutations; accept/reject compared with the reference recogniser, and for "
             "accepted strings formatting, string_len, ==str, and Eq/Hash/Ord across parsed/dynamic/static representations; "
             "distinct = distinct accepted strings"),
    "gates": {"quick": {"evaluations": 1000000, "distinct": 10000, "nesting_chains": 5000, "nesting_chains_beyond_a_limit": 1500, "nesting_chains_through_dict_values": 800},
              "thorough": {"evaluations": 50000000, "distinct": 100000}},
    "exhaustive_note": "all strings over the alphabet up to the length recorded in classes.exhaustive_max_len (count in classes.exhaustive_strings_total) were enumerated in every feature build",
    "assumptions": ["reference recogniser vref::sig (checked against libdbus dbus_signature_validate vectors, DESIGN.md A.9)"],
}

PROPS["C03"] = {
    "level": "exploration",
    "plan": zv_plan(["", "option-as-array"], ["", "option-as-array"], ("release", "miri")),
    "rule": ("reference-marshalled valid encodings of generated signatures/values, 1-2 stacked structure-aware mutations of them "
             "(each padding byte, length field, terminator, bool word, signature byte, string byte, fd index; truncation, flips, "
             "splices), random bytes and hand-made invalid vectors, decoded by the library (dynamic targets and 44+8 typed "
             "shapes) and by the validating reference unmarshaller: accept<=>accept, equal value, equal consumed length; "
             "distinct = distinct (signature, input kind, verdict class)"),
    "gates": {"quick": {"evaluations": 100000, "distinct": 3000, "class:both-accept": 20000, "class:both-reject": 20000},
              "thorough": {"evaluations": 5000000, "distinct": 50000}},
    "assumptions": ["reference unmarshaller vref::dbus enforces exactly the rejection causes the property lists (plus truncation)",
                    "value equality is not judged for dicts whose wire form repeats a key; fd indices are checked against the 2 supplied fds"],
}

PROPS["C04"] = {
    "level": "exploration",
    "plan": zv_plan(["", "gvariant,option-as-array"], FEATS4, ("release", "asan", "miri")),
    "rule": ("hostile inputs (1-2 stacked structure-aware or byte-level mutations of valid D-Bus/GVariant encodings, random bytes, "
             "hand-made vectors: huge length prefixes, variant chains up to 2,000,000 levels deep (6 MB; 100,000 under Miri), 255-byte signatures, maybe signatures in D-Bus "
             "data, out-of-range/backward GVariant offsets) decoded as dynamic and typed targets in every format of the feature "
             "build, under catch_unwind + shard journal (process death) + counting-allocator bound 512*(input+sig)+1MiB; every "
             "decoded value is re-encoded; distinct = distinct (signature, format, input kind)"),
    "gates": {"quick": {"evaluations": 200000, "distinct": 5000, "class:decoded": 20000, "class:reencoded": 20000},
              "thorough": {"evaluations": 10000000, "distinct": 100000}},
    "assumptions": ["the allocation bound is deliberately loose (a legitimate ay -> Vec<Value> expansion is ~100x)",
                    "quick tier runs the no-feature and gvariant+option-as-array builds; thorough all four"],
}

PROPS["C07"] = {
    "level": "exploration",
    "plan": zv_plan(["gvariant"], ["", "gvariant"], ("release",)),
    "rule": ("values built as chains of a arrays/dicts, s structures and v variants (boundary band of {0,1,2,30..34,40} x "
             "{0..2,29..35,60..66} in quick, the full 41^3 grid in thorough) in grouped/round-robin/shuffled orders, some with two deep "
             "siblings in one struct (depth must not leak), encoded by the library and decoded from reference-serialised bytes in "
             "both formats; outcome compared with the arithmetic on the three limits; distinct = distinct (a, s, v, format)"),
    "gates": {"quick": {"evaluations": 5000, "distinct": 1000, "class:within-limits": 500, "class:beyond-limits": 500},
              "thorough": {"evaluations": 200000, "distinct": 50000}},
    "assumptions": ["an excess inside one variant-delimited signature may be reported as an invalid signature (C06) instead of MaxDepthExceeded; counted separately",
                    "dicts count as arrays, dict entries are not counted as structures (as the property states the limits)"],
}

PROPS["C08"] = {
    "level": "exploration",
    "plan": zv_plan(["gvariant"], ["", "gvariant"], ("release", "miri")),
    "rule": ("triples of nested Values generated to be equal / one-leaf-different / unrelated (incl. signed zeros, NaNs, fds, maybe) "
             "checked against reflexivity, symmetry, transitivity, cmp antisymmetry/transitivity, cmp==Equal<=>==, partial_cmp==cmp, "
             "equal=>equal hash, try_clone/try_to_owned/OwnedValue preserving == and signature, value_signature == signature on the "
             "wire, and == agreeing with a structural model; plus std-type -> Value -> std-type conversions; distinct = distinct "
             "(signature triple, equality pattern)"),
    "gates": {"quick": {"evaluations": 50000, "distinct": 5000, "class:equal-pair": 20000, "class:unequal-pair": 20000, "conversion_checks": 5000},
              "thorough": {"evaluations": 5000000, "distinct": 100000}},
    "assumptions": ["values containing NaN are a listed deviation: their law failures are reported under it, all NaN-free values are judged strictly"],
}


def zb_plan(thorough_layers=(), miri_scale=0.002, quick_scale=1.0, tsan_only=None):
    def plan(tier):
        steps = [{"engine": "zb", "features": "", "layer": "monitor", "scale": quick_scale if tier == "quick" else 1.0}]
        if tier == "thorough":
            for layer in thorough_layers:
                st = {"engine": "zb", "features": "", "layer": layer}
                if layer == "miri":
                    st["scale"] = miri_scale
                    st["args"] = ["--tier", "quick"]
                elif layer in ("asan", "tsan"):
                    st["scale"] = 0.3
                    st["args"] = ["--tier", "quick"]
                    if layer == "tsan" and tsan_only:
                        # ThreadSanitizer is only worth its build where real threads run: just that class
                        st["scale"] = 1.0
                        st["args"] += ["--x-only", tsan_only]
                elif layer == "valgrind":
                    # ~25x slower: only the real-socket classes (libc sendmsg/recvmsg with ancillary data), 4 shards
                    st["scale"] = 0.5
                    st["nshards"] = 8
                    st["args"] = ["--tier", "quick", "--x-only", "real-socket"]
                elif layer == "release":
                    st["scale"] = 0.5
                steps.append(st)
        return steps
    return plan


PROPS["C10"] = {
    "level": "exploration",
    "plan": zb_plan(("release", "miri")),
    "rule": ("EVERY string over the 10-symbol alphabet {a Z 0 _ - . : / e-acute NUL} up to length 5 (quick; 7 thorough) plus 254..257-byte "
             "constructions, UUID-shaped GUIDs, and every ASCII byte (plus one two-byte character) substituted for and inserted before every "
             "position of one valid specimen per type (all construction paths), for the 9 validated string types, through TryFrom<&str>, "
             "TryFrom<String>, and (sampled) from_static_str, TryFrom<Value> and serde Deserialize from D-Bus bytes; accept/reject compared with the reference "
             "recognisers; distinct = distinct strings"),
    "gates": {"quick": {"evaluations": 500000, "distinct": 100000, "substituted_specimens": 15000}, "thorough": {"evaluations": 50000000, "distinct": 10000000, "substituted_specimens": 15000}},
    "exhaustive_note": "all strings over the alphabet up to classes.exhaustive_max_len were enumerated (count in classes.exhaustive_strings_total)",
    "assumptions": ["UniqueName additionally accepts the literal org.freedesktop.DBus (documented special case)",
                    "property names: any 1..255-byte string (the specification gives no grammar; this is what the library documents)"],
}

PROPS["C11"] = {
    "level": "exploration",
    "plan": zb_plan(("release", "miri")),
    "rule": ("random messages (4 types x random optional-field subsets x all valid flag subsets x {LE,BE} x bodies of 0..4 generated "
             "arguments incl. fds) built with message::Builder, a quarter of them starting from Builder::from(header) of a donor message with another body and two fds; the bytes are parsed by the independent reference message parser "
             "(layout, field types, zero padding, 8-aligned body, declared lengths, body bytes == reference marshalling) and "
             "re-parsed by the library (every header accessor, body signature and value); distinct = distinct (type, flags, "
             "field set, endian, body signature)"),
    "gates": {"quick": {"evaluations": 15000, "distinct": 5000, "class:rebuilt-from-a-header": 3000}, "thorough": {"evaluations": 1000000, "distinct": 100000}},
    "assumptions": ["a body that is one struct argument cannot be told from several arguments through the library's Signature (documented outer parentheses); both spellings accepted there"],
}

PROPS["C12"] = {
    "level": "exploration",
    "plan": zb_plan(("release", "asan", "miri")),
    "rule": ("hostile message bytes (every truncation of a valid message, 0..15-byte inputs, 1-2 stacked structure-aware mutations, header-byte "
             "edits of endian/type/flags/version/lengths/serial, field retyping, invalid names in header fields, random bytes) given to "
             "Message::from_bytes in both endian contexts; on success every accessor, body(), body().deserialize::<Structure>(), Display, "
             "Debug and MatchRule::matches with argN rules are exercised under catch_unwind + journal + allocation bound; distinct = "
             "distinct (input kind, body signature, type)"),
    "gates": {"quick": {"evaluations": 200000, "distinct": 5000, "class:accepted": 20000, "class:rejected": 50000},
              "thorough": {"evaluations": 10000000, "distinct": 100000}},
    "assumptions": [],
}

PROPS["C13"] = {
    "level": "exploration",
    "plan": zb_plan(("release",)),
    "rule": ("valid messages carrying each unknown header field code 10..255 (rotating over 10 payload types; all pairs in thorough, at "
             "varying array positions), each unknown flag bit (alone and with known ones), all 248 flag bytes with an unknown bit, each unknown message type: parsed with "
             "Message::from_bytes (known fields and body must be intact, the known flags of the byte must read back as sent) and placed between normal messages on a scripted connection "
             "with random read cuts (all normal messages must still be delivered in order, no error before EOF); distinct = distinct "
             "(kind, code) x schedule"),
    "gates": {"quick": {"evaluations": 800, "distinct": 500, "known_flag_readbacks": 500}, "thorough": {"evaluations": 5000, "distinct": 2000}},
    "exhaustive_note": "every unknown field code, flag bit and (thorough) message type value is covered at least once",
    "assumptions": ["whether an unknown-type message itself surfaces as a stream item is not judged"],
}

PROPS["C14"] = {
    "level": "exploration",
    "plan": zb_plan(("release", "asan", "valgrind", "miri")),
    "rule": ("reference-marshalled message sequences (1..12 messages, 16 B..70 KiB, both endians, 0..3 fds) delivered through the scripted "
             "transport: ALL single cuts and all pairs of cuts (first 100 offsets in quick) of a 3-message stream, 1-byte reads, "
             "fixed-size and random cut plans incl. cuts around the 16-byte header, under 5 scheduler biases; received == sent "
             "(bytes, fd identity by (dev,ino), order, increasing recv_position, end after EOF); EVERY handshake-leftover length 0..len(m1)+len(m2)+20 of such a stream behind a real client handshake (x3 chunkings); "
             "160 streams over a REAL socketpair (raw peer thread: SASL, sendmsg in random pieces with SCM_RIGHTS; the library's libc recvmsg path and "
             "executor thread; fd census afterwards); "
             "headers declaring > 128 MiB must produce an error at quiescence without a large allocation; distinct = distinct schedule fingerprints"),
    "gates": {"quick": {"evaluations": 5000, "distinct": 1000, "class:real-socketpair": 140, "real_socket_messages": 500, "class:handshake-leftover": 200, "class:leftover-inside-first-fixed-header": 40, "leftover_lengths_enumerated": 50},
              "thorough": {"evaluations": 60000, "distinct": 10000}},
    "assumptions": ["the scripted transport cuts before every fd-carrying message as the kernel does and hands fds to the read that consumes the message's first byte; how many bytes each recvmsg asks for is not judged",
                    "handshake leftovers: every leftover length of a 3-message stream here; random leftovers with several fd-carrying messages under C17"],
}

PROPS["C15"] = {
    "level": "exploration",
    "plan": zb_plan(("release", "tsan", "miri"), miri_scale=0.0),
    "rule": ("storms of 2/4/8/16 OS threads x 6000 (20000 thorough) message builds through three construction paths sharing the "
             "process-wide counter, half of them started (through the cfg(zbus_verif) hook) shortly before the 32-bit wrap so that it "
             "happens mid-storm, plus the exact single-thread boundary sequence, plus a zero-crossing hammer (3-4 persistent threads in each of two shards released together by a two-stage spin "
             "gate, each taking 3 serials, with the counter set to 0, MAX or just below it, so that the skip-zero step runs under contention; "
             "adaptive: batches of 10000 rounds until >= 30000 rounds (400000 thorough) AND >= 4000 (40000) rounds with interleaved threads per shard were "
             "observed, caps 6e6 rounds / 600 s (12e6 / 1800 s)); all serials non-zero, pairwise distinct, and the "
             "multiset exactly the contiguous range from the starting counter value skipping zero; distinct = distinct (storm shape, "
             "number of adjacent serials owned by different threads)"),
    "gates": {"quick": {"evaluations": 25, "serials_observed": 500000, "interleaving_switches": 10000, "distinct": 10,
                        "zero_crossings_under_contention": 50000, "hammer_rounds_with_interleaved_threads": 5000},
              "thorough": {"evaluations": 300, "serials_observed": 20000000, "distinct": 100}},
    "assumptions": ["real OS threads: interleavings are whatever the machine produces (contention measured and reported); TSan layer in thorough"],
}

PROPS["C16"] = {
    "level": "exploration",
    "plan": zb_plan(("release", "miri")),
    "rule": ("EVERY client line sequence of length <= 3 (4 thorough) over 24 line templates (AUTH with none/EXTERNAL/ANONYMOUS/unknown "
             "mechanism and matching/other/non-numeric/non-UTF-8/empty/bad-hex identities, DATA variants, BEGIN, CANCEL, ERROR, NEGOTIATE_UNIX_FD, "
             "unknown, empty, non-UTF-8, lowercase) x {EXTERNAL creds known, EXTERNAL creds unknown, ANONYMOUS x2} with whole/1-byte/"
             "random read splits and partial writes, random sequences to length 12, and malformed framings (LF first, missing NUL, bare "
             "CR/LF, 100 kB line); the real server handshake's outcome and reply lines are compared with the reference SASL server "
             "model (soundness and conformance kept as separate finding classes); distinct = distinct (sequence, config) x schedule"),
    "gates": {"quick": {"evaluations": 30000, "distinct": 20000, "class:lib-authenticated": 200, "class:model-authenticated": 200},
              "thorough": {"evaluations": 700000, "distinct": 400000}},
    "exhaustive_note": "all sequences up to classes.exhaustive_max_len over the 24 templates x 4 configurations (classes.exhaustive_sequences_total)",
    "assumptions": ["AUTH without initial response is answered with DATA (standard SASL challenge) for both mechanisms",
                    "a misplaced BEGIN may be answered with ERROR or a disconnect; malformed hex with ERROR or REJECTED"],
}

PROPS["C17"] = {
    "level": "exploration",
    "plan": zb_plan(("release", "miri")),
    "rule": ("EVERY server reply sequence of length <= 2 (3 thorough) over 15 templates (OK with valid/upper-case/31-/33-hex/hyphenated/"
             "non-hex/missing GUID, REJECTED, ERROR, DATA, AGREE_UNIX_FD, unknown, non-UTF-8, empty, BEGIN) x fd-capable or not x "
             "read splits, plus random leftover scenarios behind a proper handshake (0..6 trailing messages with 0..2 fds each, merged "
             "into the last handshake read the way the kernel batches them, that read often ending INSIDE a message or its 16-byte header); success => first reply was a proper OK, proper "
             "server => success, fd capability (observed by sending an fd) <=> AGREE_UNIX_FD, trailing messages and fds delivered "
             "intact and in order; distinct = distinct (script, fd pattern) x schedule"),
    "gates": {"quick": {"evaluations": 3000, "distinct": 1000, "class:leftover-random": 2000, "leftover_messages_sent": 5000,
                        "class:leftover-ends-inside-a-message": 300, "class:leftover-ends-inside-fixed-header": 100, "class:expected-guid": 180},
              "thorough": {"evaluations": 200000, "distinct": 50000}},
    "assumptions": ["the expected-GUID clause needs an address with a guid= key, hence a real listening socket: 200 cases per quick run connect through unix:path=..,guid=.. to a raw server thread that answers OK with the same / another valid / an invalid GUID (120 s wall-clock guard = INCONCLUSIVE)",
                    "the property only constrains success (necessary condition); extra lenience such as a second OK is not judged"],
}

PROPS["C18"] = {
    "level": "exploration",
    "plan": zb_plan(("release", "asan", "tsan", "valgrind", "miri")),
    "rule": ("2..12 harness tasks each sending 1..6 library-built messages (unique (sender, seq) bodies, 0..9 kB padding, 0..2 fds) on one "
             "connection whose scripted write half accepts 1/3/7/16/64/4096/all bytes per call and stalls 0/20/50/80% of calls, under 4 "
             "scheduler biases; the captured (bytes, fds) call sequence is framed by the reference parser: every frame is a sent message, "
             "each sent message appears once, per-sender order holds, fds are passed with the call carrying offset 0 and no other; "
             "distinct = distinct schedule fingerprints; class other-sender-polled-mid-message must be observed; plus 140 cases over a REAL "
             "socketpair with 2..8 OS threads sending through one connection whose socket has a 2-16 kB send buffer (kernel partial writes), a raw peer "
             "thread recording every recvmsg: same framing/once/order oracle, and each fd group must arrive with the read covering its message's first byte"),
    "gates": {"quick": {"evaluations": 3000, "distinct": 2500, "class:other-sender-polled-mid-message": 500, "messages_checked": 20000,
                        "class:real-socketpair-threads": 120, "real_reads_starting_inside_a_message": 200},
              "thorough": {"evaluations": 150000, "distinct": 100000}},
    "assumptions": ["senders are never cancelled in the middle of a partial write (a dropped send future leaves half a message on the wire: observation in DESIGN.md, outside the property)"],
}

PROPS["C19"] = {
    "level": "exploration",
    "plan": zb_plan(("release", "tsan", "miri"), tsan_only="real-daemon"),
    "rule": ("1..24 concurrent callers (call_method and Proxy::call_noreply) against a scripted peer that answers in PRNG order with returns, "
             "errors, never-answered calls, stray replies for unknown serials, duplicate replies for answered serials and interleaved "
             "signals, in random read chunks, under 5 scheduler biases (incl. reply fully processed before the caller is polled again); "
             "some fully-sent callers are cancelled; finally the transport fails (EOF or reset); call table oracle: reply serial and body "
             "are the ones the peer produced for that call, no-reply calls finish without inbound traffic, unanswered calls stay pending "
             "until the failure and then fail; plus a real-time class with Builder::method_timeout (answered / late / never answered calls); plus class real-daemon (not under Miri): 200 (6000 thorough) "
             "histories in which 2..8 OS threads of one connection make 10..40 (20..100) calls each, all at once, to an echo service (the library's own object server on a second connection, "
             "handlers delayed by 0..1 ms so that replies overtake each other, a quarter of the calls answered with an error) through a PRIVATE dbus-daemon 1.14; every caller must get the number "
             "of its own call back; distinct = distinct schedule fingerprints"),
    "gates": {"quick": {"evaluations": 2500, "distinct": 2000, "class:reply-processed-before-caller-polled": 1000, "class:out-of-order-replies": 500,
                        "class:stray-replies": 1000, "class:cancelled": 100, "class:failed-on-transport-error": 300, "class:no-reply-expected": 300,
                        "class:method-timeout": 100, "class:timed-out-call": 150, "class:real-daemon": 190, "real_calls_checked": 15000},
              "thorough": {"evaluations": 120000, "distinct": 100000}},
    "assumptions": ["the method-timeout class (120 cases per quick run, timeouts of 40/60/100 ms) runs in real time: scheduler steps alternate with 3 ms sleeps; a timed-out call must not complete before the timeout and must complete within 300x the timeout"],
}

PROPS["C20"] = {
    "level": "exploration",
    "plan": zb_plan(("release", "tsan", "miri"), tsan_only="real-daemon"),
    "rule": ("histories of 3..8 rounds separated by quiescence; in each round stream creations (5 rules incl. equal and overlapping ones, "
             "queue capacities 1/2/3/64), drops (sync Drop, async_drop, clone-then-drop-original) race with 0..6 labelled incoming signals "
             "under 5 scheduler biases; a stream live through a whole round must receive exactly the matching messages of that round in "
             "order, messages of its creation/drop round are optional, anything else forbidden; at every quiescent point the "
             "cfg(zbus_verif) snapshot must show refcount(rule) == live handles; "
             "class real-daemon (not under Miri): 280 (8000 thorough) bursts of 20..140 (420) numbered broadcast signals from a second connection through a PRIVATE "
             "dbus-daemon 1.14 into 2..5 streams of one connection (4 rules, clones, queue capacities 1/2/64/default), each consumed on its own OS thread (a third of them "
             "slowly), while another thread creates and drops unrelated streams on the same connection; every burst ends with a signal all rules admit, and what came out "
             "of each stream before it must be exactly the admitted numbers in order; distinct = distinct (ops, schedule)"),
    "gates": {"quick": {"evaluations": 2500, "distinct": 2000, "streams_checked": 10000, "messages_sent": 20000, "class:history-with-clone": 200,
                        "class:real-daemon": 270, "real_streams_checked": 800, "real_signals_sent": 15000, "real_churn_streams": 3000},
              "thorough": {"evaluations": 120000, "distinct": 100000}},
    "assumptions": ["messages are labelled by construction; the matching predicate of the 5 rules is the harness's own (C21 judges the library matcher)"],
}

PROPS["C21"] = {
    "level": "exploration",
    "plan": zb_plan(("release", "miri")),
    "rule": ("random rules built through MatchRule::builder over all keys (type, unique/well-known sender, interface, member, path xor "
             "path_namespace, destination, argN, argNpath, arg0namespace) paired with messages derived from the rule as exact hits and "
             "near misses (sibling/parent/child/root paths, retyped/missing/changed args, string vs object-path args with trailing-slash "
             "prefixes, dropped destination/sender/interface, other type/member/destination), plus the specification's own examples; "
             "MatchRule::matches compared with the reference predicate (well-known names: undecidable, not judged); distinct = distinct "
             "(rule, near-miss kind, expected verdict)"),
    "gates": {"quick": {"evaluations": 150000, "distinct": 50000, "class:expected-match": 50000, "class:expected-no-match": 30000},
              "thorough": {"evaluations": 8000000, "distinct": 1000000}},
    "assumptions": ["rules whose sender is a well-known name (incl. org.freedesktop.DBus) or messages whose destination is one are the documented exception"],
}

PROPS["C22"] = {
    "level": "exploration",
    "plan": zb_plan(("release", "miri")),
    "rule": ("random rules over all keys with argN values over printable ASCII incl. apostrophe, comma, backslash, '=', empty and "
             "non-ASCII text, arg indices 0..63: the library's string form must parse under the specification-conformant reference "
             "parser to the same rule, re-parse with the library to an equal rule, be stable under print.parse, equal the serialised "
             "(AddMatch) form; reference-grammar strings the library accepts must denote the same rule; distinct = distinct strings"),
    "gates": {"quick": {"evaluations": 150000, "distinct": 50000, "class:apostrophe-in-value": 5000, "class:comma-in-value": 3000},
              "thorough": {"evaluations": 8000000, "distinct": 1000000}},
    "assumptions": ["the empty rule and rules with a trailing-slash argNpath value (not constructible, see C21) are not judged"],
}

PROPS["C23"] = {
    "level": "exploration",
    "plan": zb_plan(("release", "miri")),
    "rule": ("random Address values (unix path/abstract/dir/tmpdir, unixexec with 0..3 and 8..25 (and 101) arguments, tcp with family, nonce-tcp, optional guid) "
             "with values over all byte values 1..255: format then parse must give an equal address and a stable string; random "
             "reference-grammar strings (optionally-escaped characters escaped or not, upper/lower hex) must parse to the "
             "percent-decoded bytes; malformed escapes must be rejected; distinct = distinct address strings"),
    "gates": {"quick": {"evaluations": 300000, "distinct": 100000, "class:value-with-escapes": 50000},
              "thorough": {"evaluations": 15000000, "distinct": 3000000}},
    "assumptions": ["tcp bind= is documented as unsupported by the parser and is not generated; vsock is not compiled in this build"],
}

PROPS["C31"] = {
    "level": "exploration",
    "plan": zb_plan(("release", "miri")),
    "rule": ("a proxy (unique or well-known destination; cache primed by build() or lazily) with one uncached property, against a scripted service "
             "that owns the truth about 4 properties: 0..2 PropertiesChanged signals emitted as soon as the proxy's match rule is registered "
             "(before its GetAll call exists), 0..3 between the call and the reply, the reply (the service's state at that moment), 0..6 "
             "right behind it in the same burst (changed values, invalidations, other interface, uncached name, look-alikes from a "
             "stranger), arbitrary read chunking, 6 scheduler biases; at quiescence cached_property of every property must equal "
             "what the messages imply in receive order; get_property must return the cached value without asking, or ask the service "
             "exactly when nothing is cached; 0..2 later rounds; a receive_property_changed consumer must end with the service's "
             "latest value; distinct = distinct (history, schedule)"),
    "gates": {"quick": {"evaluations": 2800, "distinct": 2500, "cached_values_checked": 20000, "get_property_checked": 10000, "events_around_the_reply": 10000,
                        "property_streams_checked": 2000, "class:stream-saw-updates": 800, "class:update-in-the-same-read-as-the-reply": 500, "class:lazy-cache": 500},
              "thorough": {"evaluations": 110000, "distinct": 100000}},
    "assumptions": ["the scripted service is consistent: its GetAll/Get replies carry its state at the moment it answers, as a real service's do",
                    "signals that arrive before the GetAll reply are superseded by it (they are older than the snapshot)"],
}

PROPS["C32"] = {
    "level": "exploration",
    "plan": zb_plan(("release", "miri")),
    "rule": ("a proxy signal stream (one member or all) for a well-known name against the scripted bus, which owns the truth about the name's "
             "owner: the GetNameOwner reply is held back while 0..3 events are routed before it and 0..3 right behind it (same burst), "
             "then 2..6 (3..10 thorough) rounds of 1..6 events at quiescent points: matching and near-miss signals from the owner "
             "(broadcast, routed by the REGISTERED rules), from former owners and strangers (unicast to the connection), driver "
             "NameOwnerChanged (incl. to nobody and back), forged NameOwnerChanged from peers, driver signals for other names; a third "
             "of the histories add a type='signal' subscriber; after creation every round's yield must equal exactly the matching "
             "signals whose sender owned the name when the bus routed them; distinct = distinct (history, schedule)"),
    "gates": {"quick": {"evaluations": 2800, "distinct": 2500, "rounds_checked": 9000, "signals_sent": 15000, "signals_expected": 4000,
                        "ownership_changes": 3000, "forged_ownership_claims": 3000, "class:events-around-the-owner-lookup": 1500},
              "thorough": {"evaluations": 110000, "distinct": 100000}},
    "assumptions": ["signals routed while the stream is still being created may or may not be yielded (the stream does not exist yet); they must at least be ones that were sent",
                    "the scripted bus is consistent: its GetNameOwner reply reflects the owner at the moment it answers"],
}

PROPS["C34"] = {
    "level": "exploration",
    "plan": zb_plan(("release", "miri")),
    "rule": ("random introspection trees (depth <= 4, valid names, generated type signatures, optional arg names/directions, annotations "
             "with XML-special and non-ASCII text, some documents with > 4096 elements) rendered to XML by the harness, read with "
             "Node::try_from/from_reader (accessors must equal the tree), written with to_writer and read back (must equal the first "
             "Node); distinct = distinct documents"),
    "gates": {"quick": {"evaluations": 3500, "distinct": 3000, "class:over-4096-elements": 20},
              "thorough": {"evaluations": 150000, "distinct": 100000}},
    "assumptions": ["the name of the root element written by to_writer is not judged (the property is about the value round trip)"],
}

PROPS["C24"] = {
    "level": "exploration",
    "plan": zb_plan(("release", "asan")),
    "rule": ("EVERY history of length <= 2 (3 thorough) over 30 operations (at/remove x 5 paths {/, /a, /a/b, /a/b/c, /d} x 3 interface "
             "types) with the lookup view compared with the object-tree model after every step and the call-over-the-wire and "
             "introspection-walk views after the last; random histories of 30..70 (200 thorough) operations with all three views every "
             "5 steps; duplicate registration refused (first instance stays, observed through a per-instance tag), removing an absent "
             "interface fails, no panic; distinct = distinct histories"),
    "gates": {"quick": {"evaluations": 1200, "distinct": 1200, "wire_view_checks": 3000},
              "thorough": {"evaluations": 40000, "distinct": 40000}},
    "exhaustive_note": "all histories up to classes.exhaustive_max_len over the 30 operations (classes.exhaustive_histories_total)",
    "assumptions": ["empty intermediate nodes and the boolean 'object destroyed' result of remove are not judged; background tasks are settled after each operation (lazy start is C30's subject)"],
}

PROPS["C25"] = {
    "level": "exploration",
    "plan": zb_plan(("release", "asan")),
    "rule": ("histories of 6..20 (10..40 thorough) rounds over 4 tree configurations (one manager, sibling managers, nested managers, "
             "manager at the root): each round runs 1 operation, or 2..4 concurrently under 5 scheduler biases, out of at/remove of 3 "
             "interface types (0, 1 and 2 properties) at paths inside, at and outside the managers, duplicate and absent-target "
             "operations, adding/removing the ObjectManager itself, and property value changes; a raw client keeps one mirror per "
             "manager (first listing + InterfacesAdded/Removed in wire order) that must equal a fresh GetManagedObjects listing after "
             "every round (paths without interfaces ignored); in racing rounds an extra late-joining client's listing call races "
             "with the operations (reply position in the wire order decides which signals it applies); properties carried by "
             "InterfacesAdded and by listings must equal the interfaces' current values; distinct = distinct (history, schedule)"),
    "gates": {"quick": {"evaluations": 1200, "distinct": 1000, "mirror_comparisons": 8000, "late_joiner_comparisons": 2000, "manager_signals_seen": 8000,
                        "added_signal_property_sets_checked": 5000, "class:config-nested": 150, "class:config-siblings": 150},
              "thorough": {"evaluations": 50000, "distinct": 40000}},
    "assumptions": ["for nested managers both readings of the outer manager's scope (whole subtree / up to the inner manager) are accepted for the listing-vs-registered-set comparison; the mirror-vs-listing comparison has no such latitude",
                    "a mirror's stored property values are not compared with later listings (property changes travel by PropertiesChanged, C28); properties are judged where they are reported"],
}

PROPS["C29"] = {
    "level": "exploration",
    "plan": zb_plan(("release", "miri")),
    "rule": ("bursts of 2..8 (11 thorough) calls (async &self / &mut self handlers that log start, yield 0..4 times, park on a harness gate, "
             "yield, log end; plus non-waiting handlers; some with the no-reply flag) to two instances of an interface registered with "
             "spawn = false and to a spawning interface, delivered in arbitrary read chunks under 6 scheduler biases, with the gates "
             "opened in reversed / random / first-call-last order, some before the calls arrive; in a quarter of the bursts the application holds the sequential "
             "interface exclusively (InterfaceRef::get_mut) while the burst arrives and releases it at a random point of the gate order; at quiescence the no-spawn log must be "
             "start(1) end(1) start(2) end(2).. in arrival order and every call must have exactly one reply (none with no-reply); "
             "head-of-line cases keep the first call parked with all other gates open: nothing else may start; distinct = distinct "
             "(gate order, schedule)"),
    "gates": {"quick": {"evaluations": 3500, "distinct": 2500, "sequential_calls_checked": 10000, "class:burst-with-2+-sequential-calls": 1500,
                        "class:spawned-handlers-overlapped": 100, "class:head-of-line-parked": 600, "class:interface-held-exclusively-by-the-application": 500},
              "thorough": {"evaluations": 150000, "distinct": 100000}},
    "assumptions": ["handler start/end are logged by the handlers themselves; arrival order is the order of the calls in the byte stream the scripted peer sent"],
}

PROPS["C30"] = {
    "level": "exploration",
    "plan": zb_plan(("release",)),
    "rule": ("12 handler scenarios (method / &mut method / property getter / setter reached directly and through Properties.Get/Set/GetAll, "
             "each calling object_server.at / remove / interface or emitting a signal; bursts of them), registration under an "
             "ObjectManager of an interface whose getter uses the object server, and calls issued 0..3 scheduler steps after an "
             "on-demand ObjectServer::at() returned with 0..2 unrelated inbound messages already on the transport, under 4-5 scheduler "
             "biases; at quiescence every call must have exactly one reply and the server must still answer a follow-up call; distinct "
             "= distinct (scenario, schedule)"),
    "gates": {"quick": {"evaluations": 2500, "distinct": 200, "calls_checked": 2500},
              "thorough": {"evaluations": 120000, "distinct": 2000}},
    "assumptions": ["hang verdicts are taken at quiescence of the deterministic scheduler (no wall clock)"],
}

PROPS["C36"] = {
    "level": "exploration",
    "plan": zb_plan(("release", "tsan", "miri"), tsan_only="real-daemon"),
    "rule": ("histories of 5..30 (10..60 thorough) steps on a bus connection (full client handshake + Hello against the scripted bus) over 3 names: "
             "request_name_with_flags with all 8 flag subsets, release_name, the bus granting a queued name (NameAcquired, also right "
             "behind the InQueue reply), the bus replacing the connection as owner (NameLost, re-queued unless DoNotQueue), look-alike "
             "NameAcquired/NameLost sent by another peer straight to the connection, unrelated driver signals; the bus answers 1/2/3 by "
             "PRNG for names it does not hold for the connection and 4/2 for those it does; every request/release result is compared "
             "with what the bus holds at that moment, and a successful release must have reached the bus; 11 directed histories first; "
             "class real-daemon (not under Miri): 420 (12000 thorough) histories of 5..20 steps on a PRIVATE dbus-daemon 1.14 with a second library connection "
             "as the other process (requests with all flag subsets, releases), ground truth = the daemon's ListQueuedOwners read over an observer "
             "connection before and after every step, request answers must be the one consistent with (before, after), releases must be true iff held and leave nothing; "
             "distinct = distinct (history, schedule)"),
    "gates": {"quick": {"evaluations": 2500, "distinct": 2000, "requests_checked": 10000, "releases_checked": 6000, "class:forged-signal": 4000,
                        "class:driver-NameLost": 700, "class:driver-NameAcquired": 400, "class:request-answered-locally": 3000,
                        "class:real-daemon": 400, "real_requests_checked": 1200, "real_releases_checked": 700, "class:real-replaced-and-requeued": 40},
              "thorough": {"evaluations": 100000, "distinct": 80000}},
    "assumptions": ["the scripted bus follows dbus-daemon's rules: NameAcquired precedes the reply that grants a name, a replaced owner is re-queued unless it asked DoNotQueue, a repeated RequestName updates the remembered flags",
                    "operations are issued at quiescent points (results of requests racing with ownership signals are ambiguous and not generated)"],
}

PROPS["C37"] = {
    "level": "exploration",
    "plan": zb_plan(("release", "tsan", "miri"), tsan_only="real-daemon"),
    "rule": ("histories of 3..9 (5..16 thorough) rounds on a bus connection against the scripted bus: each round concurrently creates 0..3 handles "
             "(MessageStreams over 5 rules incl. one shared with a proxy signal stream, proxies to a unique and two well-known names with/"
             "without property cache, proxy signal streams) and drops ~1/3 of the live ones (sync Drop, async_drop, clone-then-drop-"
             "original), in a quarter of the histories with the bus refusing AddMatch in some rounds; at the quiescent point: no rule "
             "registered twice, no RemoveMatch of an unregistered rule, registered set == the connection's subscription table (cfg hook, "
             "no zero-count entries), the harness's rules registered exactly while a handle lives with count == handles, nothing "
             "registered once every handle is gone (always reached at the end); then the bus changes name owners and routes 0..6 signals "
             "according to the REGISTERED rules, and every live handle must receive exactly the signals it is entitled to; "
             "class real-daemon (not under Miri): 420 (12000 thorough) histories of 3..9 rounds on a PRIVATE dbus-daemon 1.14 (message streams over 4 rules, clones, "
             "proxies to a unique / an owned / an unowned well-known name each with 1 signal stream or 2 created concurrently, sync Drop and async_drop, and in a quarter of the rounds "
             "a burst of 2-4 OS threads creating and dropping streams over the same two rules in parallel), "
             "ground truth = the daemon's own Debug.Stats.GetAllMatchRules for the connection read over an observer connection: it must converge (polled, 45 s "
             "allowance) to the connection's subscription table with no rule twice, live stream rules present with count == independently created live streams, "
             "rules of dropped streams gone, nothing left once every handle is gone; distinct = distinct (ops, schedule)"),
    "gates": {"quick": {"evaluations": 2400, "distinct": 2000, "quiescent_points_checked": 12000, "add_match_calls": 8000, "remove_match_calls": 8000,
                        "live_handle_rounds_checked": 25000, "signals_expected_at_handles": 10000, "class:handle-signal-stream": 2000, "class:point-with-no-handles": 2500,
                        "class:real-daemon": 400, "real_quiescent_points_checked": 2000, "real_signal_streams_created": 1500, "real_streams_created": 1000,
                        "class:real-point-with-no-handles": 400, "real_parallel_bursts": 300},
              "thorough": {"evaluations": 100000, "distinct": 80000}},
    "assumptions": ["the scripted bus compares rules as parsed values (reference parser) and resolves well-known sender names with its owner table, as dbus-daemon does",
                    "creations and drops of a round run concurrently; signals are sent at quiescent points (delivery racing with subscription changes is C20's subject)"],
}

PROPS["C38"] = {
    "level": "fault_enumeration",
    "plan": zb_plan(("release", "asan")),
    "rule": ("one scripted p2p session (three pending calls with a filtered and an unfiltered MessageStream open; the peer's scripted "
             "inbound stream carries signals, the reply to call 1, more signals, the reply to call 2, trailing signals; call 3 is "
             "never answered) is dry-run once to learn the inbound byte count B and the number W of write calls; then the fault "
             "{EOF, I/O error} is injected at EVERY inbound byte offset 0..=B and {error, error-after-partial-write} at EVERY write "
             "call 0..W, each under several scheduler seeds/biases; at quiescence: no call or send is still pending, calls whose "
             "reply was completely received succeed and all others fail, each stream yields exactly the completely received "
             "messages that match it and then ends, a later call and a later subscription fail (do not hang), no panic; distinct = "
             "distinct (fault, schedule fingerprint) plus class backlog-at-failure: 1400 (40000 thorough) cases in which a stream of capacity 1/2/3/5/8 is not polled until after an EOF or reset and holds capacity-1 / capacity / capacity+1 received messages: all of them must come out in order before the error or the end"),
    "gates": {"quick": {"evaluations": 1500, "distinct": 1200, "class:mid-fixed-header": 300, "class:mid-header-fields": 800, "class:mid-body": 500, "class:between-messages": 20, "class:after-last-message": 2, "class:write-call": 150, "fault_positions_total": 1000,
                        "class:backlog-at-failure": 1300, "class:backlog-exactly-full": 500},
              "thorough": {"evaluations": 10000, "distinct": 8000}},
    "exhaustive_note": "every inbound byte offset (classes.inbound_bytes + 1 positions x {EOF, error}) and every write call of the scripted session (classes.fault_positions_total)",
    "assumptions": ["'promptly' is judged at quiescence of the deterministic scheduler (a task that is still pending when nothing can make progress is a hang); no wall clock",
                    "one session script; other message mixes are covered by C13/C14/C19 without faults"],
}

PROPS["C39"] = {
    "level": "exploration",
    "plan": zb_plan(("release", "asan")),
    "rule": ("drop cases: a p2p connection with a random set of outstanding handles (Connection clones, MessageStreams filtered or "
             "not, Proxies with and without property cache, SignalStreams, an ObjectServer with interfaces, pending inbound "
             "traffic) dropped in a random order interleaved with scheduler steps; the peer MUST see EOF at quiescence after the "
             "last one is dropped (an EOF seen earlier is counted in classes.eof_seen_before_last_drop, not judged: the property "
             "speaks about the last handle only). graceful-shutdown cases: 1 to 3 method handlers parked "
             "on harness gates, graceful_shutdown() started; it must not complete nor close the transport while a gate is closed; "
             "gates are opened one by one in random order; after the last it must complete, every in-flight call must have its "
             "reply on the wire, and the transport must be closed; distinct = distinct (handle set / order, schedule fingerprint)"),
    "gates": {"quick": {"evaluations": 2500, "distinct": 2000, "class:drop": 1500, "class:graceful-shutdown": 700, "handles_dropped": 6000},
              "thorough": {"evaluations": 100000, "distinct": 60000}},
    "assumptions": ["harness futures that can never finish because the scripted peer does not answer (cache-priming proxy builds) are cancelled before the verdict; they hold connection clones of their own",
                    "EOF is observed as the drop of both scripted socket halves"],
}


def gen_plan(engine, quick_count, thorough_count, thorough_variants, feats=("",), thorough_feats=None, thorough_layers=("release",)):
    """Plans for the generated-program engines: the quick tier builds one program set from VERIF_SEED, the thorough tier
    several larger ones (each is a separate generate + build + run step), plus the extra layers on the first."""
    def plan(tier):
        steps = []
        if tier == "quick":
            for f in feats:
                steps.append({"engine": engine, "features": f, "layer": "monitor", "gen": {"count": quick_count, "variant": 0}})
            return steps
        for f in (thorough_feats or feats):
            for v in range(thorough_variants):
                steps.append({"engine": engine, "features": f, "layer": "monitor", "gen": {"count": thorough_count, "variant": 1 + v}, "scale": 0.5})
        for layer in thorough_layers:
            st = {"engine": engine, "features": feats[0], "layer": layer, "gen": {"count": quick_count, "variant": 0}}
            if layer in ("asan", "miri"):
                st["scale"] = 0.004 if layer == "miri" else 0.3
                st["args"] = ["--tier", "quick"]
            else:
                st["scale"] = 0.5
            steps.append(st)
        return steps
    return plan


PROPS["C09"] = {
    "level": "exploration",
    "plan": gen_plan("zt", 40, 160, 3, feats=("",), thorough_feats=("", "option-as-array"), thorough_layers=("release", "miri")),
    "rule": ("GENERATED type definitions (engines/gen/gen_types.py from VERIF_SEED: 40 per program in quick, 3+3 programs of 160 in thorough "
             "incl. an option-as-array build): named / tuple / newtype structs, unit enums (plain, #[repr] + serde_repr, string form), "
             "data-carrying enums (newtype, tuple and struct variants), dictionary structs (SerializeDict/DeserializeDict and "
             "as_value, Option fields, rename_all), fields drawn from std leaves (ints, f64, String, char, usize/isize, Duration, "
             "object paths), Vec/VecDeque/BTreeSet/HashMap/BTreeMap/tuples/arrays/Box/Arc and earlier generated types; every type "
             "is exercised alone and inside Vec<T>, (u8,T,u8), BTreeMap<String,T> and (unit enums) as a dict key: declared SIGNATURE "
             "== the generator's, the serialized bytes (LE, BE, 5 offsets) decode under the reference decoder with that signature "
             "to the generator's projection of the value, and the value round-trips; distinct = distinct (type expression, signature)"),
    "gates": {"quick": {"evaluations": 50000, "distinct": 120, "types_exercised": 150, "class:newtype": 1, "class:struct-variant-enum-in-array": 1,
                        "class:dict-struct-derive": 1, "class:repr-enum-as-dict-key": 1},
              "thorough": {"evaluations": 1000000, "distinct": 2000}},
    "assumptions": ["expected signatures and value projections follow serde's data model and the derive's documentation (newtype = inner type, unit enum = u32 index unless repr/string form, data enum = (u payload), dict struct = a{sv} with absent None fields)",
                    "GVariant is not exercised here (the property speaks about D-Bus signatures; C02/C05 cover the GVariant codec)"],
}

PROPS["C26"] = {
    "level": "exploration",
    "plan": gen_plan("zg", 12, 40, 3, thorough_layers=("release", "asan")),
    "rule": ("GENERATED interfaces (engines/gen/gen_ifaces.py from VERIF_SEED: 12 per program in quick, 3 programs of 40 in thorough; methods with "
             "0..4 inputs / 0..3 outputs over basic, array, dict, tuple, derived-struct and variant types, sync/async, &self/&mut self, "
             "infallible / fdo::Result / custom DBusError, header/connection/object-server parameters sprinkled in, spawn on/off) are "
             "registered (some twice) at 4 paths; the raw peer sends 6..25 calls per case: correct, unknown object / interface / "
             "member, dropped / added / retyped / swapped arguments, without INTERFACE field, 1/7 with the no-reply flag (alone or with the no-auto-start / interactive-auth bits), in bursts "
             "and read chunks; handler invocation log == exactly the calls that must be served (digest of the decoded arguments), "
             "exactly one reply (none with no-reply), body == the model's values with the declared output types, handler errors "
             "relayed, standard error names for the four refusal kinds; distinct = distinct (call list, schedule)"),
    "gates": {"quick": {"evaluations": 1400, "distinct": 1200, "calls_checked": 15000, "class:correct": 6000, "class:unknown-object": 1000, "class:unknown-interface": 1000,
                        "class:unknown-method": 800, "class:no-reply-flag": 1500, "class:no-reply-with-other-flags": 500, "class:no-interface-header": 800, "generated_methods": 20},
              "thorough": {"evaluations": 80000, "distinct": 60000}},
    "assumptions": ["handlers are pure functions of their arguments (engines/zg/src/support.rs) mirrored on reference values (model.rs); the invocation log is written by the handlers themselves",
                    "calls without an INTERFACE field: the specification allows an error or any matching method, so only 'exactly one reply, and a return must be the right result' is judged"],
}

PROPS["C27"] = {
    "level": "exploration",
    "plan": gen_plan("zg", 12, 40, 3, thorough_layers=("release",)),
    "rule": ("the same GENERATED interfaces (with signals and properties of all access / emits-changed modes, and doc comments drawn from a pool of "
             "XML-hostile text: <, &, quotes, --, -->, runs of 3..5 hyphens, ]]>, entity look-alikes, non-ASCII, blank lines) registered on random trees over "
             "4 paths; Introspect at EVERY node: the document must pass an independent strict XML well-formedness checker, be read by "
             "zbus_xml, list exactly the node's interfaces (+ Peer/Introspectable/Properties) and child nodes, and declare for every "
             "generated method (in/out argument types in order), signal and property (type, access, EmitsChangedSignal annotation) "
             "what the generator defined - the same metadata C26/C28 compare the wire with; distinct = distinct (tree, schedule)"),
    "gates": {"quick": {"evaluations": 650, "distinct": 500, "documents_checked": 1500, "interfaces_compared": 1500, "methods_compared": 4000, "properties_compared": 2000, "signals_compared": 500},
              "thorough": {"evaluations": 25000, "distinct": 15000}},
    "assumptions": ["methods whose single result is a structure type are not generated (the property excludes them)",
                    "the strict XML checker is engines/zg/src/xmlcheck.rs (written from the XML recommendation; unit-tested)"],
}

PROPS["C28"] = {
    "level": "exploration",
    "plan": gen_plan("zg", 12, 40, 3, thorough_layers=("release",)),
    "rule": ("the same GENERATED interfaces' properties (0..6 each: read / write / readwrite, emits true / invalidates / false / const, sync and "
             "async getters, fallible setters, types over the palette): histories of 20..60 (50..500 thorough) Get / GetAll / Set "
             "operations from the raw peer incl. unknown property / interface, read-only and write-only targets, wrongly typed and "
             "setter-refused values, and Sets of the value already held; each reply and the PropertiesChanged signals seen up to the next quiescent point are compared with "
             "a property-store model: values, exactly the readable set in GetAll, errors leave the store unchanged, exactly one "
             "signal with the new value / the invalidated name per successful Set of an emitting property and none otherwise; "
             "distinct = distinct (history, schedule)"),
    "gates": {"quick": {"evaluations": 1100, "distinct": 700, "operations_checked": 25000, "class:get": 4000, "class:get-all": 3000, "class:set-ok": 2000,
                        "class:set-with-signal": 800, "class:set-of-the-current-value": 500, "class:expected-error": 5000, "generated_properties": 15},
              "thorough": {"evaluations": 35000, "distinct": 25000}},
    "assumptions": ["whether PropertiesChanged precedes or follows the method return is not judged", "any error reply counts as a rejection (the property does not name the errors)"],
}

PROPS["C33"] = {
    "level": "exploration",
    "plan": gen_plan("zg", 12, 40, 3, thorough_layers=("release", "tsan")),
    "rule": ("the same GENERATED interfaces, each with the proxy pair (async + blocking) the interface macro generates; drivers emitted by the generator "
             "exercise 6..20 (..46 thorough) random operations per proxy with seed-driven typed values: method calls (the handler's "
             "invocation log must show exactly the digest of the caller's arguments, the caller must get the handler's typed result or "
             "its typed error), property reads (== the value the server holds, tracked through the writes), property writes (incl. "
             "setter refusals), signals (subscribe, make the interface emit, the stream item's arguments == the emitted ones), with "
             "property caching lazily / upfront / off; async proxies: two zbus connections joined by two scripted transports (read "
             "chunks 1/7/64/whole) under 5 scheduler biases, quiescence between operations; blocking proxies (1/5 of the cases): a real "
             "socketpair with the library's own executor threads, each operation under a 120 s wall-clock guard whose firing is "
             "INCONCLUSIVE; distinct = distinct (operation history, schedule)"),
    "gates": {"quick": {"evaluations": 950, "distinct": 700, "operations_checked": 15000, "class:op-call": 6000, "class:op-get": 3000, "class:op-set": 1500, "class:op-signal": 1500,
                        "class:blocking-proxy": 150, "class:async-proxy": 700},
              "thorough": {"evaluations": 30000, "distinct": 20000}},
    "assumptions": ["a cached property is refreshed by a background task after PropertiesChanged: async cases run to quiescence between operations, blocking cases wait 20 ms before a cached read",
                    "the object server is started before the first call (a call racing with its on-demand start can be lost: listed finding of C30)"],
}
