//! Shared harness plumbing for the engines: argument parsing, shard context,
//! finding/evidence emission (JSON lines), per-case panic capture, journal,
//! counting allocator, fd census.

pub mod alloc;
pub mod ctx;

pub use ctx::{Args, Ctx, Tier};
