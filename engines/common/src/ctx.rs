use serde_json::{json, Value as J};
use std::collections::{BTreeMap, HashMap, HashSet};
use std::fs::File;
use std::io::{BufWriter, Write};
use std::os::unix::fs::FileExt;
use std::panic::{catch_unwind, AssertUnwindSafe};
use std::sync::Mutex;
use vref::prng::Rng;

#[derive(Clone, Copy, Debug, PartialEq, Eq)]
pub enum Tier {
    Quick,
    Thorough,
}

#[derive(Clone, Debug)]
pub struct Args {
    pub property: String,
    pub shard: u64,
    pub nshards: u64,
    pub seed: u64,
    pub tier: Tier,
    pub out_dir: Option<String>,
    /// replay exactly one case: (shard, index)
    pub replay: Option<(u64, u64)>,
    /// multiplies every case budget (sanitizer layers use < 1)
    pub scale: f64,
    pub profile: String,
    pub features: String,
    pub layer: String,
    pub extra: HashMap<String, String>,
}

impl Args {
    pub fn parse() -> Args {
        let mut a = Args {
            property: String::new(),
            shard: 0,
            nshards: 1,
            seed: 1,
            tier: Tier::Quick,
            out_dir: None,
            replay: None,
            scale: 1.0,
            profile: "monitor".into(),
            features: String::new(),
            layer: "plain".into(),
            extra: HashMap::new(),
        };
        let argv: Vec<String> = std::env::args().collect();
        let mut i = 1;
        while i < argv.len() {
            let k = argv[i].as_str();
            let v = argv.get(i + 1).cloned().unwrap_or_default();
            match k {
                "--property" => a.property = v,
                "--shard" => {
                    let mut it = v.split('/');
                    a.shard = it.next().unwrap().parse().unwrap();
                    a.nshards = it.next().unwrap().parse().unwrap();
                }
                "--seed" => a.seed = v.parse().unwrap(),
                "--tier" => {
                    a.tier = if v == "thorough" {
                        Tier::Thorough
                    } else {
                        Tier::Quick
                    }
                }
                "--out-dir" => a.out_dir = Some(v),
                "--replay" => {
                    // seed:shard:index
                    let p: Vec<u64> = v.split(':').map(|x| x.parse().unwrap()).collect();
                    a.seed = p[0];
                    a.shard = p[1];
                    a.replay = Some((p[1], p[2]));
                }
                "--scale" => a.scale = v.parse().unwrap(),
                "--profile" => a.profile = v,
                "--features" => a.features = v,
                "--layer" => a.layer = v,
                other => {
                    if let Some(name) = other.strip_prefix("--x-") {
                        a.extra.insert(name.to_string(), v);
                    } else {
                        eprintln!("unknown argument {other}");
                        std::process::exit(3);
                    }
                }
            }
            i += 2;
        }
        a
    }
}

static LAST_PANIC: Mutex<Option<(String, String)>> = Mutex::new(None);

pub fn install_panic_hook() {
    std::panic::set_hook(Box::new(|info| {
        let loc = info
            .location()
            .map(|l| format!("{}:{}", l.file(), l.line()))
            .unwrap_or_else(|| "?".into());
        let msg = if let Some(s) = info.payload().downcast_ref::<&str>() {
            s.to_string()
        } else if let Some(s) = info.payload().downcast_ref::<String>() {
            s.clone()
        } else {
            "?".into()
        };
        if let Ok(mut g) = LAST_PANIC.lock() {
            *g = Some((loc, msg));
        }
    }));
}

pub fn take_last_panic() -> Option<(String, String)> {
    LAST_PANIC.lock().ok().and_then(|mut g| g.take())
}

/// Strip the path prefix up to the repo-relative part so signatures are stable.
pub fn short_loc(loc: &str) -> String {
    let mut s = loc.to_string();
    for marker in ["/repo/", "/registry/src/"] {
        if let Some(i) = s.find(marker) {
            s = s[i + marker.len()..].to_string();
            break;
        }
    }
    // drop the line number: the signature should survive unrelated edits
    if let Some(i) = s.rfind(':') {
        s.truncate(i);
    }
    s
}

pub struct Ctx {
    pub args: Args,
    out: Box<dyn Write>,
    journal: Option<File>,
    distinct: HashSet<u64>,
    counts: BTreeMap<String, u64>,
    samples: usize,
    pub max_samples: usize,
    finding_counts: HashMap<String, u64>,
    pub cases_run: u64,
}

impl Ctx {
    pub fn new(args: Args) -> Ctx {
        install_panic_hook();
        let (out, journal): (Box<dyn Write>, Option<File>) = match &args.out_dir {
            Some(d) => {
                let p = format!("{}/shard-{}.jsonl", d, args.shard);
                let j = format!("{}/shard-{}.journal", d, args.shard);
                (
                    Box::new(BufWriter::new(File::create(p).expect("create shard output"))),
                    Some(File::create(j).expect("create journal")),
                )
            }
            None => (Box::new(std::io::stdout()), None),
        };
        Ctx {
            args,
            out,
            journal,
            distinct: HashSet::new(),
            counts: BTreeMap::new(),
            samples: 0,
            max_samples: 4,
            finding_counts: HashMap::new(),
            cases_run: 0,
        }
    }

    pub fn thorough(&self) -> bool {
        self.args.tier == Tier::Thorough
    }

    pub fn rng(&self, index: u64) -> Rng {
        Rng::for_case(self.args.seed, &self.args.property, self.args.shard, index)
    }

    /// Number of cases this shard should run given per-tier totals.
    pub fn budget(&self, quick_total: u64, thorough_total: u64) -> u64 {
        let t = if self.thorough() { thorough_total } else { quick_total };
        let t = (t as f64 * self.args.scale).ceil() as u64;
        (t + self.args.nshards - 1) / self.args.nshards
    }

    /// Should case `index` run (always, unless replaying another one)?
    pub fn want(&self, index: u64) -> bool {
        match self.args.replay {
            None => true,
            Some((_, i)) => i == index,
        }
    }

    /// Does `global_index` of an enumerated space belong to this shard?
    pub fn mine(&self, global_index: u64) -> bool {
        global_index % self.args.nshards == self.args.shard
    }

    pub fn journal(&mut self, index: u64, note: &str) {
        if let Some(j) = &self.journal {
            let mut line = format!("{} {}", index, note);
            line.truncate(200);
            while line.len() < 200 {
                line.push(' ');
            }
            line.push('\n');
            let _ = j.write_at(line.as_bytes(), 0);
        }
    }

    pub fn emit(&mut self, v: J) {
        let _ = writeln!(self.out, "{}", v);
    }

    /// A harness-side problem (wall-clock guard fired, environment trouble): makes the run INCONCLUSIVE, never a violation.
    pub fn problem(&mut self, text: &str) {
        self.emit(json!({"k": "problem", "text": text}));
        let _ = self.out.flush();
    }

    /// Total number of findings reported so far by this shard (all signatures).
    pub fn findings_reported(&self) -> u64 {
        self.finding_counts.values().sum()
    }

    pub fn count(&mut self, name: &str, n: u64) {
        *self.counts.entry(name.to_string()).or_insert(0) += n;
    }

    pub fn distinct(&mut self, h: u64) {
        self.distinct.insert(h);
    }

    pub fn distinct_str(&mut self, s: &str) {
        self.distinct.insert(vref::prng::fnv(s));
    }

    pub fn sample(&mut self, v: J) {
        if self.samples < self.max_samples {
            self.samples += 1;
            self.emit(json!({"k": "sample", "case": v}));
        }
    }

    /// Report a finding. `class|reason|locator` forms the signature; the first
    /// three occurrences of each signature are written in full.
    pub fn finding(&mut self, index: u64, class: &str, reason: &str, locator: &str, detail: J) {
        let sig = format!("{}|{}|{}|{}", self.args.property, class, reason, locator);
        let n = self.finding_counts.entry(sig.clone()).or_insert(0);
        *n += 1;
        if *n <= 3 {
            let rec = json!({
                "k": "finding",
                "property": self.args.property,
                "signature": sig,
                "class": class,
                "reason": reason,
                "locator": locator,
                "case": [self.args.seed, self.args.shard, index],
                "profile": self.args.profile,
                "features": self.args.features,
                "layer": self.args.layer,
                "detail": detail,
            });
            self.emit(rec);
            let _ = self.out.flush();
        }
    }

    /// Run one case under catch_unwind; a panic becomes a `panic` finding.
    pub fn guarded<F: FnOnce(&mut Ctx)>(&mut self, index: u64, note: &str, detail: impl Fn() -> J, f: F) {
        self.journal(index, note);
        self.cases_run += 1;
        let r = catch_unwind(AssertUnwindSafe(|| f(self)));
        if r.is_err() {
            let (loc, msg) = take_last_panic().unwrap_or(("?".into(), "?".into()));
            let mut d = detail();
            if let J::Object(m) = &mut d {
                m.insert("panic_message".into(), json!(msg));
                m.insert("panic_location".into(), json!(loc));
            }
            if let Some(rest) = msg.strip_prefix("VERIF-MONITOR:") {
                // raised by one of the harness's own monitors (not a library panic): class:description
                let class = rest.split(':').next().unwrap_or("monitor").to_string();
                self.finding(index, &class, "-", note_class(note), d);
            } else {
                self.finding(index, "panic", &short_loc(&loc), note_class(note), d);
            }
        }
    }

    pub fn finish(mut self) {
        let counts = std::mem::take(&mut self.counts);
        for (k, n) in counts {
            self.emit(json!({"k": "count", "name": k, "n": n}));
        }
        let fc = std::mem::take(&mut self.finding_counts);
        for (k, n) in fc {
            self.emit(json!({"k": "finding_count", "signature": k, "n": n}));
        }
        self.emit(json!({"k": "count", "name": "cases_run", "n": self.cases_run}));
        self.emit(json!({"k": "distinct_local", "n": self.distinct.len()}));
        if let Some(d) = &self.args.out_dir {
            let p = format!("{}/shard-{}.distinct", d, self.args.shard);
            let mut buf = Vec::with_capacity(self.distinct.len() * 8);
            for h in &self.distinct {
                buf.extend_from_slice(&h.to_le_bytes());
            }
            let _ = std::fs::write(p, buf);
        }
        self.emit(json!({"k": "done"}));
        let _ = self.out.flush();
    }
}

/// First word of the journal note, used as the locator of panic findings.
fn note_class(note: &str) -> &str {
    note.split_whitespace().next().unwrap_or("")
}

/// Open file descriptors of this process (for the fd census monitor).
pub fn open_fd_count() -> usize {
    std::fs::read_dir("/proc/self/fd").map(|d| d.count()).unwrap_or(0)
}
