//! Counting global allocator: tracks live bytes and the high-water mark so a
//! monitor can bound "peak allocation during this call".

use std::alloc::{GlobalAlloc, Layout, System};
use std::sync::atomic::{AtomicUsize, Ordering};

pub struct Counting;

static LIVE: AtomicUsize = AtomicUsize::new(0);
static PEAK: AtomicUsize = AtomicUsize::new(0);
static BIGGEST: AtomicUsize = AtomicUsize::new(0);

unsafe impl GlobalAlloc for Counting {
    unsafe fn alloc(&self, l: Layout) -> *mut u8 {
        let p = System.alloc(l);
        if !p.is_null() {
            let live = LIVE.fetch_add(l.size(), Ordering::Relaxed) + l.size();
            PEAK.fetch_max(live, Ordering::Relaxed);
            BIGGEST.fetch_max(l.size(), Ordering::Relaxed);
        }
        p
    }
    unsafe fn dealloc(&self, p: *mut u8, l: Layout) {
        LIVE.fetch_sub(l.size(), Ordering::Relaxed);
        System.dealloc(p, l)
    }
    unsafe fn realloc(&self, p: *mut u8, l: Layout, new: usize) -> *mut u8 {
        let q = System.realloc(p, l, new);
        if !q.is_null() {
            if new >= l.size() {
                let d = new - l.size();
                let live = LIVE.fetch_add(d, Ordering::Relaxed) + d;
                PEAK.fetch_max(live, Ordering::Relaxed);
                BIGGEST.fetch_max(new, Ordering::Relaxed);
            } else {
                LIVE.fetch_sub(l.size() - new, Ordering::Relaxed);
            }
        }
        q
    }
}

/// Start a measurement window: returns the current live byte count and resets
/// the high-water mark to it.
pub fn window_start() -> usize {
    let live = LIVE.load(Ordering::Relaxed);
    PEAK.store(live, Ordering::Relaxed);
    BIGGEST.store(0, Ordering::Relaxed);
    live
}

/// Peak bytes allocated above the level at `window_start`, and the largest
/// single allocation request in the window.
pub fn window_end(start_live: usize) -> (usize, usize) {
    let peak = PEAK.load(Ordering::Relaxed);
    (peak.saturating_sub(start_live), BIGGEST.load(Ordering::Relaxed))
}

pub fn live() -> usize {
    LIVE.load(Ordering::Relaxed)
}
