//! A palette of statically typed Rust shapes (the serde path, as opposed to
//! dynamic `Value` trees). Each shape knows its reference signature and
//! converts from/to the reference value model.

use std::collections::{BTreeMap, HashMap};
use vref::sig::Sig;
use vref::val::Val;
use zvariant::{OwnedObjectPath, OwnedValue};

pub trait Shape: Sized + serde::Serialize + for<'de> serde::Deserialize<'de> + zvariant::Type {
    fn sig() -> Sig;
    fn from_val(v: &Val) -> Self;
    fn to_val(&self) -> Val;
}

macro_rules! basic {
    ($t:ty, $s:ident, $v:ident) => {
        impl Shape for $t {
            fn sig() -> Sig {
                Sig::$s
            }
            fn from_val(v: &Val) -> Self {
                match v {
                    Val::$v(x) => x.clone(),
                    _ => panic!("shape mismatch"),
                }
            }
            fn to_val(&self) -> Val {
                Val::$v(self.clone())
            }
        }
    };
}
basic!(u8, Y, Y);
basic!(bool, B, B);
basic!(i16, N, N);
basic!(u16, Q, Q);
basic!(i32, I, I);
basic!(u32, U, U);
basic!(i64, X, X);
basic!(u64, T, T);
basic!(String, S, S);

impl Shape for f64 {
    fn sig() -> Sig {
        Sig::D
    }
    fn from_val(v: &Val) -> Self {
        match v {
            Val::D(x) => f64::from_bits(*x),
            _ => panic!("shape mismatch"),
        }
    }
    fn to_val(&self) -> Val {
        Val::D(self.to_bits())
    }
}

impl Shape for OwnedObjectPath {
    fn sig() -> Sig {
        Sig::O
    }
    fn from_val(v: &Val) -> Self {
        match v {
            Val::O(x) => OwnedObjectPath::from(zvariant::ObjectPath::from_string_unchecked(x.clone())),
            _ => panic!("shape mismatch"),
        }
    }
    fn to_val(&self) -> Val {
        Val::O(self.as_str().to_string())
    }
}

impl Shape for OwnedValue {
    fn sig() -> Sig {
        Sig::V
    }
    fn from_val(v: &Val) -> Self {
        match v {
            Val::V(x) => crate::conv::to_zvalue(x, &[]).try_to_owned().expect("to owned"),
            _ => panic!("shape mismatch"),
        }
    }
    fn to_val(&self) -> Val {
        Val::V(Box::new(crate::conv::from_zvalue(self, &[])))
    }
}

impl<T: Shape> Shape for Vec<T> {
    fn sig() -> Sig {
        Sig::A(Box::new(T::sig()))
    }
    fn from_val(v: &Val) -> Self {
        match v {
            Val::A(_, xs) => xs.iter().map(T::from_val).collect(),
            _ => panic!("shape mismatch"),
        }
    }
    fn to_val(&self) -> Val {
        Val::A(T::sig(), self.iter().map(|x| x.to_val()).collect())
    }
}

macro_rules! map_shape {
    ($m:ident, $($b:tt)*) => {
        impl<K: Shape + $($b)*, V: Shape> Shape for $m<K, V> {
            fn sig() -> Sig {
                Sig::Dict(Box::new(K::sig()), Box::new(V::sig()))
            }
            fn from_val(v: &Val) -> Self {
                match v {
                    Val::Dict(_, _, es) => es.iter().map(|(k, x)| (K::from_val(k), V::from_val(x))).collect(),
                    _ => panic!("shape mismatch"),
                }
            }
            fn to_val(&self) -> Val {
                Val::Dict(K::sig(), V::sig(), self.iter().map(|(k, x)| (k.to_val(), x.to_val())).collect())
            }
        }
    };
}
map_shape!(HashMap, std::hash::Hash + Eq);
map_shape!(BTreeMap, Ord);

macro_rules! tuple_shape {
    ($($n:tt $T:ident),+) => {
        impl<$($T: Shape),+> Shape for ($($T,)+) {
            fn sig() -> Sig {
                Sig::St(vec![$($T::sig()),+])
            }
            fn from_val(v: &Val) -> Self {
                match v {
                    Val::St(fs) => ($($T::from_val(&fs[$n]),)+),
                    _ => panic!("shape mismatch"),
                }
            }
            fn to_val(&self) -> Val {
                Val::St(vec![$(self.$n.to_val()),+])
            }
        }
    };
}
tuple_shape!(0 A);
tuple_shape!(0 A, 1 B);
tuple_shape!(0 A, 1 B, 2 C);
tuple_shape!(0 A, 1 B, 2 C, 3 D);
tuple_shape!(0 A, 1 B, 2 C, 3 D, 4 E);

/// `Option<T>`: `aT` with option-as-array (both formats), `mT` with gvariant only.
#[cfg(any(feature = "option-as-array", feature = "gvariant"))]
impl<T: Shape> Shape for Option<T> {
    fn sig() -> Sig {
        #[cfg(feature = "option-as-array")]
        {
            Sig::A(Box::new(T::sig()))
        }
        #[cfg(not(feature = "option-as-array"))]
        {
            Sig::M(Box::new(T::sig()))
        }
    }
    fn from_val(v: &Val) -> Self {
        match v {
            Val::A(_, xs) => xs.first().map(T::from_val),
            Val::M(_, x) => x.as_ref().map(|x| T::from_val(x)),
            _ => panic!("shape mismatch"),
        }
    }
    fn to_val(&self) -> Val {
        #[cfg(feature = "option-as-array")]
        {
            Val::A(T::sig(), self.iter().map(|x| x.to_val()).collect())
        }
        #[cfg(not(feature = "option-as-array"))]
        {
            Val::M(T::sig(), self.as_ref().map(|x| Box::new(x.to_val())))
        }
    }
}

/// Visitor over the palette: `f` is called with a type-erased runner per shape.
pub trait ShapeFn {
    fn call<T: Shape>(&mut self, name: &'static str);
}

macro_rules! palette {
    ($f:expr; $($t:ty),+ $(,)?) => {
        $( $f.call::<$t>(stringify!($t)); )+
    };
}

pub const PALETTE_LEN: usize = 44;

/// Call `f` for shape number `i` of the palette (`i` taken modulo its length).
pub fn with_shape<F: ShapeFn>(i: usize, f: &mut F) {
    struct Pick<'a, F: ShapeFn> {
        want: usize,
        cur: usize,
        f: &'a mut F,
    }
    impl<'a, F: ShapeFn> ShapeFn for Pick<'a, F> {
        fn call<T: Shape>(&mut self, name: &'static str) {
            if self.cur == self.want {
                self.f.call::<T>(name);
            }
            self.cur += 1;
        }
    }
    let total = PALETTE_LEN + OPTION_SHAPES;
    let mut p = Pick { want: i % total, cur: 0, f };
    all_shapes(&mut p);
    assert_eq!(p.cur, total, "palette length constants out of date");
}

pub fn all_shapes<F: ShapeFn>(f: &mut F) {
    palette!(f;
        u8, bool, i16, u16, i32, u32, i64, u64, f64, String,
        Vec<u8>, Vec<u64>, Vec<String>, Vec<Vec<i16>>, Vec<(u8, u64)>, Vec<(String,)>,
        (u8,), (u8, u64), (String, u32, String), (u8, (u8, u64), i16), ((u8,),), (Vec<u64>, u8),
        (bool, f64, i64), (u8, u16, u32, u64, u8),
        HashMap<String, u32>, BTreeMap<u8, u64>, BTreeMap<String, Vec<u64>>, HashMap<u16, (u8, String)>,
        BTreeMap<u64, BTreeMap<u8, String>>, Vec<BTreeMap<String, u8>>, BTreeMap<bool, i16>,
        OwnedObjectPath, (OwnedObjectPath, Vec<OwnedObjectPath>),
        OwnedValue, Vec<OwnedValue>, HashMap<String, OwnedValue>, (u8, OwnedValue, u8),
        Vec<(u8, Vec<(u64, String)>)>, (Vec<Vec<u8>>, String), Vec<f64>, (i16, Vec<bool>),
        BTreeMap<i32, OwnedValue>, Vec<Vec<Vec<u8>>>, (String, (String, (String,))),
    );
    #[cfg(any(feature = "option-as-array", feature = "gvariant"))]
    {
        palette!(f;
            Option<u32>, Option<String>, (Option<u8>, u64), Vec<Option<u16>>, Option<(u8, String)>,
            BTreeMap<String, Option<u64>>, Option<Vec<u8>>, (u8, Option<String>, u8),
        );
    }
}

#[cfg(any(feature = "option-as-array", feature = "gvariant"))]
pub const OPTION_SHAPES: usize = 8;
#[cfg(not(any(feature = "option-as-array", feature = "gvariant")))]
pub const OPTION_SHAPES: usize = 0;
