//! C06 — signature strings parse exactly per the D-Bus type grammar.

use crate::conv::to_zsig;
use serde_json::json;
use std::collections::hash_map::DefaultHasher;
use std::hash::{Hash, Hasher};
use std::str::FromStr;
use vcommon::Ctx;
use vref::prng::fnv;
use vref::sig::{gen_sig, parse_sig, GenOpts, Sig, SigOpts};
use zvariant::Signature;

const ALPHABET: &[u8] = b"ybnqiuxtdsgovha(){}mz";

fn allow_maybe() -> bool {
    cfg!(feature = "gvariant")
}

fn hash_of(s: &Signature) -> u64 {
    let mut h = DefaultHasher::new();
    s.hash(&mut h);
    h.finish()
}

fn leak(s: Signature) -> &'static Signature {
    Box::leak(Box::new(s))
}

/// Build with the `static_*` constructors (leaking; used on a small sample).
fn to_static_zsig(s: &Sig) -> Signature {
    match s {
        Sig::A(c) => Signature::static_array(leak(to_static_zsig(c))),
        Sig::Dict(k, v) => Signature::static_dict(leak(to_static_zsig(k)), leak(to_static_zsig(v))),
        Sig::St(fs) => {
            let v: Vec<&'static Signature> = fs.iter().map(|f| leak(to_static_zsig(f))).collect();
            Signature::static_structure(Box::leak(v.into_boxed_slice()))
        }
        #[cfg(feature = "gvariant")]
        Sig::M(c) => Signature::static_maybe(leak(to_static_zsig(c))),
        other => to_zsig(other),
    }
}

fn check_string(ctx: &mut Ctx, index: u64, s: &[u8], deep: bool) {
    ctx.count("evaluations", 1);
    let reference = parse_sig(s, SigOpts { allow_maybe: allow_maybe() });
    let lib = Signature::try_from(s);
    let lib_validate = zvariant_utils::signature::validate(s);
    let text = String::from_utf8_lossy(s).to_string();
    let show = if text.len() > 80 { format!("{}…(len {})", &text[..60], text.len()) } else { text.clone() };
    if lib.is_ok() != lib_validate.is_ok() {
        ctx.finding(index, "validate-disagrees-with-parse", if lib.is_ok() { "parse-ok-validate-err" } else { "parse-err-validate-ok" }, "-",
            json!({"input": show}));
    }
    match (&reference, &lib) {
        (Err(e), Ok(_)) => {
            ctx.count("class:lib-accepts-invalid", 1);
            ctx.finding(index, "accepts-invalid", &format!("{e:?}"), "-", json!({"input": show, "reference_error": format!("{e:?}")}));
        }
        (Ok(_), Err(_)) => {
            ctx.finding(index, "rejects-valid", "-", "-", json!({"input": show}));
        }
        (Err(_), Err(_)) => {
            ctx.count("class:both-reject", 1);
        }
        (Ok(parsed), Ok(z)) => {
            ctx.count("class:both-accept", 1);
            ctx.distinct(fnv(&text));
            // formatting reproduces the input up to the documented outer parentheses
            let (want_full, want_bare) = match parsed.len() {
                0 => (String::new(), String::new()),
                1 => match &parsed[0] {
                    Sig::St(_) => (text.clone(), text[1..text.len() - 1].to_string()),
                    _ => (text.clone(), text.clone()),
                },
                _ => (format!("({text})"), text.clone()),
            };
            let full = z.to_string();
            let bare = z.to_string_no_parens();
            let disp = format!("{z}");
            if full != want_full || disp != want_full {
                ctx.finding(index, "format-differs", "to_string", "-", json!({"input": show, "to_string": full, "display": disp, "expected": want_full}));
            }
            if bare != want_bare {
                ctx.finding(index, "format-differs", "to_string_no_parens", "-", json!({"input": show, "got": bare, "expected": want_bare}));
            }
            if z.string_len() != want_full.len() {
                ctx.finding(index, "string-len-differs", "-", "-", json!({"input": show, "string_len": z.string_len(), "expected": want_full.len()}));
            }
            // equality with strings
            if !(z == text.as_str()) && !parsed.is_empty() {
                ctx.finding(index, "eq-str-false", "input-string", "-", json!({"input": show}));
            }
            if !(z == want_full.as_str()) {
                ctx.finding(index, "eq-str-false", "formatted-string", "-", json!({"input": show, "formatted": want_full}));
            }
            // representations: parsed vs structurally built (dynamic children) vs static constructors
            if deep || parsed.len() <= 3 {
                let built = match parsed.len() {
                    0 => Signature::Unit,
                    1 => to_zsig(&parsed[0]),
                    _ => Signature::structure(parsed.iter().map(to_zsig).collect::<Vec<_>>()),
                };
                let mut reps: Vec<(&str, Signature)> = vec![("built-dynamic", built)];
                if deep {
                    let st = match parsed.len() {
                        0 => Signature::Unit,
                        1 => to_static_zsig(&parsed[0]),
                        _ => {
                            let v: Vec<&'static Signature> = parsed.iter().map(|f| leak(to_static_zsig(f))).collect();
                            Signature::static_structure(Box::leak(v.into_boxed_slice()))
                        }
                    };
                    reps.push(("built-static", st));
                    ctx.count("static_representation_checks", 1);
                }
                for (name, r) in &reps {
                    ctx.count("representation_checks", 1);
                    if r != z || z != r {
                        ctx.finding(index, "representations-unequal", name, "-", json!({"input": show}));
                    }
                    if hash_of(r) != hash_of(z) {
                        ctx.finding(index, "representations-hash-differ", name, "-", json!({"input": show}));
                    }
                    if r.cmp(z) != std::cmp::Ordering::Equal || z.cmp(r) != std::cmp::Ordering::Equal {
                        ctx.finding(index, "representations-cmp-not-equal", name, "-", json!({"input": show}));
                    }
                    if r.to_string() != full {
                        ctx.finding(index, "representations-format-differ", name, "-", json!({"input": show, "a": r.to_string(), "b": full}));
                    }
                }
            }
            // from_str agrees with try_from bytes
            if let Ok(z2) = Signature::from_str(&text) {
                if &z2 != z {
                    ctx.finding(index, "from_str-differs-from-bytes", "-", "-", json!({"input": show}));
                }
            }
        }
    }
}

pub fn run(ctx: &mut Ctx) {
    // exhaustive enumeration
    let release = ctx.args.profile == "release";
    let max_len = if ctx.thorough() { 7 } else { 6 };
    let _ = release;
    let k = ALPHABET.len() as u64;
    let mut global: u64 = 0;
    let mut total: u64 = 0;
    for len in 0..=max_len {
        let count = k.pow(len as u32);
        total += count;
        let mut buf = vec![0u8; len];
        // shard by contiguous ranges of the first two symbols to keep it cheap
        for n in 0..count {
            let g = global + n;
            if g % ctx.args.nshards != ctx.args.shard {
                continue;
            }
            let mut x = n;
            for j in (0..len).rev() {
                buf[j] = ALPHABET[(x % k) as usize];
                x /= k;
            }
            if let Some((_, want)) = ctx.args.replay {
                if want != g {
                    continue;
                }
            }
            if g % 65536 == 0 {
                ctx.journal(g, "enum");
            }
            let b = buf.clone();
            check_string(ctx, g, &b, false);
        }
        global += count;
    }
    if ctx.args.shard == 0 {
        ctx.count("exhaustive_strings_total", total);
        ctx.count("exhaustive_max_len", max_len as u64);
    }
    ctx.count("exhaustive_strings_run", 0);

    // boundary families (shard 0, deterministic)
    if ctx.args.shard == 0 {
        let mut fam: Vec<Vec<u8>> = Vec::new();
        for n in [254usize, 255, 256, 257, 300] {
            fam.push(vec![b'i'; n]);
            fam.push(format!("{}", "(i)".repeat(n / 3)).into_bytes());
        }
        for d in [31usize, 32, 33, 34, 40] {
            fam.push(format!("{}i", "a".repeat(d)).into_bytes());
            fam.push(format!("{}i{}", "(".repeat(d), ")".repeat(d)).into_bytes());
            fam.push(format!("{}a{{sv}}", "a".repeat(d.saturating_sub(1))).into_bytes());
            // mixed: d arrays and d structs interleaved
            let mut s = String::new();
            for _ in 0..d {
                s.push_str("a(");
            }
            s.push('i');
            for _ in 0..d {
                s.push(')');
            }
            fam.push(s.into_bytes());
        }
        for key in ["v", "(i)", "ai", "a{ss}", "s", "h", "g", "o", "d"] {
            fam.push(format!("a{{{key}s}}").into_bytes());
        }
        for s in ["{ss}", "a{s}", "a{sss}", "a{}", "()", "(", ")", "a", "a)", "(i", "i)", "a{s", "a{sv", "a{sv}}", "m", "mi", "mmi", "am", "(m)", "a{mss}", "a{sm}"] {
            fam.push(s.as_bytes().to_vec());
        }
        fam.push(vec![0xff, b'i']);
        fam.push(vec![b'i', 0]);
        for (j, f) in fam.iter().enumerate() {
            let idx = 8_000_000_000 + j as u64;
            if !ctx.want(idx) {
                continue;
            }
            let f2 = f.clone();
            ctx.guarded(idx, "boundary", || json!({"input": String::from_utf8_lossy(&f2)}), |ctx| check_string(ctx, idx, &f2, true));
            ctx.count("boundary_strings", 1);
        }
    }

    // nesting chains around the depth limits, through every kind of container on the way down: plain arrays, dicts (nesting
    // continues in the VALUE), structs with the nesting in the first / last / only field, and (GVariant builds) maybes,
    // in random order. The limits count per kind (32 arrays, 32 structs), so a counter that misses one route shows here.
    let chains = ctx.budget(6_000, 300_000);
    for i in 0..chains {
        let idx = 8_500_000_000 + i;
        if !ctx.want(idx) {
            continue;
        }
        let mut rng = ctx.rng(idx);
        let na = *rng.pick(&[0usize, 3, 30, 31, 32, 33, 34]);
        let ns = *rng.pick(&[0usize, 3, 30, 31, 32, 33, 34]);
        let nm = if allow_maybe() { *rng.pick(&[0usize, 0, 1, 3]) } else { 0 };
        let mut kinds: Vec<u8> = Vec::new();
        kinds.extend(std::iter::repeat(b'a').take(na));
        kinds.extend(std::iter::repeat(b'(').take(ns));
        kinds.extend(std::iter::repeat(b'm').take(nm));
        rng.shuffle(&mut kinds);
        let dict_share = *rng.pick(&[0u64, 1, 2, 4]);
        let mut open = String::new();
        let mut close: Vec<&str> = Vec::new();
        for k in &kinds {
            match k {
                b'a' => {
                    if dict_share > 0 && rng.chance(dict_share, 4) {
                        open.push_str(*rng.pick(&["a{s", "a{y", "a{o"]));
                        close.push("}");
                    } else {
                        open.push('a');
                        close.push("");
                    }
                }
                b'(' => match rng.below(3) {
                    0 => {
                        open.push('(');
                        close.push(")");
                    }
                    1 => {
                        open.push_str("(i");
                        close.push(")");
                    }
                    _ => {
                        open.push('(');
                        close.push("s)");
                    }
                },
                _ => {
                    open.push('m');
                    close.push("");
                }
            }
        }
        let mut sig = open;
        sig.push(*rng.pick(&['y', 's', 'v', 'i']));
        for c in close.iter().rev() {
            sig.push_str(c);
        }
        if sig.len() > 255 {
            continue;
        }
        let b = sig.into_bytes();
        ctx.count("nesting_chains", 1);
        if na > 32 || ns > 32 {
            ctx.count("nesting_chains_beyond_a_limit", 1);
        }
        if dict_share > 0 && na >= 30 {
            ctx.count("nesting_chains_through_dict_values", 1);
        }
        let b2 = b.clone();
        ctx.guarded(idx, "nesting-chain", || json!({"input": String::from_utf8_lossy(&b2)}), |ctx| check_string(ctx, idx, &b2, i % 8 == 0));
    }

    // grammar-directed random signatures (valid ones, long, deep) and mutations of them
    let n = ctx.budget(20_000, 2_000_000);
    for i in 0..n {
        let idx = 9_000_000_000 + i;
        if !ctx.want(idx) {
            continue;
        }
        let mut rng = ctx.rng(idx);
        let o = GenOpts { max_depth: 2 + rng.usize_below(6), max_fields: 5, allow_maybe: allow_maybe(), allow_fd: true, allow_variant: true };
        let ntypes = 1 + rng.usize_below(4);
        let mut s = String::new();
        for _ in 0..ntypes {
            gen_sig(&mut rng, &o, 0).write(&mut s);
        }
        let mut b = s.into_bytes();
        if rng.chance(1, 2) && !b.is_empty() {
            // mutate: delete, duplicate or replace one symbol
            let p = rng.usize_below(b.len());
            match rng.below(3) {
                0 => {
                    b.remove(p);
                }
                1 => {
                    let c = b[p];
                    b.insert(p, c);
                }
                _ => b[p] = *rng.pick(ALPHABET),
            }
        }
        let deep = i % 16 == 0 && b.len() < 40;
        let b2 = b.clone();
        ctx.guarded(idx, "random", || json!({"input": String::from_utf8_lossy(&b2)}), |ctx| check_string(ctx, idx, &b2, deep));
        if i < 3 {
            ctx.sample(json!({"input": String::from_utf8_lossy(&b)}));
        }
    }
}
