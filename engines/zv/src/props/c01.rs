//! C01 — D-Bus encoding is byte-exact with the specification.
//!
//! Monitor: every `to_bytes*` result is compared with the reference
//! marshaller; `serialized_size` and the fd counts are compared with what was
//! actually written/attached.

use super::common::*;
use crate::conv::*;
use crate::dynenc::*;
use crate::typed::{with_shape, Shape, ShapeFn, OPTION_SHAPES, PALETTE_LEN};
use serde_json::json;
use std::os::fd::{AsFd, OwnedFd};
use vcommon::Ctx;
use vref::dbus::{marshal, unmarshal, Endian};
use vref::prng::fnv;
use vref::sig::{enumerate_sigs, Sig};
use vref::val::Val;

pub fn run(ctx: &mut Ctx) {
    let pool = fd_pool();
    directed(ctx, &pool);
    // random dynamic shapes
    let n = ctx.budget(3000, 60_000);
    for i in 0..n {
        if !ctx.want(i) {
            continue;
        }
        let mut rng = ctx.rng(i);
        let big = rng.chance(1, 12);
        let allow_fd = rng.chance(1, 4);
        let case = gen_case(
            &mut rng,
            CaseOpts { allow_maybe: false, allow_fd, max_depth: 4, big },
        );
        let note = format!("dyn {}", case.sig);
        let c2 = (case.sig.to_sig_string(), case.val.show());
        ctx.guarded(
            i,
            &note,
            || json!({"sig": c2.0, "value": c2.1}),
            |ctx| check_dynamic(ctx, i, &case, &pool, big),
        );
    }
    // typed palette
    let total = (PALETTE_LEN + OPTION_SHAPES) as u64;
    let m = ctx.budget(total * 12, total * 300);
    for j in 0..m {
        let i = 1_000_000 + j;
        if !ctx.want(i) {
            continue;
        }
        let mut f = TypedRun { ctx, index: i, shape: j as usize };
        with_shape(j as usize, &mut f);
    }
    // exhaustive small signatures (thorough: 4 nodes; quick: 3 nodes), one value each
    let nodes = if ctx.thorough() { 4 } else { 3 };
    let sigs = enumerate_sigs(nodes, false, true);
    ctx.count("exhaustive_signatures_total", if ctx.args.shard == 0 { sigs.len() as u64 } else { 0 });
    for (gi, sig) in sigs.into_iter().enumerate() {
        if !ctx.mine(gi as u64) {
            continue;
        }
        let i = 2_000_000 + gi as u64;
        if !ctx.want(i) {
            continue;
        }
        let mut rng = ctx.rng(i);
        let case = gen_case_for_sig(
            &mut rng,
            sig,
            CaseOpts { allow_maybe: false, allow_fd: true, max_depth: 2, big: false },
        );
        let note = format!("enum {}", case.sig);
        let c2 = (case.sig.to_sig_string(), case.val.show());
        ctx.guarded(
            i,
            &note,
            || json!({"sig": c2.0, "value": c2.1}),
            |ctx| check_dynamic(ctx, i, &case, &pool, true),
        );
        ctx.count("exhaustive_signatures_run", 1);
    }
}

fn nontrivial(sig: &Sig) -> bool {
    sig.is_container() || sig.align_dbus() > 1
}

/// Encode `case` through the dynamic API in both endians and at offsets 0..15.
fn check_dynamic(ctx: &mut Ctx, index: u64, case: &DynCase, pool: &[OwnedFd], few_offsets: bool) {
    let fds = case_fds(pool, &case.fd_map);
    let pids = pool_ids(pool);
    let zv = to_zvalue(&case.val, &fds);
    let sigs = case.sig.to_sig_string();
    let offsets: Vec<usize> = if few_offsets { vec![0, 1, 4, 7, 8, 13] } else { (0..16).collect() };
    for e in ENDIANS {
        for &off in &offsets {
            ctx.count("evaluations", 1);
            if nontrivial(&case.sig) {
                ctx.distinct(fnv(&format!("{}|{}|{}", sigs, e.name(), off % 8)));
            }
            let ctxt = dbus_ctxt(e, off);
            let data = match lib_encode(ctxt, &zv) {
                Ok(d) => d,
                Err(err) => {
                    ctx.finding(
                        index,
                        "encode-error",
                        &err_class(&err),
                        sig_class(&case.sig),
                        json!({"sig": sigs, "value": case.val.show(), "endian": e.name(), "offset": off, "error": err.to_string()}),
                    );
                    return;
                }
            };
            let lib = data.bytes().to_vec();
            let attached: Vec<(u64, u64)> = data.fds().iter().map(|f| dev_ino(f.as_fd())).collect();
            compare_bytes(ctx, index, &case.sig, &case.val, e, off, &lib, &attached, &pids, "dynamic");
            ctx.count("fds_attached_checked", attached.len() as u64);
            // size pass
            if let Some(sz) = lib_size(ctxt, &zv) {
                match sz {
                    Ok(sz) => {
                        if sz.size() != lib.len() {
                            ctx.finding(
                                index,
                                "size-mismatch",
                                "serialized_size!=written",
                                sig_class(&case.sig),
                                json!({"sig": sigs, "value": case.val.show(), "endian": e.name(), "offset": off,
                                       "serialized_size": sz.size(), "written": lib.len()}),
                            );
                        }
                        if sz.num_fds() as usize != data.fds().len() {
                            ctx.finding(
                                index,
                                "fd-count-mismatch",
                                "size.num_fds!=attached",
                                sig_class(&case.sig),
                                json!({"sig": sigs, "value": case.val.show(), "num_fds_reported": sz.num_fds(),
                                       "attached": data.fds().len(), "mentions": case.val.count_fds()}),
                            );
                        }
                    }
                    Err(err) => ctx.finding(
                        index,
                        "size-error",
                        &err_class(&err),
                        sig_class(&case.sig),
                        json!({"sig": sigs, "value": case.val.show(), "error": err.to_string()}),
                    ),
                }
            }
        }
    }
    ctx.sample(json!({"kind": "dynamic", "sig": sigs, "value": case.val.show(),
                      "le_offset0": vref::hex(&marshal(&case.val, Endian::Le, 0))}));
}

pub fn err_class(e: &zvariant::Error) -> String {
    let s = format!("{e:?}");
    s.split(|c: char| c == '(' || c == ' ' || c == '{').next().unwrap_or("Error").to_string()
}

/// The core oracle: library bytes vs reference marshalling.
#[allow(clippy::too_many_arguments)]
pub fn compare_bytes(
    ctx: &mut Ctx,
    index: u64,
    sig: &Sig,
    val: &Val,
    e: Endian,
    off: usize,
    lib: &[u8],
    attached: &[(u64, u64)],
    pool: &[(u64, u64)],
    mode: &str,
) {
    let has_dict = has_dict_or_fd(val);
    let sigs = sig.to_sig_string();
    let detail = |expected: &[u8], why: &str| {
        json!({"mode": mode, "sig": sigs, "value": val.show(), "endian": e.name(), "offset": off,
               "lib": vref::hex(lib), "expected": vref::hex(expected), "why": why,
               "first_diff": first_diff(lib, expected)})
    };
    if !has_dict {
        let expected = marshal(val, e, off);
        if expected != lib {
            let why = classify_diff(lib, &expected);
            ctx.finding(index, "bytes-differ", why, sig_class(sig), detail(&expected, why));
        }
        return;
    }
    // Dict entry order and fd index allocation are the library's business;
    // layout is not: decode with the reference, compare values up to those two
    // freedoms, then require the bytes to be the reference marshalling of what
    // was decoded.
    match unmarshal(lib, sig, e, off, Some(attached.len() as u32)) {
        Err((r, t)) => {
            let expected = marshal(val, e, off);
            ctx.finding(
                index,
                "bytes-invalid",
                r.name(),
                sig_class(sig),
                json!({"mode": mode, "sig": sigs, "value": val.show(), "endian": e.name(), "offset": off,
                       "lib": vref::hex(lib), "expected_some_order": vref::hex(&expected), "in_type": t}),
            );
        }
        Ok((decoded, used)) => {
            if used != lib.len() {
                ctx.finding(index, "bytes-differ", "trailing-bytes", sig_class(sig), detail(&lib[..used], "trailing-bytes"));
            }
            if sort_dicts(&map_fds_to_pool(&decoded, attached, pool)) != sort_dicts(val) {
                let expected = marshal(val, e, off);
                ctx.finding(index, "bytes-differ", "denotes-other-value", sig_class(sig), detail(&expected, "denotes-other-value"));
                return;
            }
            let expected = marshal(&decoded, e, off);
            if expected != lib {
                let why = classify_diff(lib, &expected);
                ctx.finding(index, "bytes-differ", why, sig_class(sig), detail(&expected, why));
            }
        }
    }
}

fn classify_diff(lib: &[u8], expected: &[u8]) -> &'static str {
    if lib.len() != expected.len() {
        if lib.len() < expected.len() {
            "shorter-than-spec"
        } else {
            "longer-than-spec"
        }
    } else {
        "same-length-different-content"
    }
}

struct TypedRun<'a> {
    ctx: &'a mut Ctx,
    index: u64,
    shape: usize,
}

impl<'a> ShapeFn for TypedRun<'a> {
    fn call<T: Shape>(&mut self, name: &'static str) {
        let index = self.index;
        let sig = T::sig();
        if sig.contains_maybe() {
            return; // not a D-Bus type in this feature build
        }
        let mut rng = self.ctx.rng(index);
        let big = rng.chance(1, 10);
        let case = gen_case_for_sig(
            &mut rng,
            sig.clone(),
            CaseOpts { allow_maybe: false, allow_fd: false, max_depth: 3, big },
        );
        let note = format!("typed {name}");
        let shown = case.val.show();
        let _ = self.shape;
        self.ctx.guarded(
            index,
            &note,
            || json!({"shape": name, "value": shown}),
            |ctx| {
                let t = T::from_val(&case.val);
                let val = t.to_val(); // normalised (e.g. Option-as-array keeps ≤ 1 element)
                // declared signature must be the reference one
                let declared = from_zsig(<T as zvariant::Type>::SIGNATURE);
                if declared.as_ref() != Some(&sig) {
                    ctx.finding(index, "signature-mismatch", "Type::SIGNATURE", name,
                        json!({"shape": name, "declared": <T as zvariant::Type>::SIGNATURE.to_string(), "expected": sig.to_sig_string()}));
                }
                for e in ENDIANS {
                    for off in [0usize, 1, 2, 3, 4, 5, 6, 7, 8, 12, 15] {
                        ctx.count("evaluations", 1);
                        ctx.count("typed_evaluations", 1);
                        if nontrivial(&sig) {
                            ctx.distinct(fnv(&format!("typed|{}|{}|{}", name, e.name(), off % 8)));
                        }
                        let ctxt = dbus_ctxt(e, off);
                        match zvariant::to_bytes(ctxt, &t) {
                            Ok(d) => {
                                compare_bytes(ctx, index, &sig, &val, e, off, d.bytes(), &[], &[], name);
                                match zvariant::serialized_size(ctxt, &t) {
                                    Ok(sz) if sz.size() == d.bytes().len() => {}
                                    Ok(sz) => ctx.finding(index, "size-mismatch", "serialized_size!=written", name,
                                        json!({"shape": name, "value": val.show(), "serialized_size": sz.size(), "written": d.bytes().len()})),
                                    Err(err) => ctx.finding(index, "size-error", &err_class(&err), name,
                                        json!({"shape": name, "value": val.show(), "error": err.to_string()})),
                                }
                            }
                            Err(err) => {
                                ctx.finding(index, "encode-error", &err_class(&err), name,
                                    json!({"shape": name, "value": val.show(), "error": err.to_string()}));
                                return;
                            }
                        }
                    }
                }
                ctx.sample(json!({"kind": "typed", "shape": name, "value": val.show()}));
            },
        );
    }
}

/// Fixed vectors: run on shard 0 at every seed so that listed findings are
/// re-observed deterministically.
fn directed(ctx: &mut Ctx, pool: &[OwnedFd]) {
    if ctx.args.shard != 0 {
        return;
    }
    // the same fd mentioned twice
    let v = Val::St(vec![Val::H(0), Val::H(0), Val::H(1)]);
    let case = DynCase { sig: v.sig(), val: v, fd_map: (0..4).collect() };
    if ctx.want(9_000_001) {
        ctx.guarded(9_000_001, "directed repeated-fd", || json!({}), |ctx| check_dynamic(ctx, 9_000_001, &case, pool, true));
    }
    // spec examples
    let vs = [
        Val::A(Sig::X, vec![]),
        Val::A(Sig::X, vec![Val::X(5)]),
        Val::St(vec![Val::Y(1), Val::A(Sig::St(vec![Sig::Y, Sig::T]), vec![])]),
        Val::V(Box::new(Val::St(vec![Val::Y(1), Val::T(2)]))),
        Val::Dict(Sig::Y, Sig::V, vec![(Val::Y(1), Val::V(Box::new(Val::X(7))))]),
    ];
    for (k, v) in vs.iter().enumerate() {
        let case = DynCase { sig: v.sig(), val: v.clone(), fd_map: (0..4).collect() };
        let idx = 9_000_010 + k as u64;
        if ctx.want(idx) {
            ctx.guarded(idx, "directed spec-vector", || json!({}), |ctx| check_dynamic(ctx, idx, &case, pool, false));
        }
    }
}
