pub mod c01;
pub mod c02;
pub mod c03;
pub mod c05;
pub mod c06;
pub mod common;
