//! C04 — decoding untrusted bytes never crashes (panic, abort, stack
//! overflow, runaway allocation), in either format and every feature build;
//! re-encoding what was decoded never panics either.
//!
//! Monitors: per-case catch_unwind, the shard journal (a shard killed by a
//! signal names the case), and the counting allocator's high-water mark.

use super::c02::{formats, Fmt};
use super::common::*;
use crate::dynenc::*;
use crate::typed::{with_shape, Shape, ShapeFn, OPTION_SHAPES, PALETTE_LEN};
use serde_json::json;
use std::os::fd::{AsFd, OwnedFd};
use vcommon::alloc;
use vcommon::Ctx;
use vref::dbus::{marshal_marked, mutate, Endian};
use vref::prng::{fnv, Rng};
use vref::sig::Sig;
use vref::val::Val;
use zvariant::serialized::Data;

fn alloc_bound(input_len: usize, sig_len: usize) -> usize {
    512 * (input_len + sig_len) + (1 << 20)
}

/// Generic byte-level mutation (used for GVariant, where the interesting
/// bytes — framing offsets — sit at the tail of each container).
fn mutate_generic(bytes: &[u8], rng: &mut Rng) -> (Vec<u8>, &'static str) {
    let mut b = bytes.to_vec();
    if b.is_empty() {
        let n = 1 + rng.usize_below(4);
        return (rng.bytes(n), "grow-empty");
    }
    match rng.below(10) {
        7 | 8 => {
            // framing offsets sit at the tail of every container: move one a little, so that it lands just before / inside /
            // just after the padding or the neighbouring child it delimits
            let k = 1 + rng.usize_below(b.len().min(12));
            let p = b.len() - k;
            let d = 1 + rng.below(8) as u8;
            b[p] = if rng.bool() { b[p].wrapping_add(d) } else { b[p].wrapping_sub(d) };
            (b, "tail-offset-nudge")
        }
        9 => {
            // the same for offsets of inner containers: any byte that could be an offset into this buffer
            let cands: Vec<usize> = (0..b.len()).filter(|i| b[*i] != 0 && (b[*i] as usize) <= bytes.len()).collect();
            if let Some(&p) = cands.get(rng.usize_below(cands.len().max(1))) {
                let d = 1 + rng.below(8) as u8;
                b[p] = if rng.bool() { b[p].wrapping_add(d) } else { b[p].wrapping_sub(d) };
            }
            (b, "inner-offset-nudge")
        }
        0 => {
            let k = 1 + rng.usize_below(b.len().min(8));
            let p = b.len() - k + rng.usize_below(k);
            b[p] = *rng.pick(&[0u8, 1, 0x7f, 0x80, 0xff, b.len() as u8, (b.len() + 1) as u8]);
            (b, "tail-byte-set")
        }
        1 => {
            let n = rng.usize_below(b.len());
            b.truncate(n);
            (b, "truncate")
        }
        2 => {
            let p = rng.usize_below(b.len());
            b[p] ^= 1 << rng.below(8);
            (b, "bit-flip")
        }
        3 => {
            let p = rng.usize_below(b.len());
            b[p] = rng.next_u64() as u8;
            (b, "byte-set")
        }
        4 => {
            let n = 1 + rng.usize_below(9);
            let extra = rng.bytes(n);
            b.extend_from_slice(&extra);
            (b, "extend")
        }
        5 => {
            let p = rng.usize_below(b.len());
            b[p] = 0xff;
            if p + 1 < b.len() {
                b[p + 1] = 0xff;
            }
            (b, "ff-pair")
        }
        _ => {
            let n = 1 + rng.usize_below(b.len().min(8));
            let from = rng.usize_below(b.len() - n + 1);
            let to = rng.usize_below(b.len() - n + 1);
            let chunk = b[from..from + n].to_vec();
            b[to..to + n].copy_from_slice(&chunk);
            (b, "splice")
        }
    }
}

/// Decode `bytes` as `sig` with the dynamic API under the allocation monitor;
/// re-encode on success. Panics propagate to the caller's catch_unwind.
fn hostile_decode(ctx: &mut Ctx, index: u64, bytes: &[u8], sig: &Sig, fmt: Fmt, e: Endian, off: usize, pool: &[OwnedFd], how: &str) {
    let ctxt = fmt.ctxt(e, off);
    let fds: Vec<_> = pool.iter().take(2).map(|f| f.as_fd()).collect();
    let data = Data::new_borrowed_fds(bytes, ctxt, fds.iter().copied());
    let start = alloc::window_start();
    let res = lib_decode(&data, sig);
    let (peak, biggest) = alloc::window_end(start);
    ctx.count("evaluations", 1);
    let sig_len = sig.to_sig_string().len();
    if peak > alloc_bound(bytes.len(), sig_len) {
        ctx.finding(index, "excessive-allocation", fmt.name(), sig_class(sig),
            json!({"sig": sig.to_sig_string(), "format": fmt.name(), "input_len": bytes.len(), "peak_bytes": peak, "largest_request": biggest,
                   "bound": alloc_bound(bytes.len(), sig_len), "bytes": vref::hex(&bytes[..bytes.len().min(256)]), "input_kind": how}));
    }
    match res {
        None => ctx.count("class:no-target", 1),
        Some(Err(_)) => ctx.count("class:decode-error", 1),
        Some(Ok((v, _))) => {
            ctx.count("class:decoded", 1);
            // re-encode must not panic (errors are fine)
            let start = alloc::window_start();
            let r = lib_encode(ctxt, &v);
            let (peak2, _) = alloc::window_end(start);
            ctx.count(if r.is_ok() { "class:reencoded" } else { "class:reencode-error" }, 1);
            if peak2 > alloc_bound(bytes.len(), sig_len) * 4 {
                ctx.finding(index, "excessive-allocation-reencode", fmt.name(), sig_class(sig),
                    json!({"sig": sig.to_sig_string(), "input_len": bytes.len(), "peak_bytes": peak2}));
            }
        }
    }
}

fn valid_bytes(val: &Val, fmt: Fmt, e: Endian, off: usize, rng: &mut Rng) -> Vec<(Vec<u8>, &'static str)> {
    let mut v = Vec::new();
    match fmt {
        Fmt::DBus => {
            let (b, marks) = marshal_marked(val, e, off);
            for _ in 0..5 {
                let (mut m, mut l) = mutate(&b, &marks, e, rng);
                if rng.chance(1, 3) {
                    let (m2, l2) = mutate(&m, &marks, e, rng);
                    m = m2;
                    l = l2;
                }
                v.push((m, l));
            }
            v.push((b, "valid"));
        }
        #[cfg(feature = "gvariant")]
        Fmt::GVariant => {
            let b = vref::gv::serialize_at(val, e, off);
            for _ in 0..6 {
                let (mut m, mut l) = mutate_generic(&b, rng);
                if rng.chance(1, 3) {
                    let (m2, l2) = mutate_generic(&m, rng);
                    m = m2;
                    l = l2;
                }
                v.push((m, l));
            }
            v.push((b, "valid-per-spec"));
        }
    }
    v
}

pub fn run(ctx: &mut Ctx) {
    let pool = fd_pool();
    directed(ctx, &pool);
    let n = ctx.budget(60_000, 6_000_000);
    for i in 0..n {
        if !ctx.want(i) {
            continue;
        }
        let fmts = formats();
        let mut rng = ctx.rng(i);
        let fmt = *rng.pick(&fmts);
        let allow_maybe = fmt != Fmt::DBus;
        let big = rng.chance(1, 25);
        let allow_fd = rng.chance(1, 8);
        let case = gen_case(&mut rng, CaseOpts { allow_maybe, allow_fd, max_depth: 5, big });
        let e = if rng.bool() { Endian::Le } else { Endian::Be };
        let off = *rng.pick(&[0usize, 0, 0, 1, 3, 4, 8, 13]);
        // decode both as its own type and, wrapped, as a variant
        let wrapped = Val::V(Box::new(case.val.clone()));
        let mut inputs: Vec<(Vec<u8>, &'static str, Sig)> = Vec::new();
        for (b, l) in valid_bytes(&case.val, fmt, e, off, &mut rng) {
            inputs.push((b, l, case.sig.clone()));
        }
        for (b, l) in valid_bytes(&wrapped, fmt, e, off, &mut rng) {
            inputs.push((b, l, Sig::V));
        }
        if rng.chance(1, 3) {
            let len = rng.usize_below(96);
            inputs.push((rng.bytes(len), "random", case.sig.clone()));
            let len = rng.usize_below(96);
            inputs.push((rng.bytes(len), "random", Sig::V));
        }
        let sigs = case.sig.to_sig_string();
        for (k, (bytes, how, sig)) in inputs.into_iter().enumerate() {
            let note = format!("hostile-{} {} #{k}", fmt.name(), sig);
            let hexb = vref::hex(&bytes[..bytes.len().min(512)]);
            ctx.distinct(fnv(&format!("{}|{}|{}", fmt.name(), how, sig_class(&sig))) ^ fnv(&sigs));
            ctx.count(&format!("input:{how}"), 1);
            ctx.guarded(i, &note,
                || json!({"sig": sig.to_sig_string(), "format": fmt.name(), "endian": e.name(), "offset": off, "bytes": hexb, "input_kind": how}),
                |ctx| hostile_decode(ctx, i, &bytes, &sig, fmt, e, off, &pool, how));
        }
        if i < 2 {
            ctx.sample(json!({"sig": sigs, "format": fmt.name(), "value": case.val.show()}));
        }
    }
    // typed targets on hostile bytes
    let total = (PALETTE_LEN + OPTION_SHAPES) as u64;
    let m = ctx.budget(total * 60, total * 3000);
    for j in 0..m {
        let i = 1_000_000_000 + j;
        if !ctx.want(i) {
            continue;
        }
        let mut f = TypedHostile { ctx, index: i };
        with_shape(j as usize, &mut f);
    }
}

struct TypedHostile<'a> {
    ctx: &'a mut Ctx,
    index: u64,
}

impl<'a> ShapeFn for TypedHostile<'a> {
    fn call<T: Shape>(&mut self, name: &'static str) {
        let index = self.index;
        let sig = T::sig();
        let mut rng = self.ctx.rng(index);
        for fmt in formats() {
            if fmt == Fmt::DBus && sig.contains_maybe() {
                continue;
            }
            let case = gen_case_for_sig(&mut rng, sig.clone(), CaseOpts { allow_maybe: fmt != Fmt::DBus, allow_fd: false, max_depth: 3, big: false });
            let val = T::from_val(&case.val).to_val();
            let e = if rng.bool() { Endian::Le } else { Endian::Be };
            let off = *rng.pick(&[0usize, 0, 1, 4, 8]);
            for (bytes, how) in valid_bytes(&val, fmt, e, off, &mut rng) {
                let note = format!("typed-hostile-{} {name}", fmt.name());
                let hexb = vref::hex(&bytes[..bytes.len().min(512)]);
                self.ctx.guarded(index, &note,
                    || json!({"shape": name, "format": fmt.name(), "endian": e.name(), "offset": off, "bytes": hexb, "input_kind": how}),
                    |ctx| {
                        ctx.count("evaluations", 1);
                        ctx.count("typed_evaluations", 1);
                        let data = Data::new(&bytes[..], fmt.ctxt(e, off));
                        let start = alloc::window_start();
                        let r = data.deserialize::<T>();
                        let (peak, biggest) = alloc::window_end(start);
                        if peak > alloc_bound(bytes.len(), 16) {
                            ctx.finding(index, "excessive-allocation", fmt.name(), name,
                                json!({"shape": name, "input_len": bytes.len(), "peak_bytes": peak, "largest_request": biggest, "bytes": vref::hex(&bytes[..bytes.len().min(256)])}));
                        }
                        if let Ok((t, _)) = r {
                            ctx.count("class:decoded", 1);
                            let _ = zvariant::to_bytes(fmt.ctxt(e, off), &t);
                        } else {
                            ctx.count("class:decode-error", 1);
                        }
                    });
            }
        }
    }
}

/// Structure-aware hostile inputs built by hand.
fn directed(ctx: &mut Ctx, pool: &[OwnedFd]) {
    if ctx.args.shard != 0 {
        return;
    }
    let mut cases: Vec<(String, Fmt, Sig, Vec<u8>)> = Vec::new();
    // deep variant chains (D-Bus): 1 'v' 0 repeated, then a byte
    // (the long chains are what a decoder that stopped counting would recurse on until the stack ends: 3 bytes per level)
    let long_chain = if cfg!(miri) { 100_000usize } else { 2_000_000 };
    for depth in [10usize, 63, 64, 65, 66, 200, 5000, 100_000, long_chain] {
        let mut b = Vec::new();
        for _ in 0..depth {
            b.extend_from_slice(&[1, b'v', 0]);
        }
        b.extend_from_slice(&[1, b'y', 0, 7]);
        cases.push((format!("variant-chain-{depth}"), Fmt::DBus, Sig::V, b));
    }
    // huge array length prefixes
    for len in [0x0400_0000u32, 0x0400_0001, 0x7fff_ffff, 0xffff_ffff, 0xffff_fff8] {
        let mut b = len.to_le_bytes().to_vec();
        b.extend_from_slice(&[0; 12]);
        cases.push((format!("huge-array-len-{len:x}"), Fmt::DBus, Sig::A(Box::new(Sig::T)), b.clone()));
        cases.push((format!("huge-ay-len-{len:x}"), Fmt::DBus, Sig::A(Box::new(Sig::Y)), b.clone()));
        cases.push((format!("huge-str-len-{len:x}"), Fmt::DBus, Sig::S, b.clone()));
        let mut v = vec![2, b'a', b't', 0];
        v.extend_from_slice(&b);
        cases.push((format!("huge-array-len-in-variant-{len:x}"), Fmt::DBus, Sig::V, v));
    }
    // 255-byte signatures inside variants and as `g`
    let long = "i".repeat(255);
    let mut b = vec![255u8];
    b.extend_from_slice(long.as_bytes());
    b.push(0);
    cases.push(("sig-255".into(), Fmt::DBus, Sig::G, b.clone()));
    let deep = format!("{}y", "a".repeat(254));
    let mut b2 = vec![255u8];
    b2.extend_from_slice(deep.as_bytes());
    b2.push(0);
    b2.extend_from_slice(&[0; 64]);
    cases.push(("variant-sig-254-arrays".into(), Fmt::DBus, Sig::V, b2));
    let deeps = format!("{}y{}", "(".repeat(127), ")".repeat(127));
    let mut b3 = vec![255u8];
    b3.extend_from_slice(deeps.as_bytes());
    b3.push(0);
    b3.extend_from_slice(&[0; 64]);
    cases.push(("variant-sig-127-structs".into(), Fmt::DBus, Sig::V, b3));
    // maybe signature reaching the D-Bus decoder (gvariant builds parse 'm')
    cases.push(("maybe-sig-in-dbus-variant".into(), Fmt::DBus, Sig::V, vec![2, b'm', b'y', 0, 1, 0, 0, 0, 0]));
    cases.push(("maybe-array-sig-in-dbus-variant".into(), Fmt::DBus, Sig::V, vec![3, b'a', b'm', b'y', 0, 0, 0, 0, 0, 0, 0, 0]));
    cases.push(("maybe-struct-sig-in-dbus-variant".into(), Fmt::DBus, Sig::V, vec![4, b'(', b'm', b'y', b')', 0, 0, 0, 1, 0, 0, 0, 0]));
    #[cfg(feature = "gvariant")]
    {
        // GVariant: offsets pointing outside / backwards / overlapping
        for tail in [[0xffu8, 0xff], [0x00, 0xff], [0x05, 0x01], [0x02, 0x02], [0x09, 0x09]] {
            let mut b = b"a\0bc\0".to_vec();
            b.extend_from_slice(&tail);
            cases.push((format!("gv-as-offsets-{:02x}{:02x}", tail[0], tail[1]), Fmt::GVariant, Sig::A(Box::new(Sig::S)), b.clone()));
            cases.push((format!("gv-struct-offsets-{:02x}{:02x}", tail[0], tail[1]), Fmt::GVariant, Sig::St(vec![Sig::S, Sig::S, Sig::S]), b));
        }
        // nested variants in GVariant: child, 0, 'v'
        for depth in [10usize, 64, 65, 70, 5000, 100_000, long_chain] {
            let mut b = vec![7u8, 0, b'y'];
            for _ in 0..depth {
                b.extend_from_slice(&[0, b'v']);
            }
            cases.push((format!("gv-variant-chain-{depth}"), Fmt::GVariant, Sig::V, b));
        }
        cases.push(("gv-empty-for-struct".into(), Fmt::GVariant, Sig::St(vec![Sig::S, Sig::I]), vec![]));
        cases.push(("gv-one-byte-for-array-of-arrays".into(), Fmt::GVariant, Sig::A(Box::new(Sig::A(Box::new(Sig::S)))), vec![0]));
        cases.push(("gv-variant-no-separator".into(), Fmt::GVariant, Sig::V, vec![b'y', b'y', b'y']));
        cases.push(("gv-variant-only-separator".into(), Fmt::GVariant, Sig::V, vec![0]));
        cases.push(("gv-maybe-fixed-wrong-size".into(), Fmt::GVariant, Sig::M(Box::new(Sig::U)), vec![1, 2, 3]));
    }
    for (k, (name, fmt, sig, bytes)) in cases.into_iter().enumerate() {
        let idx = 9_000_000_000 + k as u64;
        if !ctx.want(idx) {
            continue;
        }
        ctx.count("directed_hostile_vectors", 1);
        for e in ENDIANS {
            let note = format!("directed-{} {name}", fmt.name());
            let hexb = vref::hex(&bytes[..bytes.len().min(128)]);
            let nm = name.clone();
            ctx.guarded(idx, &note, || json!({"name": nm, "bytes_prefix": hexb, "len": bytes.len(), "endian": e.name()}),
                |ctx| hostile_decode(ctx, idx, &bytes, &sig, fmt, e, 0, pool, "directed"));
        }
    }
}
