//! C02 — encoding then decoding returns the original value and reports the
//! encoded length as consumed (both formats, both endians, any offset).

use super::c01::err_class;
use super::common::*;
use crate::conv::*;
use crate::dynenc::*;
use crate::typed::{with_shape, Shape, ShapeFn, OPTION_SHAPES, PALETTE_LEN};
use serde_json::json;
use std::os::fd::{AsFd, AsRawFd, OwnedFd};
use vcommon::Ctx;
use vref::dbus::Endian;
use vref::prng::fnv;
use vref::val::Val;
use zvariant::serialized::{Context, Data};

#[derive(Clone, Copy, PartialEq)]
pub enum Fmt {
    DBus,
    #[cfg(feature = "gvariant")]
    GVariant,
}

impl Fmt {
    pub fn name(self) -> &'static str {
        match self {
            Fmt::DBus => "dbus",
            #[cfg(feature = "gvariant")]
            Fmt::GVariant => "gvariant",
        }
    }
    pub fn ctxt(self, e: Endian, off: usize) -> Context {
        match self {
            Fmt::DBus => dbus_ctxt(e, off),
            #[cfg(feature = "gvariant")]
            Fmt::GVariant => gv_ctxt(e, off),
        }
    }
}

pub fn formats() -> Vec<Fmt> {
    #[allow(unused_mut)]
    let mut v = vec![Fmt::DBus];
    #[cfg(feature = "gvariant")]
    v.push(Fmt::GVariant);
    v
}

pub fn run(ctx: &mut Ctx) {
    borrowed_shapes(ctx);
    let pool = fd_pool();
    let n = ctx.budget(3000, 60_000);
    for i in 0..n {
        if !ctx.want(i) {
            continue;
        }
        for fmt in formats() {
            let mut rng = ctx.rng(i);
            let big = rng.chance(1, 12);
            let allow_fd = rng.chance(1, 4);
            let allow_maybe = fmt != Fmt::DBus;
            let case = gen_case(&mut rng, CaseOpts { allow_maybe, allow_fd, max_depth: 4, big });
            let note = format!("dyn-{} {}", fmt.name(), case.sig);
            let c2 = (case.sig.to_sig_string(), case.val.show());
            ctx.guarded(
                i,
                &note,
                || json!({"sig": c2.0, "value": c2.1, "format": fmt.name()}),
                |ctx| roundtrip_dynamic(ctx, i, &case, &pool, fmt, big),
            );
        }
    }
    let total = (PALETTE_LEN + OPTION_SHAPES) as u64;
    let m = ctx.budget(total * 12, total * 300);
    for j in 0..m {
        let i = 1_000_000 + j;
        if !ctx.want(i) {
            continue;
        }
        let mut f = TypedRt { ctx, index: i };
        with_shape(j as usize, &mut f);
    }
}

/// Oracle for one (value, format, endian, offset): the list of issues.
pub fn rt_issues(val: &Val, pool: &[OwnedFd], pids: &[(u64, u64)], fmt: Fmt, e: Endian, off: usize) -> Vec<Issue> {
    let sig = val.sig();
    let fdsb: Vec<_> = pool.iter().map(|f| f.as_fd()).collect();
    let zv = to_zvalue(val, &fdsb);
    let ctxt = fmt.ctxt(e, off);
    let mut out = Vec::new();
    let data = match lib_encode(ctxt, &zv) {
        Ok(d) => d,
        Err(err) => {
            out.push(issue("encode-error", &format!("{}:{}", fmt.name(), err_class(&err)), json!({"error": err.to_string()})));
            return out;
        }
    };
    let want = sort_dicts(val);
    let base = |extra: serde_json::Value| {
        json!({"format": fmt.name(), "endian": e.name(), "offset": off, "bytes": vref::hex(data.bytes()), "info": extra})
    };
    let raws: Vec<i32> = data.fds().iter().map(|f| f.as_raw_fd()).collect();
    let attached: Vec<(u64, u64)> = data.fds().iter().map(|f| dev_ino(f.as_fd())).collect();
    let Some(dec) = lib_decode(&data, &sig) else {
        return out;
    };
    match dec {
        Err(err) => out.push(issue("decode-error", &format!("{}:{}", fmt.name(), err_class(&err)), base(json!({"error": err.to_string()})))),
        Ok((v, used)) => {
            let got = sort_dicts(&map_fds_to_pool(&from_zvalue(&v, &raws), &attached, pids));
            if got != want {
                out.push(issue("roundtrip-value-differs", fmt.name(), base(json!({"decoded": got.show()}))));
            }
            if used != data.bytes().len() {
                out.push(issue("consumed-mismatch", fmt.name(), base(json!({"consumed": used, "encoded_len": data.bytes().len()}))));
            }
        }
    }
    if fmt == Fmt::DBus {
        let mut longer = data.bytes().to_vec();
        longer.extend_from_slice(&[0xAA, 0x55, 0xFF, 0x01, 0x00, 0x7F, 0x80]);
        let d2 = Data::new_borrowed_fds(&longer[..], ctxt, data.fds().iter().map(|f| f.as_fd()));
        if let Some(dec2) = lib_decode(&d2, &sig) {
            match dec2 {
                Err(err) => out.push(issue("decode-error-with-trailing-bytes", &err_class(&err), base(json!({"error": err.to_string()})))),
                Ok((v, used)) => {
                    let got = sort_dicts(&map_fds_to_pool(&from_zvalue(&v, &raws), &attached, pids));
                    if got != want || used != data.bytes().len() {
                        out.push(issue("trailing-bytes-change-result", "dbus",
                            base(json!({"consumed": used, "encoded_len": data.bytes().len(), "decoded": got.show()}))));
                    }
                }
            }
        }
    }
    out
}

/// Does a listed GVariant deviation apply to this value in this format?
fn gv_known(fmt: Fmt, v: &Val) -> bool {
    #[cfg(feature = "gvariant")]
    {
        fmt == Fmt::GVariant && crate::props::c05::zero_length_child(v)
    }
    #[cfg(not(feature = "gvariant"))]
    {
        let _ = (fmt, v);
        false
    }
}

fn roundtrip_dynamic(ctx: &mut Ctx, index: u64, case: &DynCase, pool: &[OwnedFd], fmt: Fmt, few: bool) {
    let pids = pool_ids(pool);
    let sigs = case.sig.to_sig_string();
    let offsets: Vec<usize> = if few { vec![0, 1, 4, 7, 8, 13] } else { (0..16).collect() };
    let judged = !matches!(case.sig, vref::sig::Sig::Dict(..) | vref::sig::Sig::M(_));
    for e in ENDIANS {
        for &off in &offsets {
            if judged {
                ctx.count("evaluations", 1);
                ctx.distinct(fnv(&format!("{}|{}|{}|{}", sigs, fmt.name(), e.name(), off % 8)));
            } else {
                ctx.count("not_judged_no_dynamic_target", 1);
            }
            let issues = probe(|| rt_issues(&case.val, pool, &pids, fmt, e, off));
            if !issues.is_empty() {
                if gv_known(fmt, &case.val) {
                    ctx.count("known_trigger:zero-length-variable-size-child", 1);
                    for is in issues {
                        ctx.finding(index, &is.class, "known-deviation", "gvariant:zero-length-variable-size-child",
                            json!({"sig": sigs, "value": case.val.show(), "issue": is.detail}));
                    }
                } else {
                    report_shrunk(ctx, index, &format!("{}:", fmt.name()), &case.val, issues, false,
                        &mut |v| if gv_known(fmt, v) { Vec::new() } else { probe(|| rt_issues(v, pool, &pids, fmt, e, off)) });
                }
                return;
            }
        }
    }
    ctx.sample(json!({"kind": "dynamic", "format": fmt.name(), "sig": sigs, "value": case.val.show()}));
}

struct TypedRt<'a> {
    ctx: &'a mut Ctx,
    index: u64,
}

impl<'a> ShapeFn for TypedRt<'a> {
    fn call<T: Shape>(&mut self, name: &'static str) {
        let index = self.index;
        let sig = T::sig();
        let mut rng = self.ctx.rng(index);
        let big = rng.chance(1, 10);
        for fmt in formats() {
        if fmt == Fmt::DBus && sig.contains_maybe() {
            continue;
        }
        // README: the gvariant and option-as-array features conflict; Option<T>
        // in GVariant format is not supported when both are enabled.
        if cfg!(all(feature = "gvariant", feature = "option-as-array")) && fmt != Fmt::DBus && name.contains("Option") {
            self.ctx.count("not_judged_option_gvariant_with_option_as_array", 1);
            continue;
        }
        // variant payloads may hold maybe types only when the target format has them
        let case = gen_case_for_sig(&mut rng, sig.clone(), CaseOpts { allow_maybe: fmt != Fmt::DBus, allow_fd: false, max_depth: 3, big });
        let shown = case.val.show();
        let note = format!("typed-{} {name}", fmt.name());
        self.ctx.guarded(index, &note, || json!({"shape": name, "value": shown, "format": fmt.name()}), |ctx| {
            let t = T::from_val(&case.val);
            let val = sort_dicts(&t.to_val());
            {
                for e in ENDIANS {
                    for off in [0usize, 1, 2, 3, 4, 5, 6, 7, 8, 12, 15] {
                        ctx.count("evaluations", 1);
                        ctx.count("typed_evaluations", 1);
                        ctx.distinct(fnv(&format!("typed|{}|{}|{}|{}", name, fmt.name(), e.name(), off % 8)));
                        let ctxt = fmt.ctxt(e, off);
                        let data = match zvariant::to_bytes(ctxt, &t) {
                            Ok(d) => d,
                            Err(err) => {
                                ctx.finding(index, "encode-error", &err_class(&err), &format!("{}:{}", fmt.name(), name),
                                    json!({"shape": name, "value": val.show(), "format": fmt.name(), "error": err.to_string()}));
                                return;
                            }
                        };
                        let known = gv_known(fmt, &val);
                        let mut report = |ctx: &mut Ctx, class: &str, reason: &str, d: serde_json::Value| {
                            if known {
                                ctx.count("known_trigger:zero-length-variable-size-child", 1);
                                ctx.finding(index, class, "known-deviation", "gvariant:zero-length-variable-size-child", d);
                            } else {
                                ctx.finding(index, class, reason, &format!("{}:{}", fmt.name(), name), d);
                            }
                        };
                        match data.deserialize::<T>() {
                            Err(err) => {
                                report(ctx, "decode-error", &err_class(&err),
                                    json!({"shape": name, "value": val.show(), "format": fmt.name(), "endian": e.name(), "offset": off,
                                           "bytes": vref::hex(data.bytes()), "error": err.to_string()}));
                                return;
                            }
                            Ok((t2, used)) => {
                                let got = sort_dicts(&t2.to_val());
                                if got != val {
                                    report(ctx, "roundtrip-value-differs", fmt.name(),
                                        json!({"shape": name, "value": val.show(), "decoded": got.show(), "endian": e.name(), "offset": off,
                                               "bytes": vref::hex(data.bytes())}));
                                    return;
                                }
                                if used != data.bytes().len() {
                                    report(ctx, "consumed-mismatch", fmt.name(),
                                        json!({"shape": name, "value": val.show(), "consumed": used, "encoded_len": data.bytes().len(),
                                               "endian": e.name(), "offset": off, "bytes": vref::hex(data.bytes())}));
                                    return;
                                }
                            }
                        }
                    }
                }
            }
            ctx.sample(json!({"kind": "typed", "shape": name, "value": val.show()}));
        });
        }
    }
}

/// Borrowed targets (`&[u8]`, `&str` and containers of them): they take the decoder's zero-copy fast paths, which the
/// owned shapes of the palette never reach.
fn borrowed_shapes(ctx: &mut Ctx) {
    use std::collections::HashMap;
    use zvariant::{to_bytes, BE, LE};
    macro_rules! rt {
        ($ctx:expr, $idx:expr, $name:expr, $ty:ty, $val:expr) => {{
            let v: $ty = $val;
            $ctx.count("class:borrowed-shape", 1);
            'outer: for endian in [LE, BE] {
                for off in [0usize, 1, 4, 5] {
                    $ctx.count("evaluations", 1);
                    let c = Context::new_dbus(endian, off);
                    match to_bytes(c, &v) {
                        Err(e) => {
                            $ctx.finding($idx, "encode-error", "borrowed", $name, json!({"shape": $name, "error": e.to_string()}));
                            break 'outer;
                        }
                        Ok(enc) => match enc.deserialize::<$ty>() {
                            Err(e) => {
                                $ctx.finding($idx, "decode-error", "borrowed", $name, json!({"shape": $name, "value": format!("{v:?}"), "offset": off, "bytes": vref::hex(enc.bytes()), "error": e.to_string()}));
                                break 'outer;
                            }
                            Ok((back, used)) => {
                                if back != v {
                                    $ctx.finding($idx, "roundtrip-value-differs", "borrowed", $name, json!({"shape": $name, "value": format!("{v:?}"), "decoded": format!("{back:?}")}));
                                    break 'outer;
                                }
                                if used != enc.len() {
                                    $ctx.finding($idx, "consumed-mismatch", "borrowed", $name, json!({"shape": $name, "consumed": used, "encoded_len": enc.len()}));
                                    break 'outer;
                                }
                            }
                        },
                    }
                }
            }
            $ctx.distinct(fnv($name) ^ $idx);
        }};
    }
    let n = ctx.budget(600, 20_000);
    for j in 0..n {
        let idx = 4_000_000_000 + j;
        if !ctx.want(idx) {
            continue;
        }
        let mut rng = ctx.rng(idx);
        // a pool of byte strings and texts the borrowed values point into
        let mut pool: Vec<Vec<u8>> = Vec::new();
        for k in 0..6 {
            let n = match k {
                0 => 0,
                1 => 1,
                _ => rng.usize_below(40),
            };
            pool.push(rng.bytes(n));
        }
        let texts: Vec<String> = (0..4).map(|k| if k == 0 { String::new() } else { format!("t{}é", rng.below(1000)) }).collect();
        let b = |k: usize| -> &[u8] { &pool[k % pool.len()] };
        let t = |k: usize| -> &str { &texts[k % texts.len()] };
        let count = rng.usize_below(5);
        ctx.guarded(idx, "borrowed", || json!({}), |ctx| {
            rt!(ctx, idx, "&[u8]", &[u8], b(2));
            rt!(ctx, idx, "Vec<&[u8]>", Vec<&[u8]>, (0..count).map(|k| b(k)).collect());
            rt!(ctx, idx, "Vec<Vec<&[u8]>>", Vec<Vec<&[u8]>>, (0..count).map(|k| (0..k % 3).map(|m| b(k + m)).collect()).collect());
            rt!(ctx, idx, "(&[u8],u8,&[u8])", (&[u8], u8, &[u8]), (b(3), 7, b(4)));
            rt!(ctx, idx, "Vec<(&str,&[u8])>", Vec<(&str, &[u8])>, (0..count).map(|k| (t(k), b(k + 1))).collect());
            rt!(ctx, idx, "HashMap<&str,&[u8]>", HashMap<&str, &[u8]>, (0..count).map(|k| (t(k), b(k))).collect());
            rt!(ctx, idx, "Vec<&str>", Vec<&str>, (0..count).map(|k| t(k)).collect());
            rt!(ctx, idx, "(u8,Vec<&[u8]>,&str)", (u8, Vec<&[u8]>, &str), (1, (0..count).map(|k| b(5 - k % 5)).collect(), t(1)));
        });
    }
}

#[allow(dead_code)]
fn _unused(_: Val) {}
