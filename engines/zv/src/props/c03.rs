//! C03 — the D-Bus decoder accepts exactly the valid encodings.
//!
//! Monitor: the library's verdict and value on (valid | mutated | random)
//! bytes are compared with the validating reference unmarshaller.

use super::c01::err_class;
use super::common::*;
use crate::conv::*;
use crate::dynenc::*;
use crate::typed::{with_shape, Shape, ShapeFn, OPTION_SHAPES, PALETTE_LEN};
use serde_json::json;
use std::os::fd::{AsFd, AsRawFd, OwnedFd};
use vcommon::Ctx;
use vref::dbus::{marshal_marked, mutate, unmarshal, Endian};
use vref::prng::fnv;
use vref::sig::Sig;
use vref::val::Val;
use zvariant::serialized::Data;

const NFDS: usize = 2;

/// Compare library and reference on one input. Returns issues.
pub fn decode_issues(bytes: &[u8], sig: &Sig, e: Endian, off: usize, pool: &[OwnedFd]) -> (Vec<Issue>, &'static str) {
    let reference = unmarshal(bytes, sig, e, off, Some(NFDS as u32));
    let ctxt = dbus_ctxt(e, off);
    let fds: Vec<_> = pool.iter().take(NFDS).map(|f| f.as_fd()).collect();
    let data = Data::new_borrowed_fds(bytes, ctxt, fds.iter().copied());
    let Some(lib) = lib_decode(&data, sig) else {
        return (Vec::new(), "no-target");
    };
    let raws: Vec<i32> = pool.iter().take(NFDS).map(|f| f.as_raw_fd()).collect();
    let mut out = Vec::new();
    let class;
    match (reference, lib) {
        (Ok((rv, rn)), Ok((lv, ln))) => {
            class = "both-accept";
            let got = normalise_g(&from_zvalue(&lv, &raws));
            let want = normalise_g(&rv);
            if rv.has_duplicate_dict_keys() || dup_keys_numeric(&rv) {
                // which entry wins is not specified; only length is compared
            } else if sort_dicts(&got) != sort_dicts(&want) {
                out.push(issue("decoded-value-differs", "-", json!({"reference": want.show(), "library": got.show()})));
            }
            if rn != ln {
                out.push(issue("consumed-differs", "-", json!({"reference": rn, "library": ln})));
            }
        }
        (Err((r, t)), Ok((lv, ln))) => {
            class = "lib-accepts-invalid";
            let got = from_zvalue(&lv, &raws);
            out.push(issue(
                "accepts-invalid",
                r.name(),
                json!({"reference_error": r.name(), "in_type": t, "library_value": got.show(), "library_consumed": ln}),
            ));
        }
        (Ok((rv, _)), Err(err)) => {
            class = "lib-rejects-valid";
            out.push(issue("rejects-valid", &err_class(&err), json!({"reference_value": rv.show(), "library_error": err.to_string()})));
        }
        (Err(_), Err(_)) => {
            class = "both-reject";
        }
    }
    (out, class)
}

/// Two keys that a map would merge although their bytes differ (+0.0/-0.0).
fn dup_keys_numeric(v: &Val) -> bool {
    let mut d = false;
    v.visit(&mut |x| {
        if let Val::Dict(_, _, es) = x {
            for i in 0..es.len() {
                for j in (i + 1)..es.len() {
                    if vref::val::dict_key_equal(&es[i].0, &es[j].0) {
                        d = true;
                    }
                }
            }
        }
    });
    d
}

fn report(ctx: &mut Ctx, index: u64, sig: &Sig, e: Endian, off: usize, bytes: &[u8], how: &str, issues: Vec<Issue>) {
    for is in issues {
        let in_type = is.detail.get("in_type").and_then(|x| x.as_str()).unwrap_or("");
        let loc = if is.class == "accepts-invalid" {
            // the innermost type in which the reference saw the problem
            format!("in:{}", type_class(in_type))
        } else {
            sig_class(sig).to_string()
        };
        ctx.finding(
            index,
            &is.class,
            &is.reason,
            &loc,
            json!({"sig": sig.to_sig_string(), "endian": e.name(), "offset": off, "bytes": vref::hex(bytes), "input_kind": how, "issue": is.detail}),
        );
    }
}

fn type_class(t: &str) -> &'static str {
    match t.as_bytes().first() {
        Some(b's') => "s",
        Some(b'o') => "o",
        Some(b'g') => "g",
        Some(b'v') => "v",
        Some(b'a') => "array",
        Some(b'(') => "struct",
        Some(b'b') => "b",
        Some(b'h') => "h",
        Some(_) => "fixed",
        None => "?",
    }
}

pub fn run(ctx: &mut Ctx) {
    let pool = fd_pool();
    directed(ctx, &pool);
    let n = ctx.budget(40_000, 4_000_000);
    for i in 0..n {
        if !ctx.want(i) {
            continue;
        }
        let mut rng = ctx.rng(i);
        let allow_fd = rng.chance(1, 6);
        let big = rng.chance(1, 20);
        let mut case = gen_case(&mut rng, CaseOpts { allow_maybe: false, allow_fd, max_depth: 4, big });
        // fd indices must be valid for the 2 fds supplied
        case.val = clamp_fds(&case.val);
        let e = if rng.bool() { Endian::Le } else { Endian::Be };
        let off = rng.usize_below(16);
        let (valid, marks) = marshal_marked(&case.val, e, off);
        let sig = case.sig.clone();
        let note = format!("decode {}", sig);
        let hexv = vref::hex(&valid);
        ctx.guarded(i, &note, || json!({"sig": sig.to_sig_string(), "valid_bytes": hexv}), |ctx| {
            // (i) the valid encoding
            let mut inputs: Vec<(Vec<u8>, &'static str)> = vec![(valid.clone(), "valid")];
            // (ii) mutations: 1..3 stacked
            for _ in 0..4 {
                let (mut m, mut label) = mutate(&valid, &marks, e, &mut rng);
                if rng.chance(1, 5) {
                    let (m2, l2) = mutate(&m, &marks, e, &mut rng);
                    m = m2;
                    label = l2;
                }
                inputs.push((m, label));
            }
            // (iii) random bytes
            if rng.chance(1, 4) {
                let n = rng.usize_below(64);
                inputs.push((rng.bytes(n), "random"));
            }
            for (bytes, how) in inputs {
                ctx.count("evaluations", 1);
                ctx.count(&format!("input:{how}"), 1);
                let (issues, class) = decode_issues(&bytes, &sig, e, off, &pool);
                ctx.count(&format!("class:{class}"), 1);
                if class != "no-target" {
                    ctx.distinct(fnv(&format!("{}|{}|{}", sig_class(&sig), how, class)) ^ fnv(&sig.to_sig_string()));
                }
                if !issues.is_empty() {
                    report(ctx, i, &sig, e, off, &bytes, how, issues);
                }
            }
        });
        if i < 2 {
            ctx.sample(json!({"sig": case.sig.to_sig_string(), "value": case.val.show(), "endian": e.name(), "offset": off}));
        }
    }
    // typed targets
    let total = (PALETTE_LEN + OPTION_SHAPES) as u64;
    let m = ctx.budget(total * 40, total * 2000);
    for j in 0..m {
        let i = 1_000_000_000 + j;
        if !ctx.want(i) {
            continue;
        }
        let mut f = TypedDec { ctx, index: i };
        with_shape(j as usize, &mut f);
    }
}

fn clamp_fds(v: &Val) -> Val {
    match v {
        Val::H(i) => Val::H(*i % NFDS as u32),
        Val::V(x) => Val::V(Box::new(clamp_fds(x))),
        Val::A(e, xs) => Val::A(e.clone(), xs.iter().map(clamp_fds).collect()),
        Val::Dict(k, vv, es) => {
            let mut out: Vec<(Val, Val)> = Vec::new();
            for (a, b) in es {
                let a2 = clamp_fds(a);
                if out.iter().any(|(kk, _)| vref::val::dict_key_equal(kk, &a2)) {
                    continue;
                }
                out.push((a2, clamp_fds(b)));
            }
            Val::Dict(k.clone(), vv.clone(), out)
        }
        Val::St(fs) => Val::St(fs.iter().map(clamp_fds).collect()),
        other => other.clone(),
    }
}

struct TypedDec<'a> {
    ctx: &'a mut Ctx,
    index: u64,
}

impl<'a> ShapeFn for TypedDec<'a> {
    fn call<T: Shape>(&mut self, name: &'static str) {
        let index = self.index;
        let sig = T::sig();
        if sig.contains_maybe() {
            return;
        }
        let mut rng = self.ctx.rng(index);
        let case = gen_case_for_sig(&mut rng, sig.clone(), CaseOpts { allow_maybe: false, allow_fd: false, max_depth: 3, big: false });
        let t0 = T::from_val(&case.val);
        let val = t0.to_val();
        let e = if rng.bool() { Endian::Le } else { Endian::Be };
        let off = rng.usize_below(16);
        let (valid, marks) = marshal_marked(&val, e, off);
        let note = format!("typed-decode {name}");
        let hexv = vref::hex(&valid);
        self.ctx.guarded(index, &note, || json!({"shape": name, "valid_bytes": hexv}), |ctx| {
            let mut inputs: Vec<(Vec<u8>, &'static str)> = vec![(valid.clone(), "valid")];
            for _ in 0..4 {
                inputs.push(mutate(&valid, &marks, e, &mut rng));
            }
            for (bytes, how) in inputs {
                ctx.count("evaluations", 1);
                ctx.count("typed_evaluations", 1);
                let reference = unmarshal(&bytes, &sig, e, off, Some(0));
                let data = Data::new(&bytes[..], dbus_ctxt(e, off));
                let lib = data.deserialize::<T>();
                let detail = |x: serde_json::Value| json!({"shape": name, "endian": e.name(), "offset": off, "bytes": vref::hex(&bytes), "input_kind": how, "issue": x});
                match (reference, lib) {
                    (Ok((rv, rn)), Ok((lv, ln))) => {
                        ctx.count("class:both-accept", 1);
                        let got = sort_dicts(&normalise_g(&lv.to_val()));
                        // Option-as-array shapes accept only 0/1 elements: project the reference through the shape
                        let want = sort_dicts(&normalise_g(&rv));
                        if !(rv.has_duplicate_dict_keys() || dup_keys_numeric(&rv)) && got != want && !name.contains("Option") {
                            ctx.finding(index, "decoded-value-differs", "typed", name, detail(json!({"reference": want.show(), "library": got.show()})));
                        }
                        if rn != ln {
                            ctx.finding(index, "consumed-differs", "typed", name, detail(json!({"reference": rn, "library": ln})));
                        }
                    }
                    (Err((r, t)), Ok((lv, _))) => {
                        ctx.count("class:lib-accepts-invalid", 1);
                        ctx.finding(index, "accepts-invalid", r.name(), &format!("in:{}", type_class(&t)),
                            detail(json!({"reference_error": r.name(), "in_type": t, "library_value": lv.to_val().show()})));
                    }
                    (Ok((rv, _)), Err(err)) => {
                        // an `aT` read as Option<T> legitimately refuses 2+ elements
                        if name.contains("Option") {
                            ctx.count("not_judged_option_arity", 1);
                        } else {
                            ctx.count("class:lib-rejects-valid", 1);
                            ctx.finding(index, "rejects-valid", &err_class(&err), name, detail(json!({"reference_value": rv.show(), "library_error": err.to_string()})));
                        }
                    }
                    (Err(_), Err(_)) => ctx.count("class:both-reject", 1),
                }
            }
        });
    }
}

/// Hand-made invalid encodings, one per rejection cause the property lists.
fn directed(ctx: &mut Ctx, pool: &[OwnedFd]) {
    if ctx.args.shard != 0 {
        return;
    }
    let le = Endian::Le;
    let cases: Vec<(&str, Sig, Vec<u8>)> = vec![
        ("str-no-nul", Sig::S, vec![2, 0, 0, 0, b'a', b'b', b'X']),
        ("str-missing-terminator", Sig::S, vec![2, 0, 0, 0, b'a', b'b']),
        ("str-interior-nul", Sig::S, vec![2, 0, 0, 0, 0, b'b', 0]),
        ("str-bad-utf8", Sig::S, vec![2, 0, 0, 0, 0xc3, 0x28, 0]),
        ("bool-2", Sig::B, vec![2, 0, 0, 0]),
        ("objpath-invalid", Sig::O, vec![3, 0, 0, 0, b'/', b'a', b'/', 0]),
        ("objpath-in-variant", Sig::V, vec![1, b'o', 0, 0, 3, 0, 0, 0, b'a', b'/', b'/', 0]),
        ("sig-invalid", Sig::G, vec![2, b'a', b'{', 0]),
        ("sig-in-variant-invalid", Sig::V, vec![1, b'g', 0, 1, b'(', 0]),
        ("variant-two-types", Sig::V, vec![2, b'y', b'y', 0, 1, 2]),
        ("variant-empty-sig", Sig::V, vec![0, 0]),
        ("variant-sig-bad", Sig::V, vec![1, b'z', 0, 0]),
        ("array-len-not-boundary", Sig::A(Box::new(Sig::U)), vec![6, 0, 0, 0, 1, 0, 0, 0, 2, 0, 0, 0]),
        ("padding-nonzero", Sig::St(vec![Sig::Y, Sig::I]), vec![1, 1, 0, 0, 2, 0, 0, 0]),
        ("array-padding-nonzero", Sig::A(Box::new(Sig::X)), vec![0, 0, 0, 0, 1, 0, 0, 0]),
        ("sig-no-nul", Sig::G, vec![1, b'i', b'X']),
        ("variant-sig-no-nul", Sig::V, vec![1, b'y', b'X', 7]),
        ("fd-index-out-of-range", Sig::H, vec![9, 0, 0, 0]),
    ];
    for (k, (name, sig, bytes)) in cases.into_iter().enumerate() {
        let idx = 9_000_000_000 + k as u64;
        if !ctx.want(idx) {
            continue;
        }
        ctx.count("directed_invalid_vectors", 1);
        let note = format!("directed {name}");
        ctx.guarded(idx, &note, || json!({"name": name}), |ctx| {
            ctx.count("evaluations", 1);
            let (issues, class) = decode_issues(&bytes, &sig, le, 0, pool);
            ctx.count(&format!("class:{class}"), 1);
            report(ctx, idx, &sig, le, 0, &bytes, name, issues);
        });
    }
}
