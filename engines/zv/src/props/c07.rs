//! C07 — container nesting limits are enforced exactly: 32 arrays, 32
//! structures, 64 containers in total (variants count), in both formats.

use super::c01::err_class;
use super::c02::{formats, Fmt};
use super::common::*;
use crate::conv::*;
use crate::dynenc::*;
use serde_json::json;
use std::os::fd::OwnedFd;
use vcommon::Ctx;
use vref::dbus::Endian;
use vref::prng::{fnv, Rng};
use vref::sig::Sig;
use vref::val::Val;
use zvariant::serialized::Data;

#[derive(Clone, Copy, PartialEq, Debug)]
enum K {
    A,
    D,
    S,
    V,
}

fn build(chain: &[K]) -> Val {
    let mut v = Val::Y(7);
    for k in chain.iter().rev() {
        v = match k {
            K::A => Val::A(v.sig(), vec![v]),
            K::D => Val::Dict(Sig::Y, v.sig(), vec![(Val::Y(1), v)]),
            K::S => Val::St(vec![v]),
            K::V => Val::V(Box::new(v)),
        };
    }
    v
}

fn counts(chain: &[K]) -> (usize, usize, usize) {
    let a = chain.iter().filter(|k| matches!(k, K::A | K::D)).count();
    let s = chain.iter().filter(|k| matches!(k, K::S)).count();
    let v = chain.iter().filter(|k| matches!(k, K::V)).count();
    (a, s, v)
}

fn within_limits(a: usize, s: usize, v: usize) -> bool {
    a <= 32 && s <= 32 && a + s + v <= 64
}

fn make_chain(a: usize, s: usize, v: usize, order: usize, rng: &mut Rng) -> Vec<K> {
    let mut groups: Vec<(K, usize)> = vec![(K::A, a), (K::S, s), (K::V, v)];
    let mut chain = Vec::new();
    match order % 8 {
        o @ 0..=5 => {
            // the six orders of the three groups
            let perms = [[0, 1, 2], [0, 2, 1], [1, 0, 2], [1, 2, 0], [2, 0, 1], [2, 1, 0]];
            for &g in &perms[o] {
                for _ in 0..groups[g].1 {
                    chain.push(groups[g].0);
                }
            }
        }
        6 => {
            // round robin
            while groups.iter().any(|g| g.1 > 0) {
                for g in groups.iter_mut() {
                    if g.1 > 0 {
                        chain.push(g.0);
                        g.1 -= 1;
                    }
                }
            }
        }
        _ => {
            for g in &groups {
                for _ in 0..g.1 {
                    chain.push(g.0);
                }
            }
            rng.shuffle(&mut chain);
        }
    }
    // a quarter of the arrays become dicts
    for k in chain.iter_mut() {
        if *k == K::A && rng.chance(1, 4) {
            *k = K::D;
        }
    }
    chain
}

fn is_depth_error(e: &zvariant::Error) -> bool {
    matches!(e, zvariant::Error::MaxDepthExceeded(_))
}

/// Does some variant-delimited segment of the chain nest more than 32 arrays
/// or 32 structures? Then the *signature* of that segment is itself invalid
/// (C06) and the library reports the excess as an invalid signature.
fn signature_itself_too_deep(chain: &[K], extra_struct: bool) -> bool {
    let mut a = 0;
    let mut s = if extra_struct { 1 } else { 0 };
    for k in chain {
        match k {
            K::V => {
                a = 0;
                s = 0;
            }
            K::A | K::D => a += 1,
            K::S => s += 1,
        }
        if a > 32 || s > 32 {
            return true;
        }
    }
    false
}

fn is_signature_error(e: &zvariant::Error) -> bool {
    matches!(e, zvariant::Error::SignatureParse(_)) || e.to_string().contains("Invalid signature")
}

fn check_chain(ctx: &mut Ctx, index: u64, chain: &[K], pool: &[OwnedFd], label: &str, siblings: bool) {
    let (a, s, v) = counts(chain);
    let mut val = build(chain);
    let mut s_eff = s;
    if siblings {
        // two identical deep siblings in one struct: depth must not leak from one to the next
        val = Val::St(vec![val.clone(), val]);
        s_eff += 1;
    }
    let expect_ok = within_limits(a, s_eff, v);
    let sig = val.sig();
    let fdsb: Vec<_> = pool.iter().map(|f| std::os::fd::AsFd::as_fd(f)).collect();
    let shape: String = chain.iter().map(|k| match k { K::A => 'a', K::D => 'd', K::S => 's', K::V => 'v' }).collect();
    for fmt in formats() {
        let e = Endian::Le;
        let ctxt = fmt.ctxt(e, 0);
        ctx.count("evaluations", 1);
        ctx.distinct(fnv(&format!("{}|{}|{}|{}|{}", a, s_eff, v, fmt.name(), label)));
        ctx.count(if expect_ok { "class:within-limits" } else { "class:beyond-limits" }, 1);
        let detail = |x: serde_json::Value| json!({"arrays": a, "structs": s_eff, "variants": v, "chain": shape, "siblings": siblings, "format": fmt.name(), "info": x});
        let over = if a > 32 { "arrays" } else if s_eff > 32 { "structs" } else { "total" };
        let loc = format!("{}:{}", fmt.name(), if expect_ok { "within" } else { over });
        // encode side
        let zv = to_zvalue(&val, &fdsb);
        let enc = lib_encode(ctxt, &zv);
        match (&enc, expect_ok) {
            (Ok(_), true) => {}
            (Err(err), true) => ctx.finding(index, "encode-fails-within-limits", &err_class(err), &loc, detail(json!({"error": err.to_string()}))),
            (Ok(_), false) => ctx.finding(index, "encode-succeeds-beyond-limits", over, &loc, detail(json!({}))),
            (Err(err), false) => {
                if is_depth_error(err) {
                    ctx.count("class:encode-depth-error", 1);
                } else if is_signature_error(err) && signature_itself_too_deep(chain, siblings) {
                    ctx.count("class:encode-depth-reported-as-invalid-signature", 1);
                } else {
                    ctx.count("class:encode-other-error", 1);
                    ctx.finding(index, "encode-other-error-where-depth-error-expected", &err_class(err), &loc, detail(json!({"error": err.to_string()})));
                }
            }
        }
        // decode side: bytes from the reference serialisers so that over-deep inputs exist
        let bytes = match fmt {
            Fmt::DBus => vref::dbus::marshal(&val, e, 0),
            #[cfg(feature = "gvariant")]
            Fmt::GVariant => vref::gv::serialize(&val, e),
        };
        let data = Data::new(&bytes[..], ctxt);
        let Some(dec) = lib_decode(&data, &sig) else { continue };
        match (&dec, expect_ok) {
            (Ok(_), true) => {}
            (Err(err), true) => ctx.finding(index, "decode-fails-within-limits", &err_class(err), &loc, detail(json!({"error": err.to_string()}))),
            (Ok(_), false) => ctx.finding(index, "decode-succeeds-beyond-limits", over, &loc, detail(json!({}))),
            (Err(err), false) => {
                if is_depth_error(err) {
                    ctx.count("class:decode-depth-error", 1);
                } else if is_signature_error(err) && signature_itself_too_deep(chain, siblings) {
                    ctx.count("class:decode-depth-reported-as-invalid-signature", 1);
                } else {
                    ctx.count("class:decode-other-error", 1);
                    ctx.finding(index, "decode-other-error-where-depth-error-expected", &err_class(err), &loc, detail(json!({"error": err.to_string()})));
                }
            }
        }
    }
}

pub fn run(ctx: &mut Ctx) {
    let pool = fd_pool();
    let band: Vec<usize> = vec![0, 1, 2, 30, 31, 32, 33, 34, 40];
    let vband: Vec<usize> = vec![0, 1, 2, 29, 30, 31, 32, 33, 34, 35, 60, 61, 62, 63, 64, 65, 66];
    let mut grid: Vec<(usize, usize, usize)> = Vec::new();
    if ctx.thorough() {
        for a in 0..=40 {
            for s in 0..=40 {
                for v in 0..=40 {
                    grid.push((a, s, v));
                }
            }
        }
        for a in &band {
            for s in &band {
                for v in [60usize, 61, 62, 63, 64, 65, 66] {
                    grid.push((*a, *s, v));
                }
            }
        }
    } else {
        for a in &band {
            for s in &band {
                for v in &vband {
                    grid.push((*a, *s, *v));
                }
            }
        }
    }
    let orders = if ctx.thorough() { 3 } else { 4 };
    let mut gi: u64 = 0;
    for (a, s, v) in grid {
        for o in 0..orders {
            gi += 1;
            if !ctx.mine(gi) || !ctx.want(gi) {
                continue;
            }
            // GVariant nested variants need 8-alignment bookkeeping only; fine.
            if a + s + v == 0 {
                continue;
            }
            let mut rng = ctx.rng(gi);
            let order = if ctx.thorough() { rng.usize_below(8) } else { [0usize, 3, 6, 7][o] };
            let chain = make_chain(a, s, v, order, &mut rng);
            let siblings = rng.chance(1, 5) && s < 40;
            let note = format!("chain a={a} s={s} v={v} o={order}");
            ctx.guarded(gi, &note, || json!({"arrays": a, "structs": s, "variants": v, "order": order}),
                |ctx| check_chain(ctx, gi, &chain, &pool, "grid", siblings));
            if gi < 40 && o == 0 {
                ctx.sample(json!({"arrays": a, "structs": s, "variants": v, "order": order}));
            }
        }
    }
}
