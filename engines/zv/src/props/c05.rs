//! C05 — GVariant encoding follows the GVariant serialisation format.
//! Only meaningful in builds with the `gvariant` feature.

#[cfg(not(feature = "gvariant"))]
pub fn run(ctx: &mut vcommon::Ctx) {
    ctx.count("skipped_no_gvariant_feature", 1);
}

#[cfg(feature = "gvariant")]
pub use imp::*;

#[cfg(feature = "gvariant")]
mod imp {
    use crate::conv::*;
    use crate::dynenc::*;
    use crate::props::c01::err_class;
    use crate::props::common::*;
    use crate::typed::{with_shape, Shape, ShapeFn, OPTION_SHAPES, PALETTE_LEN};
    use serde_json::json;
    use std::os::fd::{AsFd, OwnedFd};
    use vcommon::Ctx;
    use vref::dbus::Endian;
    use vref::gv;
    use vref::prng::fnv;
    use vref::sig::{enumerate_sigs, Sig};
    use vref::val::Val;

    /// Renumber `h` values in order of appearance, one index per mention.
    fn number_fds_by_mention(v: &Val, next: &mut u32) -> Val {
        match v {
            Val::H(_) => {
                let i = *next;
                *next += 1;
                Val::H(i)
            }
            Val::V(x) => Val::V(Box::new(number_fds_by_mention(x, next))),
            Val::A(e, xs) => Val::A(e.clone(), xs.iter().map(|x| number_fds_by_mention(x, next)).collect()),
            Val::Dict(k, vv, es) => Val::Dict(
                k.clone(),
                vv.clone(),
                es.iter()
                    .map(|(a, b)| {
                        let a2 = number_fds_by_mention(a, next);
                        let b2 = number_fds_by_mention(b, next);
                        (a2, b2)
                    })
                    .collect(),
            ),
            Val::St(fs) => Val::St(fs.iter().map(|x| number_fds_by_mention(x, next)).collect()),
            Val::M(c, Some(x)) => Val::M(c.clone(), Some(Box::new(number_fds_by_mention(x, next)))),
            other => other.clone(),
        }
    }

    /// Features of a value that hit one of the *listed* GVariant deviations of
    /// the library (known_findings.json). Values without any are judged
    /// strictly; values with one are reported under that deviation's signature.
    pub fn known_trigger(val: &Val) -> Option<&'static str> {
        fn sig_has_bool(s: &Sig) -> bool {
            match s {
                Sig::B => true,
                Sig::A(c) | Sig::M(c) => sig_has_bool(c),
                Sig::Dict(k, v) => sig_has_bool(k) || sig_has_bool(v),
                Sig::St(fs) => fs.iter().any(sig_has_bool),
                _ => false,
            }
        }
        fn unpadded_fixed_tuple(fs: &[&Sig]) -> bool {
            // all fields fixed-size and the end position not a multiple of the alignment
            let mut pos = 0usize;
            let mut al = 1usize;
            for f in fs {
                let Some(sz) = f.fixed_size_gv() else { return false };
                let a = f.align_gv();
                al = al.max(a);
                pos = (pos + a - 1) / a * a + sz;
            }
            pos % al != 0
        }
        fn sig_has_unpadded(s: &Sig) -> bool {
            match s {
                Sig::A(c) | Sig::M(c) => sig_has_unpadded(c),
                Sig::Dict(k, v) => unpadded_fixed_tuple(&[k, v]) || sig_has_unpadded(k) || sig_has_unpadded(v),
                Sig::St(fs) => unpadded_fixed_tuple(&fs.iter().collect::<Vec<_>>()) || fs.iter().any(sig_has_unpadded),
                _ => false,
            }
        }
        let mut t1 = false;
        let mut t2 = false;
        let mut t3 = false;
        let top = val as *const Val;
        val.visit(&mut |x| {
            let s = x.sig();
            if sig_has_bool(&s) {
                t1 = true;
            }
            if sig_has_unpadded(&s) {
                t2 = true;
            }
            let _ = top;
            if body_is_only_framing(x) {
                t3 = true;
            }
        });
        if t1 {
            Some("bool-is-4-bytes")
        } else if t2 {
            Some("fixed-size-tuple-not-padded")
        } else if t3 {
            Some("zero-length-variable-size-child")
        } else {
            None
        }
    }

    /// The exact shape of the listed zero-length deviation: a container that HAS children of variable size, all of which
    /// serialise to zero bytes (empty arrays / dicts, `Nothing`), so that its normal form consists of framing only
    /// (`aay [[]]` = one offset byte; `(ayay) ([],[])` = one offset byte; `may Just([])` = the one zero byte). The library
    /// writes nothing at all for these. Anything else with empty children (`[["a"], []]`, `("", [])`, ...) is judged strictly.
    pub fn body_is_only_framing(x: &Val) -> bool {
        fn zero(v: &Val) -> bool {
            vref::gv::serialize(v, Endian::Le).is_empty()
        }
        match x {
            Val::A(es, xs) => es.fixed_size_gv().is_none() && !xs.is_empty() && xs.iter().all(zero),
            Val::St(fs) => !fs.is_empty() && fs.iter().all(zero),
            Val::M(c, Some(inner)) => c.fixed_size_gv().is_none() && zero(inner),
            _ => false,
        }
    }

    /// Only the zero-length-child deviation (the one that breaks round trips).
    pub fn zero_length_child(val: &Val) -> bool {
        let mut t3 = false;
        val.visit(&mut |x| {
            if body_is_only_framing(x) {
                t3 = true;
            }
        });
        t3
    }

    pub fn gv_issues(val: &Val, pool: &[OwnedFd], e: Endian, off: usize) -> Vec<Issue> {
        let fdsb: Vec<_> = pool.iter().map(|f| f.as_fd()).collect();
        let zv = to_zvalue(val, &fdsb);
        let ctxt = gv_ctxt(e, off);
        let mut out = Vec::new();
        let data = match lib_encode(ctxt, &zv) {
            Ok(d) => d,
            Err(err) => {
                out.push(issue("encode-error", &err_class(&err), json!({"error": err.to_string()})));
                return out;
            }
        };
        // dict entries in the order the library's Dict iterates (the
        // specification does not fix an order)
        let raws: Vec<i32> = pool.iter().map(|f| std::os::fd::AsRawFd::as_raw_fd(f)).collect();
        let ordered = from_zvalue(&zv, &raws);
        if sort_dicts(&ordered) != sort_dicts(val) {
            out.push(issue("harness-value-mismatch", "to_zvalue", json!({"built": ordered.show()})));
            return out;
        }
        let by_mention = number_fds_by_mention(&ordered, &mut 0);
        let (dedup, _) = canonicalise_fds(&ordered);
        let exp1 = gv::serialize_at(&by_mention, e, off);
        let exp2 = gv::serialize_at(&dedup, e, off);
        let lib = data.bytes();
        if lib != &exp1[..] && lib != &exp2[..] {
            let why = if lib.len() < exp1.len() {
                "shorter-than-spec"
            } else if lib.len() > exp1.len() {
                "longer-than-spec"
            } else {
                "same-length-different-content"
            };
            out.push(issue(
                "bytes-differ",
                why,
                json!({"endian": e.name(), "offset": off, "lib": vref::hex(lib), "expected": vref::hex(&exp1),
                       "first_diff": first_diff(lib, &exp1)}),
            ));
        }
        out
    }

    fn check(ctx: &mut Ctx, index: u64, val: &Val, pool: &[OwnedFd], few: bool, kind: &str) {
        let sigs = val.sig().to_sig_string();
        let offsets: Vec<usize> = if few { vec![0, 1, 4, 7, 8, 13] } else { (0..16).collect() };
        for e in ENDIANS {
            for &off in &offsets {
                ctx.count("evaluations", 1);
                ctx.distinct(fnv(&format!("{}|{}|{}", sigs, e.name(), off % 8)));
                let issues = probe(|| gv_issues(val, pool, e, off));
                if !issues.is_empty() {
                    if let Some(t) = known_trigger(val) {
                        // a listed deviation applies to this value: report under its signature
                        ctx.count(&format!("known_trigger:{t}"), 1);
                        for is in issues {
                            ctx.finding(index, &is.class, "known-deviation", t,
                                json!({"sig": sigs, "value": val.show(), "issue": is.detail}));
                        }
                        // ... but only the listed deviation is excused: with the two type-level deviations modelled in the reference
                        // (booleans as 4 aligned bytes, fixed-size tuples not padded) the library's bytes must be EXACTLY the model's,
                        // so that any other difference in such a value still shows. (The zero-length shape is not modelled.)
                        if !zero_length_child(val) {
                            vref::sig::set_gv_quirks(true, true);
                            let beyond = probe(|| gv_issues(val, pool, e, off));
                            vref::sig::set_gv_quirks(false, false);
                            ctx.count("judged_against_deviation_model", 1);
                            for is in beyond {
                                ctx.finding(index, &is.class, "beyond-listed-deviation", t,
                                    json!({"sig": sigs, "value": val.show(), "issue_against_the_deviation_model": is.detail}));
                            }
                        }
                    } else {
                        // shrink without ever entering the territory of a listed deviation
                        report_shrunk(ctx, index, &format!("{}@{}:", e.name(), off % 8), val, issues, false,
                            &mut |v| if known_trigger(v).is_some() { Vec::new() } else { probe(|| gv_issues(v, pool, e, off)) });
                    }
                    return;
                }
            }
        }
        ctx.count(if known_trigger(val).is_some() { "passed_with_trigger" } else { "passed_trigger_free" }, 1);
        ctx.sample(json!({"kind": kind, "sig": sigs, "value": val.show(),
                          "le_offset0": vref::hex(&gv::serialize_at(val, Endian::Le, 0))}));
    }

    pub fn run(ctx: &mut Ctx) {
        let pool = fd_pool();
        directed(ctx, &pool);
        let n = ctx.budget(3000, 60_000);
        for i in 0..n {
            if !ctx.want(i) {
                continue;
            }
            let mut rng = ctx.rng(i);
            let big = rng.chance(1, 12);
            let allow_fd = rng.chance(1, 8);
            let case = gen_case(&mut rng, CaseOpts { allow_maybe: true, allow_fd, max_depth: 4, big });
            let note = format!("dyn {}", case.sig);
            let c2 = (case.sig.to_sig_string(), case.val.show());
            ctx.guarded(i, &note, || json!({"sig": c2.0, "value": c2.1}), |ctx| check(ctx, i, &case.val, &pool, big, "dynamic"));
        }
        // typed shapes
        let total = (PALETTE_LEN + OPTION_SHAPES) as u64;
        let m = ctx.budget(total * 6, total * 150);
        for j in 0..m {
            let i = 1_000_000 + j;
            if !ctx.want(i) {
                continue;
            }
            let mut f = TypedGv { ctx, index: i };
            with_shape(j as usize, &mut f);
        }
        // exhaustive small signatures incl. maybe
        let nodes = if ctx.thorough() { 4 } else { 3 };
        let sigs = enumerate_sigs(nodes, true, false);
        for (gi, sig) in sigs.into_iter().enumerate() {
            if !ctx.mine(gi as u64) {
                continue;
            }
            let i = 2_000_000 + gi as u64;
            if !ctx.want(i) {
                continue;
            }
            let mut rng = ctx.rng(i);
            let case = gen_case_for_sig(&mut rng, sig, CaseOpts { allow_maybe: true, allow_fd: false, max_depth: 2, big: false });
            let note = format!("enum {}", case.sig);
            let c2 = (case.sig.to_sig_string(), case.val.show());
            ctx.guarded(i, &note, || json!({"sig": c2.0, "value": c2.1}), |ctx| check(ctx, i, &case.val, &pool, true, "enumerated"));
            ctx.count("exhaustive_signatures_run", 1);
        }
        // framing-offset width thresholds
        thresholds(ctx, &pool);
    }

    /// Containers whose total size lands on both sides of 255/256 and
    /// 65535/65536 (including the cases where the offsets themselves push it over).
    fn thresholds(ctx: &mut Ctx, pool: &[OwnedFd]) {
        let mut k = 0u64;
        let mut targets: Vec<usize> = (246..=262).collect();
        if cfg!(miri) {
            // 64 KiB containers cost tens of minutes each under the interpreter (12 encodings per case): the 2-byte/4-byte switch is
            // left to the native layers, the 1-byte/2-byte switch stays
        } else {
            targets.extend(65520..=65542);
        }
        for &t in &targets {
            for nelem in [1usize, 2, 3, 7] {
                for shape in 0..5 {
                    k += 1;
                    if !ctx.mine(k) {
                        continue;
                    }
                    let i = 3_000_000 + k;
                    if !ctx.want(i) {
                        continue;
                    }
                    // body budget: strings with total (len+1) bytes == t - nelem - slack
                    let per = t.saturating_sub(nelem) / nelem;
                    if per < 2 {
                        continue;
                    }
                    let strs: Vec<Val> = (0..nelem)
                        .map(|j| Val::S("x".repeat(per - 1 + if j == 0 { t.saturating_sub(nelem) % nelem } else { 0 })))
                        .collect();
                    let val = match shape {
                        0 => Val::A(Sig::S, strs),
                        1 => {
                            let mut fs = strs;
                            fs.push(Val::Y(1));
                            Val::St(fs)
                        }
                        2 => Val::A(Sig::A(Box::new(Sig::Y)), strs.iter().map(|s| match s {
                            Val::S(x) => Val::A(Sig::Y, x.bytes().map(Val::Y).collect()),
                            _ => unreachable!(),
                        }).collect()),
                        3 => Val::Dict(Sig::Q, Sig::S, strs.into_iter().enumerate().map(|(j, s)| (Val::Q(j as u16), s)).collect()),
                        // variable-size keys: every dict entry carries a framing offset for its key, and the entry's own size
                        // (with that offset) crosses the thresholds
                        _ => Val::Dict(Sig::S, Sig::S, strs.into_iter().enumerate().map(|(j, s)| (Val::S(format!("k{j}")), s)).collect()),
                    };
                    let note = format!("threshold target={t} n={nelem} shape={shape}");
                    let len = gv::serialize(&val, Endian::Le).len();
                    ctx.count(if len <= 255 { "threshold_le_255" } else if len <= 65535 { "threshold_256_65535" } else { "threshold_ge_65536" }, 1);
                    ctx.guarded(i, &note, || json!({"target": t, "n": nelem, "shape": shape}), |ctx| {
                        ctx.count("evaluations", 1);
                        ctx.distinct(fnv(&format!("thr|{t}|{nelem}|{shape}")));
                        for e in ENDIANS {
                            let issues = probe(|| gv_issues(&val, pool, e, 0));
                            if !issues.is_empty() {
                                for is in issues {
                                    let loc = format!("threshold:shape{}:{}", shape, if len <= 255 { "<=255" } else if len <= 65535 { "<=65535" } else { ">65535" });
                                    ctx.finding(i, &is.class, &is.reason, &loc, json!({"target": t, "n": nelem, "shape": shape, "total_len": len, "endian": e.name()}));
                                }
                                return;
                            }
                        }
                    });
                }
            }
        }
    }

    struct TypedGv<'a> {
        ctx: &'a mut Ctx,
        index: u64,
    }

    impl<'a> ShapeFn for TypedGv<'a> {
        fn call<T: Shape>(&mut self, name: &'static str) {
            let index = self.index;
            let sig = T::sig();
            if cfg!(feature = "option-as-array") && name.contains("Option") {
                // README: gvariant and option-as-array conflict (Option<T> unsupported in GVariant then)
                self.ctx.count("not_judged_option_gvariant_with_option_as_array", 1);
                return;
            }
            let mut rng = self.ctx.rng(index);
            let case = gen_case_for_sig(&mut rng, sig.clone(), CaseOpts { allow_maybe: true, allow_fd: false, max_depth: 3, big: false });
            let shown = case.val.show();
            let note = format!("typed {name}");
            self.ctx.guarded(index, &note, || json!({"shape": name, "value": shown}), |ctx| {
                let t = T::from_val(&case.val);
                let val = t.to_val();
                let has_multi_dict = {
                    let mut m = false;
                    val.visit(&mut |x| {
                        if let Val::Dict(_, _, es) = x {
                            if es.len() > 1 {
                                m = true
                            }
                        }
                    });
                    m
                };
                if has_multi_dict {
                    // std maps iterate in their own order; not judged here (the dynamic path covers dicts)
                    ctx.count("not_judged_typed_multi_entry_map", 1);
                    return;
                }
                for e in ENDIANS {
                    for off in [0usize, 1, 4, 7, 8] {
                        ctx.count("evaluations", 1);
                        ctx.count("typed_evaluations", 1);
                        ctx.distinct(fnv(&format!("typed|{}|{}|{}", name, e.name(), off)));
                        let ctxt = gv_ctxt(e, off);
                        match zvariant::to_bytes(ctxt, &t) {
                            Err(err) => {
                                ctx.finding(index, "encode-error", &err_class(&err), name, json!({"shape": name, "value": val.show(), "error": err.to_string()}));
                                return;
                            }
                            Ok(d) => {
                                let exp = gv::serialize_at(&val, e, off);
                                if d.bytes() != &exp[..] {
                                    if let Some(t) = known_trigger(&val) {
                                        ctx.count(&format!("known_trigger:{t}"), 1);
                                        ctx.finding(index, "bytes-differ", "known-deviation", t,
                                            json!({"shape": name, "value": val.show(), "lib": vref::hex(d.bytes()), "expected": vref::hex(&exp)}));
                                    } else {
                                        ctx.finding(index, "bytes-differ", "typed", name,
                                            json!({"shape": name, "value": val.show(), "endian": e.name(), "offset": off,
                                                   "lib": vref::hex(d.bytes()), "expected": vref::hex(&exp)}));
                                    }
                                    return;
                                }
                            }
                        }
                    }
                }
            });
        }
    }

    fn directed(ctx: &mut Ctx, pool: &[OwnedFd]) {
        if ctx.args.shard != 0 {
            return;
        }
        let s = |x: &str| Val::S(x.into());
        // GLib-confirmed vectors (DESIGN.md appendix A.9)
        let vs = vec![
            Val::St(vec![s("a"), s("bc"), s("d")]),
            Val::St(vec![Val::Y(1), s("x"), Val::I(2)]),
            Val::St(vec![Val::I(1), Val::Y(2)]),
            Val::St(vec![Val::X(1), Val::Y(2)]),
            Val::A(Sig::B, vec![Val::B(true), Val::B(false)]),
            Val::St(vec![Val::B(true), Val::Y(1)]),
            Val::M(Sig::S, Some(Box::new(s("x")))),
            Val::M(Sig::I, Some(Box::new(Val::I(5)))),
            Val::A(Sig::V, vec![Val::V(Box::new(Val::I(1))), Val::V(Box::new(Val::I(2)))]),
            Val::St(vec![Val::A(Sig::I, vec![Val::I(1)]), Val::Y(7)]),
            Val::A(Sig::A(Box::new(Sig::Y)), vec![Val::A(Sig::Y, vec![])]),
            Val::A(Sig::M(Box::new(Sig::Y)), vec![Val::M(Sig::Y, None)]),
            Val::St(vec![Val::A(Sig::Y, vec![]), Val::A(Sig::Y, vec![])]),
            Val::St(vec![s("a"), Val::Q(258), s("bc")]),
            Val::Dict(Sig::S, Sig::V, vec![(s("k"), Val::V(Box::new(Val::I(1))))]),
        ];
        for (k, v) in vs.iter().enumerate() {
            let idx = 9_000_000 + k as u64;
            if ctx.want(idx) {
                let vv = v.clone();
                ctx.guarded(idx, "directed glib-vector", || json!({}), |ctx| check(ctx, idx, &vv, pool, false, "directed"));
            }
        }
    }
}
