//! Helpers shared by the zvariant property monitors.

use std::os::fd::{AsRawFd, BorrowedFd, OwnedFd};
use vref::dbus::Endian;
use vref::prng::Rng;
use vref::sig::{gen_sig, GenOpts, Sig};
use vref::val::{gen_val, Val, ValOpts};
use zvariant::serialized::Context;

pub fn zendian(e: Endian) -> zvariant::Endian {
    match e {
        Endian::Le => zvariant::Endian::Little,
        Endian::Be => zvariant::Endian::Big,
    }
}

pub fn dbus_ctxt(e: Endian, off: usize) -> Context {
    Context::new_dbus(zendian(e), off)
}

#[cfg(feature = "gvariant")]
pub fn gv_ctxt(e: Endian, off: usize) -> Context {
    Context::new_gvariant(zendian(e), off)
}

pub const ENDIANS: [Endian; 2] = [Endian::Le, Endian::Be];

/// Four distinct real files whose descriptors stand in for `h` values.
pub fn fd_pool() -> Vec<OwnedFd> {
    ["/dev/null", "/dev/zero", "/dev/full", "/dev/urandom"]
        .iter()
        .map(|p| OwnedFd::from(std::fs::File::open(p).expect("open fd pool file")))
        .collect()
}

pub fn dev_ino(fd: BorrowedFd<'_>) -> (u64, u64) {
    use std::os::unix::fs::MetadataExt;
    let f = std::fs::File::from(fd.try_clone_to_owned().expect("dup"));
    let m = f.metadata().expect("fstat");
    (m.dev(), m.ino())
}

pub fn raw_fds(fds: &[OwnedFd]) -> Vec<i32> {
    fds.iter().map(|f| f.as_raw_fd()).collect()
}

/// One generated dynamic case.
pub struct DynCase {
    pub sig: Sig,
    pub val: Val,
    /// pool index used for `h:i` (identity: values hold pool indices)
    pub fd_map: Vec<u32>,
}

#[derive(Clone, Copy)]
pub struct CaseOpts {
    pub allow_maybe: bool,
    pub allow_fd: bool,
    pub max_depth: usize,
    pub big: bool,
}

/// Generate signature + value; `g` values hold at most one complete type (the
/// library cannot represent "ii" distinctly from "(ii)").
pub fn gen_case(rng: &mut Rng, o: CaseOpts) -> DynCase {
    let so = GenOpts {
        max_depth: o.max_depth,
        max_fields: 4,
        allow_maybe: o.allow_maybe,
        allow_fd: o.allow_fd,
        allow_variant: true,
    };
    let sig = gen_sig(rng, &so, 0);
    gen_case_for_sig(rng, sig, o)
}

pub fn gen_case_for_sig(rng: &mut Rng, sig: Sig, o: CaseOpts) -> DynCase {
    let so = GenOpts {
        max_depth: o.max_depth,
        max_fields: 4,
        allow_maybe: o.allow_maybe,
        allow_fd: o.allow_fd,
        allow_variant: true,
    };
    let vo = ValOpts {
        budget: if o.big { 400 } else { 40 },
        max_len: if o.big { 40 } else { 5 },
        boundary_pct: 40,
        nfds: 4,
        sig: so,
        max_str: if o.big { 300 } else { 12 },
    };
    let val = gen_val(rng, &sig, &vo);
    let val = single_type_g(&val);
    let fd_map = (0..4).collect();
    DynCase { sig, val, fd_map }
}

fn single_type_g(v: &Val) -> Val {
    match v {
        Val::G(s) => {
            let p = vref::sig::parse_sig(s.as_bytes(), vref::sig::SigOpts { allow_maybe: false })
                .unwrap_or_default();
            if p.len() >= 2 {
                Val::G(p[0].to_sig_string())
            } else {
                Val::G(s.clone())
            }
        }
        Val::V(x) => Val::V(Box::new(single_type_g(x))),
        Val::A(e, xs) => Val::A(e.clone(), xs.iter().map(single_type_g).collect()),
        Val::Dict(k, vv, es) => {
            // re-deduplicate keys in case truncation made two keys equal
            let mut out: Vec<(Val, Val)> = Vec::new();
            for (a, b) in es {
                let a2 = single_type_g(a);
                if out.iter().any(|(kk, _)| vref::val::dict_key_equal(kk, &a2)) {
                    continue;
                }
                out.push((a2, single_type_g(b)));
            }
            Val::Dict(k.clone(), vv.clone(), out)
        }
        Val::St(fs) => Val::St(fs.iter().map(single_type_g).collect()),
        Val::M(c, Some(x)) => Val::M(c.clone(), Some(Box::new(single_type_g(x)))),
        other => other.clone(),
    }
}

/// Borrowed fds in canonical order for a case.
pub fn case_fds<'a>(pool: &'a [OwnedFd], map: &[u32]) -> Vec<BorrowedFd<'a>> {
    use std::os::fd::AsFd;
    map.iter().map(|i| pool[*i as usize].as_fd()).collect()
}

pub fn first_diff(a: &[u8], b: &[u8]) -> usize {
    a.iter().zip(b.iter()).position(|(x, y)| x != y).unwrap_or(a.len().min(b.len()))
}

/// Coarse, stable class of a signature for finding locators.
pub fn sig_class(s: &Sig) -> &'static str {
    match s {
        Sig::A(_) => "array",
        Sig::Dict(..) => "dict",
        Sig::St(_) => "struct",
        Sig::V => "variant",
        Sig::M(_) => "maybe",
        Sig::S | Sig::O | Sig::G => "string-like",
        Sig::H => "fd",
        _ => "fixed-basic",
    }
}

/// (dev, ino) of each pool fd.
pub fn pool_ids(pool: &[OwnedFd]) -> Vec<(u64, u64)> {
    use std::os::fd::AsFd;
    pool.iter().map(|f| dev_ino(f.as_fd())).collect()
}

/// Replace every `h:i` (index into `attached`) by `h:j` where `j` is the pool
/// file that attached fd refers to; u32::MAX if out of range or unknown.
pub fn map_fds_to_pool(v: &Val, attached: &[(u64, u64)], pool: &[(u64, u64)]) -> Val {
    match v {
        Val::H(i) => {
            let j = attached
                .get(*i as usize)
                .and_then(|id| pool.iter().position(|p| p == id))
                .map(|j| j as u32)
                .unwrap_or(u32::MAX);
            Val::H(j)
        }
        Val::V(x) => Val::V(Box::new(map_fds_to_pool(x, attached, pool))),
        Val::A(e, xs) => Val::A(e.clone(), xs.iter().map(|x| map_fds_to_pool(x, attached, pool)).collect()),
        Val::Dict(k, vv, es) => Val::Dict(
            k.clone(),
            vv.clone(),
            es.iter()
                .map(|(a, b)| (map_fds_to_pool(a, attached, pool), map_fds_to_pool(b, attached, pool)))
                .collect(),
        ),
        Val::St(fs) => Val::St(fs.iter().map(|x| map_fds_to_pool(x, attached, pool)).collect()),
        Val::M(c, Some(x)) => Val::M(c.clone(), Some(Box::new(map_fds_to_pool(x, attached, pool)))),
        other => other.clone(),
    }
}

pub fn has_dict_or_fd(v: &Val) -> bool {
    let mut d = false;
    v.visit(&mut |x| {
        if matches!(x, Val::Dict(..) | Val::H(_)) {
            d = true
        }
    });
    d
}

// --------------------------------------------------------------------------
// Issues, probing and shrinking

pub struct Issue {
    pub class: String,
    pub reason: String,
    pub detail: serde_json::Value,
}

pub fn issue(class: &str, reason: &str, detail: serde_json::Value) -> Issue {
    Issue { class: class.to_string(), reason: reason.to_string(), detail }
}

/// Run an oracle; a panic inside becomes an issue of class `panic`.
pub fn probe<F: FnOnce() -> Vec<Issue>>(f: F) -> Vec<Issue> {
    match std::panic::catch_unwind(std::panic::AssertUnwindSafe(f)) {
        Ok(v) => v,
        Err(_) => {
            let (loc, msg) = vcommon::ctx::take_last_panic().unwrap_or(("?".into(), "?".into()));
            vec![issue(
                "panic",
                &vcommon::ctx::short_loc(&loc),
                serde_json::json!({"panic_location": loc, "panic_message": msg}),
            )]
        }
    }
}

/// Emit each distinct (class, reason) among `issues` as a finding whose
/// locator is the shrunk witness `<sig>:<value>`.
pub fn report_shrunk(
    ctx: &mut vcommon::Ctx,
    index: u64,
    prefix: &str,
    val: &Val,
    issues: Vec<Issue>,
    keep_sig: bool,
    oracle: &mut dyn FnMut(&Val) -> Vec<Issue>,
) {
    let mut seen: Vec<(String, String)> = Vec::new();
    for is in issues {
        let key = (is.class.clone(), is.reason.clone());
        if seen.contains(&key) {
            continue;
        }
        seen.push(key.clone());
        let budget_key = format!("shrunk:{}|{}", key.0, key.1);
        ctx.count(&budget_key, 1);
        let (min, probes) = vref::val::shrink(val, keep_sig, 4000, &mut |cand| {
            oracle(cand).iter().any(|i| i.class == key.0 && i.reason == key.1)
        });
        ctx.count("shrink_probes", probes as u64);
        let mut loc = format!("{}{}:{}", prefix, min.sig(), min.show());
        if loc.len() > 160 {
            loc.truncate(160);
        }
        let min_detail = oracle(&min)
            .into_iter()
            .find(|i| i.class == key.0 && i.reason == key.1)
            .map(|i| i.detail)
            .unwrap_or(serde_json::Value::Null);
        ctx.finding(
            index,
            &is.class,
            &is.reason,
            &loc,
            serde_json::json!({"original": {"sig": val.sig().to_sig_string(), "value": val.show(), "issue": is.detail},
                               "minimal": {"sig": min.sig().to_sig_string(), "value": min.show(), "issue": min_detail}}),
        );
    }
}
