//! C08 — dynamic values obey equality, ordering, hashing and conversion laws.

use super::common::*;
use crate::conv::*;
use serde_json::json;
use std::cmp::Ordering;
use std::collections::hash_map::DefaultHasher;
use std::collections::HashMap;
use std::hash::{Hash, Hasher};
use std::os::fd::OwnedFd;
use vcommon::Ctx;
use vref::dbus::Endian;
use vref::prng::{fnv, Rng};
use vref::sig::{gen_sig, GenOpts, Sig};
use vref::val::{gen_val, Val, ValOpts};
use zvariant::{OwnedValue, Value};

fn h(v: &Value<'_>) -> u64 {
    let mut s = DefaultHasher::new();
    v.hash(&mut s);
    s.finish()
}

fn contains_nan(v: &Val) -> bool {
    let mut n = false;
    v.visit(&mut |x| {
        if let Val::D(b) = x {
            if f64::from_bits(*b).is_nan() {
                n = true;
            }
        }
    });
    n
}

/// Model equality: structural, doubles compared numerically (+0.0 == -0.0)
/// and every NaN equal to itself only bitwise (values with NaN are handled as
/// a listed deviation anyway), dict entries as a set.
fn model_eq(a: &Val, b: &Val) -> bool {
    match (a, b) {
        (Val::D(x), Val::D(y)) => x == y || f64::from_bits(*x) == f64::from_bits(*y),
        (Val::V(x), Val::V(y)) => model_eq(x, y),
        (Val::A(e1, xs), Val::A(e2, ys)) => e1 == e2 && xs.len() == ys.len() && xs.iter().zip(ys).all(|(x, y)| model_eq(x, y)),
        (Val::Dict(k1, v1, xs), Val::Dict(k2, v2, ys)) => {
            k1 == k2 && v1 == v2 && xs.len() == ys.len()
                && xs.iter().all(|(k, v)| ys.iter().any(|(k2, v2)| model_eq(k, k2) && model_eq(v, v2)))
        }
        (Val::St(xs), Val::St(ys)) => xs.len() == ys.len() && xs.iter().zip(ys).all(|(x, y)| model_eq(x, y)),
        (Val::M(c1, x), Val::M(c2, y)) => {
            c1 == c2 && match (x, y) {
                (None, None) => true,
                (Some(x), Some(y)) => model_eq(x, y),
                _ => false,
            }
        }
        (Val::G(x), Val::G(y)) => norm_g(x) == norm_g(y),
        _ => a == b,
    }
}

/// Change one leaf (or the length of one container) somewhere in the value.
fn perturb(v: &Val, rng: &mut Rng) -> Val {
    match v {
        Val::Y(x) => Val::Y(x.wrapping_add(1)),
        Val::B(x) => Val::B(!x),
        Val::N(x) => Val::N(x.wrapping_add(1)),
        Val::Q(x) => Val::Q(x.wrapping_add(1)),
        Val::I(x) => Val::I(x.wrapping_sub(1)),
        Val::U(x) => Val::U(x.wrapping_add(1)),
        Val::X(x) => Val::X(x.wrapping_neg().wrapping_add(1)),
        Val::T(x) => Val::T(x ^ 1),
        Val::D(x) => {
            let f = f64::from_bits(*x);
            if f == 0.0 {
                Val::D(x ^ 0x8000_0000_0000_0000) // flip the sign of zero: still equal
            } else {
                Val::D(x ^ 1)
            }
        }
        Val::S(s) => Val::S(format!("{s}x")),
        Val::O(s) => Val::O(if s == "/" { "/a".into() } else { format!("{s}/z") }),
        Val::G(s) => Val::G(if s.is_empty() { "i".into() } else { String::new() }),
        Val::H(i) => Val::H((i + 1) % 4),
        Val::V(x) => {
            if rng.chance(1, 4) {
                Val::V(Box::new(Val::Y(1)))
            } else {
                Val::V(Box::new(perturb(x, rng)))
            }
        }
        Val::A(e, xs) => {
            if xs.is_empty() || rng.chance(1, 4) {
                let mut ys = xs.clone();
                if ys.is_empty() {
                    ys.push(gen_val(rng, e, &ValOpts { budget: 4, ..Default::default() }));
                } else {
                    ys.pop();
                }
                Val::A(e.clone(), ys)
            } else {
                let i = rng.usize_below(xs.len());
                let mut ys = xs.clone();
                ys[i] = perturb(&xs[i], rng);
                Val::A(e.clone(), ys)
            }
        }
        Val::Dict(k, vv, es) => {
            if es.is_empty() {
                return v.clone();
            }
            let i = rng.usize_below(es.len());
            let mut ys = es.clone();
            if rng.chance(1, 4) {
                ys.remove(i);
            } else {
                ys[i].1 = perturb(&es[i].1, rng);
            }
            Val::Dict(k.clone(), vv.clone(), ys)
        }
        Val::St(fs) => {
            let i = rng.usize_below(fs.len());
            let mut ys = fs.clone();
            ys[i] = perturb(&fs[i], rng);
            Val::St(ys)
        }
        Val::M(c, x) => match x {
            None => Val::M(c.clone(), Some(Box::new(gen_val(rng, c, &ValOpts { budget: 4, ..Default::default() })))),
            Some(x) => {
                if rng.chance(1, 3) {
                    Val::M(c.clone(), None)
                } else {
                    Val::M(c.clone(), Some(Box::new(perturb(x, rng))))
                }
            }
        },
    }
}

fn gen_triple(rng: &mut Rng, allow_maybe: bool) -> [Val; 3] {
    let so = GenOpts { max_depth: 3, max_fields: 3, allow_maybe, allow_fd: rng.chance(1, 10), allow_variant: true };
    let vo = ValOpts { budget: 20, max_len: 4, boundary_pct: 50, nfds: 4, sig: so, max_str: 6 };
    let sig = gen_sig(rng, &so, 0);
    let a = gen_val(rng, &sig, &vo);
    let next = |prev: &Val, rng: &mut Rng| -> Val {
        match rng.below(10) {
            0..=3 => prev.clone(),
            4..=7 => perturb(prev, rng),
            8 => gen_val(rng, &sig, &vo),
            _ => {
                let s2 = gen_sig(rng, &so, 0);
                gen_val(rng, &s2, &vo)
            }
        }
    };
    let b = next(&a, rng);
    let c = if rng.chance(1, 3) { next(&a, rng) } else { next(&b, rng) };
    [a, b, c]
}

fn law(ctx: &mut Ctx, index: u64, name: &str, ok: bool, nan: bool, vals: &[&Val]) {
    ctx.count("law_checks", 1);
    if ok {
        return;
    }
    let detail = json!({"law": name, "values": vals.iter().map(|v| format!("{}: {}", v.sig(), v.show())).collect::<Vec<_>>()});
    if nan {
        ctx.count("known_trigger:nan", 1);
        ctx.finding(index, name, "known-deviation", "value-contains-NaN", detail);
    } else {
        let kinds: Vec<&str> = vals.iter().map(|v| sig_class(&v.sig())).collect();
        ctx.finding(index, name, "-", &kinds.join(","), detail);
    }
}

fn check_triple(ctx: &mut Ctx, index: u64, t: &[Val; 3], pool: &[OwnedFd]) {
    let fds: Vec<_> = pool.iter().map(|f| std::os::fd::AsFd::as_fd(f)).collect();
    let raws = raw_fds(pool);
    let z: Vec<Value<'_>> = t.iter().map(|v| to_zvalue(v, &fds)).collect();
    let nan = t.iter().any(contains_nan);
    ctx.count("evaluations", 1);
    ctx.count(if nan { "class:with-nan" } else { "class:nan-free" }, 1);
    let (a, b, c) = (&z[0], &z[1], &z[2]);
    let (va, vb, vc) = (&t[0], &t[1], &t[2]);
    // equality
    for (x, vx) in z.iter().zip(t.iter()) {
        #[allow(clippy::eq_op)]
        let refl = x == x;
        law(ctx, index, "eq-not-reflexive", refl, nan, &[vx]);
        law(ctx, index, "cmp-self-not-equal", x.cmp(x) == Ordering::Equal, nan, &[vx]);
    }
    law(ctx, index, "eq-not-symmetric", (a == b) == (b == a), nan, &[va, vb]);
    law(ctx, index, "eq-not-transitive", !(a == b && b == c) || a == c, nan, &[va, vb, vc]);
    // model agreement (catches e.g. equality ignoring a field)
    for (i, j) in [(0usize, 1usize), (1, 2), (0, 2)] {
        let m = model_eq(&t[i], &t[j]);
        law(ctx, index, "eq-disagrees-with-model", (z[i] == z[j]) == m, nan, &[&t[i], &t[j]]);
        if m {
            ctx.count("class:equal-pair", 1);
        } else {
            ctx.count("class:unequal-pair", 1);
        }
        // ordering
        let ab = z[i].cmp(&z[j]);
        let ba = z[j].cmp(&z[i]);
        law(ctx, index, "cmp-not-antisymmetric", ab == ba.reverse(), nan, &[&t[i], &t[j]]);
        law(ctx, index, "ord-inconsistent-with-eq", (ab == Ordering::Equal) == (z[i] == z[j]), nan, &[&t[i], &t[j]]);
        law(ctx, index, "partial_cmp-differs-from-cmp", z[i].partial_cmp(&z[j]) == Some(ab), nan, &[&t[i], &t[j]]);
        // hashing
        if z[i] == z[j] {
            law(ctx, index, "equal-values-hash-differently", h(&z[i]) == h(&z[j]), nan, &[&t[i], &t[j]]);
        }
    }
    let le = |x: &Value<'_>, y: &Value<'_>| x.cmp(y) != Ordering::Greater;
    law(ctx, index, "cmp-not-transitive", !(le(a, b) && le(b, c)) || le(a, c), nan, &[va, vb, vc]);
    // sorting with the library's Ord must be deterministic irrespective of input order
    // clone / owned
    for (x, vx) in z.iter().zip(t.iter()) {
        match x.try_clone() {
            Ok(cl) => {
                law(ctx, index, "clone-not-equal", &cl == x || nan, nan, &[vx]);
                law(ctx, index, "clone-signature-differs", cl.value_signature() == x.value_signature(), false, &[vx]);
                law(ctx, index, "clone-projection-differs", sort_dicts(&from_zvalue(&cl, &raws)) == sort_dicts(&from_zvalue(x, &raws)), false, &[vx]);
            }
            Err(e) => ctx.finding(index, "try_clone-error", "-", sig_class(&vx.sig()), json!({"error": e.to_string(), "value": vx.show()})),
        }
        let has_fd = vx.count_fds() > 0;
        match x.try_to_owned() {
            Ok(o) => {
                let back: &Value<'_> = &o;
                if !has_fd {
                    law(ctx, index, "owned-not-equal", back == x || nan, nan, &[vx]);
                    law(ctx, index, "owned-projection-differs", sort_dicts(&from_zvalue(back, &raws)) == sort_dicts(&from_zvalue(x, &raws)), false, &[vx]);
                }
                law(ctx, index, "owned-signature-differs", back.value_signature() == x.value_signature(), false, &[vx]);
                // OwnedValue -> Value -> OwnedValue
                if let Ok(o2) = OwnedValue::try_from(back.try_clone().unwrap()) {
                    if !has_fd {
                        law(ctx, index, "owned-roundtrip-not-equal", o2 == o || nan, nan, &[vx]);
                    }
                }
            }
            Err(e) => ctx.finding(index, "try_to_owned-error", "-", sig_class(&vx.sig()), json!({"error": e.to_string(), "value": vx.show()})),
        }
        // reported signature is the one used on the wire
        let want_sig = vx.sig().to_sig_string();
        law(ctx, index, "value_signature-differs-from-model", x.value_signature().to_string() == want_sig, false, &[vx]);
        let mut has_maybe = false;
        vx.visit(&mut |y| {
            if matches!(y, Val::M(..)) || y.sig().contains_maybe() {
                has_maybe = true
            }
        });
        if !has_maybe {
            // encoded as a variant: <len><signature>\0<value>
            if let Ok(d) = zvariant::to_bytes(dbus_ctxt(Endian::Le, 0), x) {
                let b = d.bytes();
                let n = b[0] as usize;
                let wire = String::from_utf8_lossy(&b[1..1 + n]).to_string();
                law(ctx, index, "value_signature-differs-from-encoded", wire == x.value_signature().to_string(), false, &[vx]);
            }
        } else {
            #[cfg(feature = "gvariant")]
            if let Ok(d) = zvariant::to_bytes(gv_ctxt(Endian::Le, 0), x) {
                // GVariant variant: <value>\0<signature>
                let b = d.bytes();
                if let Some(p) = b.iter().rposition(|c| *c == 0) {
                    let wire = String::from_utf8_lossy(&b[p + 1..]).to_string();
                    law(ctx, index, "value_signature-differs-from-encoded", wire == x.value_signature().to_string(), false, &[vx]);
                }
            }
        }
    }
    ctx.distinct(fnv(&format!("{}|{}|{}", t[0].sig(), t[1].sig(), t[2].sig())) ^ (model_eq(&t[0], &t[1]) as u64) ^ ((model_eq(&t[1], &t[2]) as u64) << 1));
}

macro_rules! conv_check {
    ($ctx:expr, $index:expr, $t:ty, $val:expr) => {{
        let x: $t = $val;
        let name = stringify!($t);
        $ctx.count("conversion_checks", 1);
        let v = Value::from(x.clone());
        match <$t>::try_from(v.try_clone().unwrap()) {
            Ok(y) => {
                if !conv_eq(&x, &y) {
                    $ctx.finding($index, "conversion-roundtrip-differs", "Value", name, json!({"type": name, "original": format!("{:?}", x), "back": format!("{:?}", y)}));
                }
            }
            Err(e) => $ctx.finding($index, "conversion-back-error", "Value", name, json!({"type": name, "original": format!("{:?}", x), "error": e.to_string()})),
        }
        match v.try_to_owned() {
            Ok(o) => match <$t>::try_from(o) {
                Ok(y) => {
                    if !conv_eq(&x, &y) {
                        $ctx.finding($index, "conversion-roundtrip-differs", "OwnedValue", name, json!({"type": name, "original": format!("{:?}", x), "back": format!("{:?}", y)}));
                    }
                }
                Err(e) => $ctx.finding($index, "conversion-back-error", "OwnedValue", name, json!({"type": name, "original": format!("{:?}", x), "error": e.to_string()})),
            },
            Err(e) => $ctx.finding($index, "try_to_owned-error", "conversion", name, json!({"error": e.to_string()})),
        }
    }};
}

/// Equality for conversion round trips: Debug form (NaN-safe, order-insensitive for maps is handled by sorting keys there).
fn conv_eq<T: std::fmt::Debug>(a: &T, b: &T) -> bool {
    let (mut x, mut y) = (format!("{a:?}"), format!("{b:?}"));
    if x.starts_with('{') {
        // HashMap debug order is arbitrary: compare as sorted entry lists
        let norm = |s: &str| {
            let mut v: Vec<String> = s.trim_matches(|c| c == '{' || c == '}').split(", ").map(|e| e.to_string()).collect();
            v.sort();
            v.join(", ")
        };
        x = norm(&x);
        y = norm(&y);
    }
    x == y
}

fn conversions(ctx: &mut Ctx, index: u64, rng: &mut Rng) {
    let f = f64::from_bits(match rng.below(4) { 0 => 0x7ff8000000000000, 1 => 0x8000000000000000, _ => rng.next_u64() });
    conv_check!(ctx, index, u8, rng.next_u64() as u8);
    conv_check!(ctx, index, bool, rng.bool());
    conv_check!(ctx, index, i16, rng.next_u64() as i16);
    conv_check!(ctx, index, u16, rng.next_u64() as u16);
    conv_check!(ctx, index, i32, rng.next_u64() as i32);
    conv_check!(ctx, index, u32, rng.next_u64() as u32);
    conv_check!(ctx, index, i64, rng.next_u64() as i64);
    conv_check!(ctx, index, u64, rng.next_u64());
    conv_check!(ctx, index, f64, f);
    conv_check!(ctx, index, String, vref::val::gen_string(rng, 10, false));
    conv_check!(ctx, index, Vec<u8>, rng.bytes(rng.clone().usize_below(6)));
    conv_check!(ctx, index, Vec<String>, (0..rng.clone().usize_below(4)).map(|i| format!("s{i}")).collect());
    conv_check!(ctx, index, Vec<Vec<u32>>, vec![vec![], vec![rng.next_u32()], vec![1, 2, 3]]);
    conv_check!(ctx, index, Vec<f64>, vec![f, 1.5, -0.0]);
    let mut m: HashMap<String, u32> = HashMap::new();
    for i in 0..rng.clone().usize_below(4) {
        m.insert(format!("k{i}"), rng.next_u32());
    }
    conv_check!(ctx, index, HashMap<String, u32>, m.clone());
    let mut m2: HashMap<u8, String> = HashMap::new();
    for i in 0..rng.clone().usize_below(4) {
        m2.insert(i as u8, format!("v{}", rng.next_u32()));
    }
    conv_check!(ctx, index, HashMap<u8, String>, m2.clone());
    let mut m3: HashMap<String, Vec<u64>> = HashMap::new();
    m3.insert("a".into(), vec![]);
    m3.insert("b".into(), vec![rng.next_u64()]);
    conv_check!(ctx, index, HashMap<String, Vec<u64>>, m3.clone());
    // the three ways of building an array value (owned Vec, &Vec, slice) must give equal values with equal encodings
    macro_rules! array_paths {
        ($t:ty, $v:expr) => {{
            let v: Vec<$t> = $v;
            let name = stringify!($t);
            ctx.count("conversion_checks", 1);
            ctx.count("array_construction_paths", 1);
            let owned = Value::from(zvariant::Array::from(v.iter().map(|x| x.try_clone_val()).collect::<Vec<$t>>()));
            let by_ref = Value::from(zvariant::Array::from(&v));
            let by_slice = Value::from(zvariant::Array::from(&v[..]));
            for (how, other) in [("&Vec", &by_ref), ("slice", &by_slice)] {
                let same_sig = owned.value_signature().to_string() == other.value_signature().to_string();
                let a = zvariant::to_bytes(dbus_ctxt(Endian::Le, 0), &owned).map(|d| d.bytes().to_vec()).map_err(|e| e.to_string());
                let b = zvariant::to_bytes(dbus_ctxt(Endian::Le, 0), other).map(|d| d.bytes().to_vec()).map_err(|e| e.to_string());
                if owned != *other || !same_sig || a != b {
                    ctx.finding(index, "construction-paths-disagree", how, name, json!({"element_type": name, "owned": format!("{owned:?}"), "other": format!("{other:?}"),
                        "equal": owned == *other, "same_signature": same_sig, "owned_encoding": format!("{a:?}"), "other_encoding": format!("{b:?}")}));
                }
            }
        }};
    }
    trait TryCloneVal {
        fn try_clone_val(&self) -> Self;
    }
    impl TryCloneVal for u32 {
        fn try_clone_val(&self) -> Self {
            *self
        }
    }
    impl TryCloneVal for String {
        fn try_clone_val(&self) -> Self {
            self.clone()
        }
    }
    impl TryCloneVal for Vec<u8> {
        fn try_clone_val(&self) -> Self {
            self.clone()
        }
    }
    impl<'a> TryCloneVal for Value<'a> {
        fn try_clone_val(&self) -> Self {
            self.try_clone().unwrap()
        }
    }
    array_paths!(u32, (0..rng.clone().usize_below(4)).map(|_| rng.next_u32()).collect());
    array_paths!(String, (0..rng.clone().usize_below(4)).map(|i| format!("s{i}")).collect());
    array_paths!(Vec<u8>, vec![vec![], rng.bytes(3)]);
    array_paths!(Value<'static>, vec![Value::from(rng.next_u32()), Value::from(7u32)]);
    array_paths!(Value<'static>, vec![Value::from("x"), Value::from("yz"), Value::from("")]);
    // tuples go through Structure
    {
        let x: (u8, String, u64) = (rng.next_u64() as u8, "t".into(), rng.next_u64());
        ctx.count("conversion_checks", 1);
        let v = Value::from(zvariant::Structure::from(x.clone()));
        match v {
            Value::Structure(s) => match <(u8, String, u64)>::try_from(s) {
                Ok(y) if y == x => {}
                Ok(y) => ctx.finding(index, "conversion-roundtrip-differs", "Structure", "(u8, String, u64)", json!({"original": format!("{x:?}"), "back": format!("{y:?}")})),
                Err(e) => ctx.finding(index, "conversion-back-error", "Structure", "(u8, String, u64)", json!({"error": e.to_string()})),
            },
            _ => ctx.finding(index, "conversion-wrong-kind", "Structure", "(u8, String, u64)", json!({})),
        }
    }
}

pub fn run(ctx: &mut Ctx) {
    let pool = fd_pool();
    directed(ctx, &pool);
    let n = ctx.budget(100_000, 10_000_000);
    let allow_maybe = cfg!(feature = "gvariant");
    for i in 0..n {
        if !ctx.want(i) {
            continue;
        }
        let mut rng = ctx.rng(i);
        let t = gen_triple(&mut rng, allow_maybe);
        let note = format!("triple {}", t[0].sig());
        let shown: Vec<String> = t.iter().map(|v| v.show()).collect();
        ctx.guarded(i, &note, || json!({"values": shown}), |ctx| check_triple(ctx, i, &t, &pool));
        if i % 50 == 0 {
            ctx.guarded(i, "conversions", || json!({}), |ctx| conversions(ctx, i, &mut rng));
        }
        if i < 2 {
            ctx.sample(json!({"a": t[0].show(), "b": t[1].show(), "c": t[2].show()}));
        }
    }
}

fn directed(ctx: &mut Ctx, pool: &[OwnedFd]) {
    if ctx.args.shard != 0 {
        return;
    }
    let nan = Val::D(0x7ff8000000000000);
    let triples: Vec<[Val; 3]> = vec![
        // signed zeros: equal, must hash equally
        [Val::D(0), Val::D(0x8000000000000000), Val::D(0)],
        [Val::St(vec![Val::D(0)]), Val::St(vec![Val::D(0x8000000000000000)]), Val::A(Sig::D, vec![Val::D(0)])],
        // signatures of different kinds as values and dict keys (fixed: Ord for Signature)
        [Val::G("i".into()), Val::G("s".into()), Val::G("ai".into())],
        [
            Val::Dict(Sig::G, Sig::Y, vec![(Val::G("i".into()), Val::Y(1)), (Val::G("s".into()), Val::Y(2))]),
            Val::Dict(Sig::G, Sig::Y, vec![(Val::G("s".into()), Val::Y(2))]),
            Val::Dict(Sig::G, Sig::Y, vec![(Val::G("i".into()), Val::Y(1))]),
        ],
        // NaN
        [nan.clone(), nan.clone(), Val::D(0x3ff0000000000000)],
        [Val::St(vec![nan.clone(), Val::Y(1)]), Val::St(vec![nan.clone(), Val::Y(2)]), Val::St(vec![nan.clone(), Val::Y(1)])],
    ];
    for (k, t) in triples.into_iter().enumerate() {
        let idx = 9_000_000_000 + k as u64;
        if ctx.want(idx) {
            ctx.guarded(idx, "directed triple", || json!({}), |ctx| check_triple(ctx, idx, &t, pool));
        }
    }
    // the Dict-with-signature-keys witness of the fixed Ord defect: both entries must survive
    let d = Val::Dict(Sig::G, Sig::Y, vec![(Val::G("i".into()), Val::Y(1)), (Val::G("s".into()), Val::Y(2))]);
    let z = to_zvalue(&d, &[]);
    if let Value::Dict(dd) = &z {
        if dd.iter().count() != 2 {
            ctx.finding(9_000_000_100, "ord-inconsistent-with-eq", "Signature", "-", json!({"dict_entries_kept": dd.iter().count(), "expected": 2}));
        }
    }
    // Signature ordering itself
    let sigs = ["", "y", "b", "i", "s", "g", "o", "v", "h", "ai", "as", "a{sv}", "(i)", "(is)", "(ii)"];
    for x in sigs {
        for y in sigs {
            let (sx, sy) = (g_to_zsig(x), g_to_zsig(y));
            let eq = sx == sy;
            let c = sx.cmp(&sy);
            ctx.count("signature_pair_checks", 1);
            if (c == Ordering::Equal) != eq || c != sy.cmp(&sx).reverse() {
                ctx.finding(9_000_000_101, "ord-inconsistent-with-eq", "Signature", "-", json!({"a": x, "b": y, "cmp": format!("{c:?}"), "eq": eq}));
            }
        }
    }
}
