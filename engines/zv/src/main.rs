//! Engine `zv`: runs zvariant under generated workloads with reference-model
//! monitors. One process = one shard of one property.

#[global_allocator]
static ALLOC: vcommon::alloc::Counting = vcommon::alloc::Counting;

mod conv;
mod dynenc;
mod props;
mod typed;

use vcommon::{Args, Ctx};

fn main() {
    let args = Args::parse();
    let prop = args.property.clone();
    let mut ctx = Ctx::new(args);
    match prop.as_str() {
        "C01" => props::c01::run(&mut ctx),
        "C02" => props::c02::run(&mut ctx),
        "C03" => props::c03::run(&mut ctx),
        "C04" => props::c04::run(&mut ctx),
        "C05" => props::c05::run(&mut ctx),
        "C06" => props::c06::run(&mut ctx),
        "C07" => props::c07::run(&mut ctx),
        "C08" => props::c08::run(&mut ctx),
        other => {
            eprintln!("zv: unknown property {other}");
            std::process::exit(3);
        }
    }
    ctx.finish();
}
