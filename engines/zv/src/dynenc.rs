//! Thin wrappers over zvariant's public API for encoding/decoding dynamic
//! values *as their own type* (a `Value` serialises as a variant by itself).

use crate::conv::to_zsig;
use vref::sig::Sig;
use zvariant::serialized::{Context, Data, Size};
use zvariant::{
    serialized_size, to_bytes, to_bytes_for_signature, Array, ObjectPath, Signature, Structure,
    Value,
};

pub fn lib_encode(ctxt: Context, v: &Value<'_>) -> zvariant::Result<Data<'static, 'static>> {
    match v {
        Value::U8(x) => to_bytes(ctxt, x),
        Value::Bool(x) => to_bytes(ctxt, x),
        Value::I16(x) => to_bytes(ctxt, x),
        Value::U16(x) => to_bytes(ctxt, x),
        Value::I32(x) => to_bytes(ctxt, x),
        Value::U32(x) => to_bytes(ctxt, x),
        Value::I64(x) => to_bytes(ctxt, x),
        Value::U64(x) => to_bytes(ctxt, x),
        Value::F64(x) => to_bytes(ctxt, x),
        Value::Str(x) => to_bytes(ctxt, x),
        Value::Signature(x) => to_bytes(ctxt, x),
        Value::ObjectPath(x) => to_bytes(ctxt, x),
        Value::Value(x) => to_bytes(ctxt, &**x),
        Value::Array(x) => to_bytes(ctxt, x),
        Value::Dict(x) => to_bytes_for_signature(ctxt, x.signature(), x),
        Value::Structure(x) => to_bytes(ctxt, x),
        #[cfg(feature = "gvariant")]
        Value::Maybe(x) => to_bytes_for_signature(ctxt, x.signature(), x),
        Value::Fd(x) => to_bytes(ctxt, x),
    }
}

/// `serialized_size` for the same value; None where the API offers no way to
/// ask (types that are not `DynamicType`).
pub fn lib_size(ctxt: Context, v: &Value<'_>) -> Option<zvariant::Result<Size>> {
    Some(match v {
        Value::U8(x) => serialized_size(ctxt, x),
        Value::Bool(x) => serialized_size(ctxt, x),
        Value::I16(x) => serialized_size(ctxt, x),
        Value::U16(x) => serialized_size(ctxt, x),
        Value::I32(x) => serialized_size(ctxt, x),
        Value::U32(x) => serialized_size(ctxt, x),
        Value::I64(x) => serialized_size(ctxt, x),
        Value::U64(x) => serialized_size(ctxt, x),
        Value::F64(x) => serialized_size(ctxt, x),
        Value::Str(x) => serialized_size(ctxt, x),
        Value::Signature(x) => serialized_size(ctxt, x),
        Value::ObjectPath(x) => serialized_size(ctxt, x),
        Value::Value(x) => serialized_size(ctxt, &**x),
        Value::Array(x) => serialized_size(ctxt, x),
        Value::Structure(x) => serialized_size(ctxt, x),
        Value::Fd(x) => serialized_size(ctxt, x),
        _ => return None,
    })
}

/// Decode one value of type `sig` dynamically. None = the API offers no
/// dynamic target for that top-level type (dict, maybe).
pub fn lib_decode<'d>(data: &'d Data<'_, '_>, sig: &Sig) -> Option<zvariant::Result<(Value<'d>, usize)>> {
    fn wrap<'d, T: Into<Value<'d>>>(r: zvariant::Result<(T, usize)>) -> zvariant::Result<(Value<'d>, usize)> {
        r.map(|(v, n)| (v.into(), n))
    }
    Some(match sig {
        Sig::Y => wrap(data.deserialize::<u8>()),
        Sig::B => wrap(data.deserialize::<bool>()),
        Sig::N => wrap(data.deserialize::<i16>()),
        Sig::Q => wrap(data.deserialize::<u16>()),
        Sig::I => wrap(data.deserialize::<i32>()),
        Sig::U => wrap(data.deserialize::<u32>()),
        Sig::X => wrap(data.deserialize::<i64>()),
        Sig::T => wrap(data.deserialize::<u64>()),
        Sig::D => wrap(data.deserialize::<f64>()),
        Sig::S => wrap(data.deserialize::<&str>()),
        Sig::O => wrap(data.deserialize::<ObjectPath<'_>>()),
        Sig::G => wrap(data.deserialize::<Signature>()),
        Sig::H => data.deserialize::<zvariant::Fd<'_>>().map(|(v, n)| (Value::Fd(v), n)),
        Sig::V => data
            .deserialize::<Value<'_>>()
            .map(|(v, n)| (Value::Value(Box::new(v)), n)),
        Sig::A(_) => data
            .deserialize_for_dynamic_signature::<_, Array<'_>>(to_zsig(sig))
            .map(|(v, n)| (Value::Array(v), n)),
        Sig::St(_) => data
            .deserialize_for_dynamic_signature::<_, Structure<'_>>(to_zsig(sig))
            .map(|(v, n)| (Value::Structure(v), n)),
        Sig::Dict(..) | Sig::M(_) => return None,
    })
}
