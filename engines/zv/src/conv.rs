//! Conversions between the reference model (`vref`) and zvariant's types.
//! Signatures are built structurally (never through the parser under test).

use std::os::fd::{AsRawFd, BorrowedFd, OwnedFd};
use vref::sig::Sig;
use vref::val::Val;
use zvariant::{Array, Dict, ObjectPath, Signature, Str, StructureBuilder, Value};

pub fn to_zsig(s: &Sig) -> Signature {
    match s {
        Sig::Y => Signature::U8,
        Sig::B => Signature::Bool,
        Sig::N => Signature::I16,
        Sig::Q => Signature::U16,
        Sig::I => Signature::I32,
        Sig::U => Signature::U32,
        Sig::X => Signature::I64,
        Sig::T => Signature::U64,
        Sig::D => Signature::F64,
        Sig::S => Signature::Str,
        Sig::O => Signature::ObjectPath,
        Sig::G => Signature::Signature,
        Sig::V => Signature::Variant,
        Sig::H => Signature::Fd,
        Sig::A(c) => Signature::array(to_zsig(c)),
        Sig::Dict(k, v) => Signature::dict(to_zsig(k), to_zsig(v)),
        Sig::St(fs) => Signature::structure(fs.iter().map(to_zsig).collect::<Vec<_>>()),
        #[cfg(feature = "gvariant")]
        Sig::M(c) => Signature::maybe(to_zsig(c)),
        #[cfg(not(feature = "gvariant"))]
        Sig::M(_) => panic!("maybe without gvariant feature"),
    }
}

pub fn from_zsig(s: &Signature) -> Option<Sig> {
    Some(match s {
        Signature::Unit => return None,
        Signature::U8 => Sig::Y,
        Signature::Bool => Sig::B,
        Signature::I16 => Sig::N,
        Signature::U16 => Sig::Q,
        Signature::I32 => Sig::I,
        Signature::U32 => Sig::U,
        Signature::I64 => Sig::X,
        Signature::U64 => Sig::T,
        Signature::F64 => Sig::D,
        Signature::Str => Sig::S,
        Signature::ObjectPath => Sig::O,
        Signature::Signature => Sig::G,
        Signature::Variant => Sig::V,
        Signature::Fd => Sig::H,
        Signature::Array(c) => Sig::A(Box::new(from_zsig(c)?)),
        Signature::Dict { key, value } => {
            Sig::Dict(Box::new(from_zsig(key)?), Box::new(from_zsig(value)?))
        }
        Signature::Structure(fs) => {
            let mut v = Vec::new();
            for f in fs.iter() {
                v.push(from_zsig(f)?);
            }
            Sig::St(v)
        }
        #[cfg(feature = "gvariant")]
        Signature::Maybe(c) => Sig::M(Box::new(from_zsig(c)?)),
    })
}

/// A small table of real, distinct file descriptors.
pub struct FdTable {
    pub fds: Vec<OwnedFd>,
}

impl FdTable {
    pub fn new(n: usize) -> Self {
        let mut fds = Vec::new();
        for _ in 0..n {
            let f = std::fs::File::open("/dev/null").expect("open /dev/null");
            fds.push(OwnedFd::from(f));
        }
        FdTable { fds }
    }
    pub fn index_of_raw(&self, raw: i32) -> Option<u32> {
        self.fds.iter().position(|f| f.as_raw_fd() == raw).map(|i| i as u32)
    }
}

/// Renumber fd indices of a value in order of first appearance (what a
/// serialiser that assigns indices as it goes will produce). Returns the
/// renumbered value and the list of original indices in new-index order.
pub fn canonicalise_fds(v: &Val) -> (Val, Vec<u32>) {
    fn go(v: &Val, map: &mut Vec<u32>) -> Val {
        match v {
            Val::H(i) => {
                let pos = match map.iter().position(|x| x == i) {
                    Some(p) => p,
                    None => {
                        map.push(*i);
                        map.len() - 1
                    }
                };
                Val::H(pos as u32)
            }
            Val::V(x) => Val::V(Box::new(go(x, map))),
            Val::A(e, xs) => Val::A(e.clone(), xs.iter().map(|x| go(x, map)).collect()),
            Val::Dict(k, vv, es) => Val::Dict(
                k.clone(),
                vv.clone(),
                es.iter().map(|(a, b)| {
                    let a2 = go(a, map);
                    let b2 = go(b, map);
                    (a2, b2)
                }).collect(),
            ),
            Val::St(fs) => Val::St(fs.iter().map(|x| go(x, map)).collect()),
            Val::M(c, Some(x)) => Val::M(c.clone(), Some(Box::new(go(x, map)))),
            other => other.clone(),
        }
    }
    let mut map = Vec::new();
    let out = go(v, &mut map);
    (out, map)
}

/// Build a zvariant `Value` from a reference value. `fds[i]` is used for `h:i`.
pub fn to_zvalue<'a>(v: &Val, fds: &[BorrowedFd<'a>]) -> Value<'a> {
    match v {
        Val::Y(x) => Value::U8(*x),
        Val::B(x) => Value::Bool(*x),
        Val::N(x) => Value::I16(*x),
        Val::Q(x) => Value::U16(*x),
        Val::I(x) => Value::I32(*x),
        Val::U(x) => Value::U32(*x),
        Val::X(x) => Value::I64(*x),
        Val::T(x) => Value::U64(*x),
        Val::D(x) => Value::F64(f64::from_bits(*x)),
        Val::S(s) => Value::Str(Str::from(s.clone())),
        Val::O(s) => Value::ObjectPath(ObjectPath::from_string_unchecked(s.clone())),
        Val::G(s) => Value::Signature(g_to_zsig(s)),
        Val::H(i) => Value::Fd(zvariant::Fd::from(fds[*i as usize])),
        Val::V(x) => Value::Value(Box::new(to_zvalue(x, fds))),
        Val::A(e, xs) => {
            let mut a = Array::new(&to_zsig(e));
            for x in xs {
                a.append(to_zvalue(x, fds)).expect("array append");
            }
            Value::Array(a)
        }
        Val::Dict(k, vv, es) => {
            let mut d = Dict::new(&to_zsig(k), &to_zsig(vv));
            for (a, b) in es {
                d.append(to_zvalue(a, fds), to_zvalue(b, fds)).expect("dict append");
            }
            Value::Dict(d)
        }
        Val::St(fs) => {
            let mut b = StructureBuilder::new();
            for f in fs {
                b = b.append_field(to_zvalue(f, fds));
            }
            Value::Structure(b.build().expect("structure build"))
        }
        #[cfg(feature = "gvariant")]
        Val::M(c, x) => match x {
            None => Value::Maybe(zvariant::Maybe::nothing(&to_zsig(c))),
            Some(x) => Value::Maybe(zvariant::Maybe::just(to_zvalue(x, fds))),
        },
        #[cfg(not(feature = "gvariant"))]
        Val::M(..) => panic!("maybe without gvariant feature"),
    }
}

/// A `g` value: built structurally from the reference parse of the string
/// (zero types ⇒ Unit, one ⇒ that type, several ⇒ a structure, which is how
/// the library represents multi-type signatures).
pub fn g_to_zsig(s: &str) -> Signature {
    let parsed = vref::sig::parse_sig(s.as_bytes(), vref::sig::SigOpts { allow_maybe: true })
        .expect("reference-valid signature string");
    match parsed.len() {
        0 => Signature::Unit,
        1 => to_zsig(&parsed[0]),
        _ => Signature::structure(parsed.iter().map(to_zsig).collect::<Vec<_>>()),
    }
}

/// Normal form of a `g` value for comparisons: the library cannot distinguish
/// "ii" from "(ii)" (documented outer parentheses), so several complete types
/// are wrapped in parentheses on both sides.
pub fn norm_g(s: &str) -> String {
    match vref::sig::parse_sig(s.as_bytes(), vref::sig::SigOpts { allow_maybe: true }) {
        Ok(p) if p.len() >= 2 => format!("({s})"),
        _ => s.to_string(),
    }
}

pub fn normalise_g(v: &Val) -> Val {
    match v {
        Val::G(s) => Val::G(norm_g(s)),
        Val::V(x) => Val::V(Box::new(normalise_g(x))),
        Val::A(e, xs) => Val::A(e.clone(), xs.iter().map(normalise_g).collect()),
        Val::Dict(k, vv, es) => Val::Dict(
            k.clone(),
            vv.clone(),
            es.iter().map(|(a, b)| (normalise_g(a), normalise_g(b))).collect(),
        ),
        Val::St(fs) => Val::St(fs.iter().map(normalise_g).collect()),
        Val::M(c, Some(x)) => Val::M(c.clone(), Some(Box::new(normalise_g(x)))),
        other => other.clone(),
    }
}

/// Project a zvariant `Value` back into the reference model. Fds are mapped to
/// their index in `fd_raws` (u32::MAX - raw if unknown).
pub fn from_zvalue(v: &Value<'_>, fd_raws: &[i32]) -> Val {
    match v {
        Value::U8(x) => Val::Y(*x),
        Value::Bool(x) => Val::B(*x),
        Value::I16(x) => Val::N(*x),
        Value::U16(x) => Val::Q(*x),
        Value::I32(x) => Val::I(*x),
        Value::U32(x) => Val::U(*x),
        Value::I64(x) => Val::X(*x),
        Value::U64(x) => Val::T(*x),
        Value::F64(x) => Val::D(x.to_bits()),
        Value::Str(s) => Val::S(s.as_str().to_string()),
        Value::ObjectPath(s) => Val::O(s.as_str().to_string()),
        Value::Signature(s) => Val::G(s.to_string()),
        Value::Fd(fd) => {
            let raw = fd.as_raw_fd();
            match fd_raws.iter().position(|r| *r == raw) {
                Some(i) => Val::H(i as u32),
                None => Val::H(u32::MAX),
            }
        }
        Value::Value(x) => Val::V(Box::new(from_zvalue(x, fd_raws))),
        Value::Array(a) => {
            let e = from_zsig(a.element_signature()).unwrap_or(Sig::Y);
            Val::A(e, a.inner().iter().map(|x| from_zvalue(x, fd_raws)).collect())
        }
        Value::Dict(d) => {
            let (k, vv) = match d.signature() {
                Signature::Dict { key, value } => (
                    from_zsig(key).unwrap_or(Sig::Y),
                    from_zsig(value).unwrap_or(Sig::Y),
                ),
                _ => (Sig::Y, Sig::Y),
            };
            Val::Dict(
                k,
                vv,
                d.iter().map(|(a, b)| (from_zvalue(a, fd_raws), from_zvalue(b, fd_raws))).collect(),
            )
        }
        Value::Structure(s) => Val::St(s.fields().iter().map(|x| from_zvalue(x, fd_raws)).collect()),
        #[cfg(feature = "gvariant")]
        Value::Maybe(m) => {
            let c = match m.signature() {
                Signature::Maybe(c) => from_zsig(c).unwrap_or(Sig::Y),
                _ => Sig::Y,
            };
            Val::M(c, m.inner().as_ref().map(|x| Box::new(from_zvalue(x, fd_raws))))
        }
    }
}

/// Sort dict entries (recursively) by the D-Bus LE marshalling of their keys so
/// that two values that differ only in dict entry order compare equal.
pub fn sort_dicts(v: &Val) -> Val {
    match v {
        Val::V(x) => Val::V(Box::new(sort_dicts(x))),
        Val::A(e, xs) => Val::A(e.clone(), xs.iter().map(sort_dicts).collect()),
        Val::Dict(k, vv, es) => {
            let mut es: Vec<(Val, Val)> = es.iter().map(|(a, b)| (sort_dicts(a), sort_dicts(b))).collect();
            es.sort_by(|a, b| {
                let ka = vref::dbus::marshal(&a.0, vref::dbus::Endian::Be, 0);
                let kb = vref::dbus::marshal(&b.0, vref::dbus::Endian::Be, 0);
                ka.cmp(&kb)
            });
            Val::Dict(k.clone(), vv.clone(), es)
        }
        Val::St(fs) => Val::St(fs.iter().map(sort_dicts).collect()),
        Val::M(c, Some(x)) => Val::M(c.clone(), Some(Box::new(sort_dicts(x)))),
        other => other.clone(),
    }
}
