//! Typed side of the generated type definitions: every palette type can be
//! produced from a seed (`tgen`), projected to a reference value by the
//! GENERATOR's rules (`to_val`, independent of zvariant), and knows the
//! signature the generator expects for it (`sig`).

use std::collections::{BTreeMap, BTreeSet, HashMap, VecDeque};
use std::sync::Arc;
use std::time::Duration;
use vref::sig::Sig;
use vref::val::Val;
use zvariant::OwnedObjectPath;

pub fn mix(a: u64, b: u64) -> u64 {
    let mut z = a ^ b.wrapping_mul(0x9E37_79B9_7F4A_7C15);
    z = (z ^ (z >> 30)).wrapping_mul(0xBF58_476D_1CE4_E5B9);
    z = (z ^ (z >> 27)).wrapping_mul(0x94D0_49BB_1331_11EB);
    z ^ (z >> 31)
}

pub fn parse1(sig: &str) -> Sig {
    let v = vref::sig::parse_sig(sig.as_bytes(), vref::sig::SigOpts { allow_maybe: false }).unwrap_or_else(|e| panic!("bad expected signature {sig}: {e:?}"));
    assert_eq!(v.len(), 1, "expected signature {sig} is not one complete type");
    v.into_iter().next().unwrap()
}

pub trait TGen: Sized {
    fn tgen(seed: u64) -> Self;
    fn to_val(&self) -> Val;
    fn sig() -> String;
}

macro_rules! int_t {
    ($t:ty, $v:ident, $s:expr) => {
        impl TGen for $t {
            fn tgen(seed: u64) -> Self {
                // boundary values now and then
                match seed % 9 {
                    0 => <$t>::MAX,
                    1 => <$t>::MIN,
                    2 => 0 as $t,
                    _ => seed as $t,
                }
            }
            fn to_val(&self) -> Val {
                Val::$v(*self)
            }
            fn sig() -> String {
                $s.into()
            }
        }
    };
}
int_t!(u8, Y, "y");
int_t!(i16, N, "n");
int_t!(u16, Q, "q");
int_t!(i32, I, "i");
int_t!(u32, U, "u");
int_t!(i64, X, "x");
int_t!(u64, T, "t");

impl TGen for bool {
    fn tgen(seed: u64) -> Self {
        seed & 1 == 1
    }
    fn to_val(&self) -> Val {
        Val::B(*self)
    }
    fn sig() -> String {
        "b".into()
    }
}

impl TGen for f64 {
    fn tgen(seed: u64) -> Self {
        match seed % 7 {
            0 => 0.0,
            1 => -0.0,
            2 => f64::MAX,
            _ => ((seed % 100_000) as f64) / 16.0 - 1000.0,
        }
    }
    fn to_val(&self) -> Val {
        Val::D(self.to_bits())
    }
    fn sig() -> String {
        "d".into()
    }
}

impl TGen for usize {
    fn tgen(seed: u64) -> Self {
        u64::tgen(seed) as usize
    }
    fn to_val(&self) -> Val {
        Val::T(*self as u64)
    }
    fn sig() -> String {
        "t".into()
    }
}

impl TGen for isize {
    fn tgen(seed: u64) -> Self {
        i64::tgen(seed) as isize
    }
    fn to_val(&self) -> Val {
        Val::X(*self as i64)
    }
    fn sig() -> String {
        "x".into()
    }
}

impl TGen for String {
    fn tgen(seed: u64) -> Self {
        let mut s = format!("s{:x}", seed % 0xf_ffff);
        if seed % 7 == 0 {
            s.push_str("é✓");
        }
        if seed % 11 == 0 {
            s.clear();
        }
        if seed % 13 == 0 {
            s = "x".repeat(300);
        }
        s
    }
    fn to_val(&self) -> Val {
        Val::S(self.clone())
    }
    fn sig() -> String {
        "s".into()
    }
}

impl TGen for char {
    fn tgen(seed: u64) -> Self {
        *["a", "Z", "é", "✓", "0"].map(|s| s.chars().next().unwrap()).get((seed % 5) as usize).unwrap()
    }
    fn to_val(&self) -> Val {
        Val::S(self.to_string())
    }
    fn sig() -> String {
        "s".into()
    }
}

impl TGen for OwnedObjectPath {
    fn tgen(seed: u64) -> Self {
        OwnedObjectPath::try_from(if seed % 5 == 0 { "/".to_string() } else { format!("/o/p{}", seed % 1000) }).unwrap()
    }
    fn to_val(&self) -> Val {
        Val::O(self.as_str().to_string())
    }
    fn sig() -> String {
        "o".into()
    }
}

impl TGen for Duration {
    fn tgen(seed: u64) -> Self {
        Duration::new(mix(seed, 1) % 1_000_000_000_000, (mix(seed, 2) % 1_000_000_000) as u32)
    }
    fn to_val(&self) -> Val {
        Val::St(vec![Val::T(self.as_secs()), Val::U(self.subsec_nanos())])
    }
    fn sig() -> String {
        "(tu)".into()
    }
}

impl<T: TGen> TGen for Box<T> {
    fn tgen(seed: u64) -> Self {
        Box::new(T::tgen(seed))
    }
    fn to_val(&self) -> Val {
        (**self).to_val()
    }
    fn sig() -> String {
        T::sig()
    }
}

impl<T: TGen> TGen for Arc<T> {
    fn tgen(seed: u64) -> Self {
        Arc::new(T::tgen(seed))
    }
    fn to_val(&self) -> Val {
        (**self).to_val()
    }
    fn sig() -> String {
        T::sig()
    }
}

fn seq_len(seed: u64) -> u64 {
    if seed % 17 == 0 {
        // longer than any nesting limit: state leaking from one element to the next shows up
        return 40;
    }
    match seed % 6 {
        0 => 0,
        1 => 1,
        2 => 2,
        3 => 3,
        4 => 0,
        _ => 5,
    }
}

impl<T: TGen> TGen for Vec<T> {
    fn tgen(seed: u64) -> Self {
        (0..seq_len(seed)).map(|i| T::tgen(mix(seed, i + 1))).collect()
    }
    fn to_val(&self) -> Val {
        Val::A(parse1(&T::sig()), self.iter().map(|x| x.to_val()).collect())
    }
    fn sig() -> String {
        format!("a{}", T::sig())
    }
}

impl<T: TGen> TGen for VecDeque<T> {
    fn tgen(seed: u64) -> Self {
        (0..seq_len(seed)).map(|i| T::tgen(mix(seed, i + 1))).collect()
    }
    fn to_val(&self) -> Val {
        Val::A(parse1(&T::sig()), self.iter().map(|x| x.to_val()).collect())
    }
    fn sig() -> String {
        format!("a{}", T::sig())
    }
}

impl<T: TGen + Ord> TGen for BTreeSet<T> {
    fn tgen(seed: u64) -> Self {
        (0..seq_len(seed)).map(|i| T::tgen(mix(seed, i + 1))).collect()
    }
    fn to_val(&self) -> Val {
        Val::A(parse1(&T::sig()), self.iter().map(|x| x.to_val()).collect())
    }
    fn sig() -> String {
        format!("a{}", T::sig())
    }
}

impl<K: TGen + std::hash::Hash + Eq, V: TGen> TGen for HashMap<K, V> {
    fn tgen(seed: u64) -> Self {
        (0..seq_len(seed)).map(|i| (K::tgen(mix(seed, 2 * i + 1)), V::tgen(mix(seed, 2 * i + 2)))).collect()
    }
    fn to_val(&self) -> Val {
        Val::Dict(parse1(&K::sig()), parse1(&V::sig()), self.iter().map(|(k, v)| (k.to_val(), v.to_val())).collect())
    }
    fn sig() -> String {
        format!("a{{{}{}}}", K::sig(), V::sig())
    }
}

impl<K: TGen + Ord, V: TGen> TGen for BTreeMap<K, V> {
    fn tgen(seed: u64) -> Self {
        (0..seq_len(seed)).map(|i| (K::tgen(mix(seed, 2 * i + 1)), V::tgen(mix(seed, 2 * i + 2)))).collect()
    }
    fn to_val(&self) -> Val {
        Val::Dict(parse1(&K::sig()), parse1(&V::sig()), self.iter().map(|(k, v)| (k.to_val(), v.to_val())).collect())
    }
    fn sig() -> String {
        format!("a{{{}{}}}", K::sig(), V::sig())
    }
}

impl<A: TGen, B: TGen> TGen for (A, B) {
    fn tgen(seed: u64) -> Self {
        (A::tgen(mix(seed, 100)), B::tgen(mix(seed, 101)))
    }
    fn to_val(&self) -> Val {
        Val::St(vec![self.0.to_val(), self.1.to_val()])
    }
    fn sig() -> String {
        format!("({}{})", A::sig(), B::sig())
    }
}

impl<A: TGen, B: TGen, C: TGen> TGen for (A, B, C) {
    fn tgen(seed: u64) -> Self {
        (A::tgen(mix(seed, 100)), B::tgen(mix(seed, 101)), C::tgen(mix(seed, 102)))
    }
    fn to_val(&self) -> Val {
        Val::St(vec![self.0.to_val(), self.1.to_val(), self.2.to_val()])
    }
    fn sig() -> String {
        format!("({}{}{})", A::sig(), B::sig(), C::sig())
    }
}

impl<T: TGen, const N: usize> TGen for [T; N] {
    fn tgen(seed: u64) -> Self {
        std::array::from_fn(|i| T::tgen(mix(seed, 200 + i as u64)))
    }
    fn to_val(&self) -> Val {
        Val::St(self.iter().map(|x| x.to_val()).collect())
    }
    fn sig() -> String {
        format!("({})", T::sig().repeat(N))
    }
}

#[cfg(feature = "option-as-array")]
impl<T: TGen> TGen for Option<T> {
    fn tgen(seed: u64) -> Self {
        if seed % 3 == 0 {
            None
        } else {
            Some(T::tgen(mix(seed, 300)))
        }
    }
    fn to_val(&self) -> Val {
        Val::A(parse1(&T::sig()), self.iter().map(|x| x.to_val()).collect())
    }
    fn sig() -> String {
        format!("a{}", T::sig())
    }
}

/// Dict entries sorted, so that values compare independently of map iteration order.
pub fn normalise(v: &Val) -> Val {
    match v {
        Val::V(x) => Val::V(Box::new(normalise(x))),
        Val::A(e, xs) => Val::A(e.clone(), xs.iter().map(normalise).collect()),
        Val::St(fs) => Val::St(fs.iter().map(normalise).collect()),
        Val::Dict(k, vv, es) => {
            let mut es: Vec<(Val, Val)> = es.iter().map(|(a, b)| (normalise(a), normalise(b))).collect();
            es.sort_by_key(|(a, _)| a.show());
            Val::Dict(k.clone(), vv.clone(), es)
        }
        other => other.clone(),
    }
}
