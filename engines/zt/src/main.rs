//! Engine `zt`: generated type definitions (engines/gen/gen_types.py) using zvariant's derives; for every type the
//! declared signature, the serialized bytes (judged by the reference decoder) and the round trip are compared with
//! the generator's own expectations.

#[global_allocator]
static ALLOC: vcommon::alloc::Counting = vcommon::alloc::Counting;

mod c09;
#[allow(dead_code)]
mod generated;
#[allow(dead_code)]
mod support;

use vcommon::{Args, Ctx};

fn main() {
    let args = Args::parse();
    let prop = args.property.clone();
    let mut ctx = Ctx::new(args);
    match prop.as_str() {
        "C09" => c09::run(&mut ctx),
        other => {
            eprintln!("zt: unknown property {other}");
            std::process::exit(3);
        }
    }
    ctx.finish();
}
