//! C09 — derived and built-in Type signatures match what is serialized.

use crate::support::*;
use serde::de::DeserializeOwned;
use serde::Serialize;
use serde_json::json;
use std::fmt::Debug;
use vcommon::Ctx;
use vref::dbus::{unmarshal, Endian};
use vref::prng::fnv;
use zvariant::serialized::Context;
use zvariant::{to_bytes, Type, BE, LE};

pub struct Runner<'a> {
    pub ctx: &'a mut Ctx,
    pub values_per_type: u64,
    pub counter: u64,
}

impl Runner<'_> {
    pub fn visit<T>(&mut self, name: &'static str, kind: &'static str)
    where
        T: Type + Serialize + DeserializeOwned + PartialEq + Debug + TGen,
    {
        self.counter += 1;
        let g = self.counter;
        if !self.ctx.mine(g) || !self.ctx.want(g) {
            return;
        }
        let values = self.values_per_type;
        let note = format!("type {name}");
        self.ctx.guarded(g, &note, || json!({"type": name, "kind": kind}), |ctx| {
            ctx.count("types_exercised", 1);
            ctx.count(&format!("class:{kind}"), 1);
            let expected_sig = T::sig();
            let declared = T::SIGNATURE.to_string();
            // the library prints a top-level structure signature with its parentheses
            if declared != expected_sig {
                ctx.finding(g, "declared-signature-differs", kind, "-", json!({"type": name, "declared": declared, "expected": expected_sig}));
                return;
            }
            let sig = parse1(&expected_sig);
            let mut rng = ctx.rng(g);
            for k in 0..values {
                let seed = rng.next_u64();
                let v = T::tgen(seed);
                let want = normalise(&v.to_val());
                for (endian, rend, offset) in [(LE, Endian::Le, 0usize), (BE, Endian::Be, 0), (LE, Endian::Le, [1usize, 3, 4, 5, 7][(k % 5) as usize])] {
                    ctx.count("evaluations", 1);
                    let c = Context::new_dbus(endian, offset);
                    let bytes = match to_bytes(c, &v) {
                        Ok(b) => b,
                        Err(e) => {
                            ctx.finding(g, "serialization-failed", kind, "-", json!({"type": name, "value": format!("{v:?}").chars().take(400).collect::<String>(), "error": e.to_string()}));
                            return;
                        }
                    };
                    // 1. the bytes are a valid encoding of the DECLARED signature and denote the value
                    match unmarshal(bytes.bytes(), &sig, rend, offset, Some(0)) {
                        Ok((got, used)) => {
                            if used != bytes.len() {
                                ctx.finding(g, "bytes-do-not-conform-to-signature", "trailing-bytes", kind, json!({"type": name, "sig": expected_sig, "used": used, "len": bytes.len(), "bytes": vref::hex(bytes.bytes()), "value": format!("{v:?}").chars().take(400).collect::<String>()}));
                                return;
                            }
                            if normalise(&got) != want {
                                ctx.finding(g, "bytes-denote-another-value", kind, "-", json!({"type": name, "sig": expected_sig, "decoded": normalise(&got).show().chars().take(500).collect::<String>(), "expected": want.show().chars().take(500).collect::<String>()}));
                                return;
                            }
                        }
                        Err((reason, at)) => {
                            ctx.finding(g, "bytes-do-not-conform-to-signature", reason.name(), kind, json!({"type": name, "sig": expected_sig, "at": at, "bytes": vref::hex(&bytes.bytes()[..bytes.len().min(200)]), "value": format!("{v:?}").chars().take(400).collect::<String>()}));
                            return;
                        }
                    }
                    // 2. the value round-trips through that signature
                    match bytes.deserialize::<T>() {
                        Ok((back, used)) => {
                            if used != bytes.len() || back != v {
                                ctx.finding(g, "round-trip-differs", kind, if used != bytes.len() { "consumed-length" } else { "value" }, json!({"type": name, "value": format!("{v:?}").chars().take(400).collect::<String>(), "back": format!("{back:?}").chars().take(400).collect::<String>()}));
                                return;
                            }
                        }
                        Err(e) => {
                            ctx.finding(g, "round-trip-decode-failed", kind, "-", json!({"type": name, "sig": expected_sig, "value": format!("{v:?}").chars().take(400).collect::<String>(), "error": e.to_string()}));
                            return;
                        }
                    }
                }
            }
            ctx.distinct(fnv(name) ^ fnv(&expected_sig));
            ctx.sample(json!({"type": name, "kind": kind, "signature": expected_sig, "a_value": format!("{:?}", T::tgen(7)).chars().take(200).collect::<String>()}));
        });
    }
}

pub fn run(ctx: &mut Ctx) {
    let values = ctx.budget(14 * 150, 14 * 1000);
    let mut r = Runner { ctx, values_per_type: values, counter: 0 };
    crate::generated::exercise_all(&mut r);
    let n = r.counter;
    if ctx.args.shard == 0 {
        ctx.count("types_total", n);
    }
}
