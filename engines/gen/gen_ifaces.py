#!/usr/bin/env python3
"""Generate D-Bus interface definitions (zbus::interface impls) for the `zg` engine.

  gen_ifaces.py <seed> <count> <out.rs>

Everything random comes from `random.Random(seed)`; the same (seed, count) always
produces the same file, so cargo's fingerprints keep the build incremental.

Each interface gets methods (0-4 inputs, 0-3 outputs over the type palette, sync /
async, &self / &mut self, infallible / fdo::Result / custom DBusError, some with
header/connection/object-server parameters sprinkled between the arguments),
properties (read / write / readwrite, four emits-changed modes, sync / async
getters, fallible setters), signals with an emitter method each, and doc
comments drawn from a pool of XML-hostile text. Handlers are pure functions of
their inputs (see engines/zg/src/support.rs); the emitted metadata table lets the
harness compute every expected reply without looking at the library.
"""
import random
import sys

BASIC = {
    "y": "u8", "b": "bool", "n": "i16", "q": "u16", "i": "i32", "u": "u32", "x": "i64", "t": "u64",
    "d": "f64", "s": "String", "o": "OwnedObjectPath",
}
KEYS = {"s": "String", "u": "u32", "y": "u8", "t": "u64", "n": "i16"}

DOC_POOL = [
    "Plain documentation.",
    "Compares a < b && b > c.",
    "Says \"hello\" & 'goodbye'.",
    "Two dashes -- in the middle.",
    "Ends a comment --> early.",
    "CDATA end ]]> marker.",
    "Entity-like &amp; &lt; &#x41; text.",
    "Non-ASCII: héllo wörld ✓ 日本語.",
    "<tag attr=\"v\">looks like markup</tag>",
    "",
    "Trailing dash -",
    "<!-- nested comment start",
    "a\tb tab and    spaces",
    "An arrow ---> and a rule ----- of hyphens.",
    "--- starts with three, ends with four ----",
    "-",
]


def gen_type(rng, depth, ctx):
    """Returns (sig, rust type). ctx: arg | out | prop | sigarg"""
    r = rng.random()
    if depth >= 2 or r < 0.45:
        c = rng.choice(list(BASIC))
        return c, BASIC[c]
    if r < 0.62:
        s, t = gen_type(rng, depth + 1, ctx)
        return "a" + s, f"Vec<{t}>"
    if r < 0.74:
        k = rng.choice(list(KEYS))
        s, t = gen_type(rng, depth + 1, ctx)
        return "a{" + k + s + "}", f"HashMap<{KEYS[k]}, {t}>"
    if r < 0.84:
        n = rng.choice([2, 2, 3])
        parts = [gen_type(rng, depth + 1, ctx) for _ in range(n)]
        return "(" + "".join(p[0] for p in parts) + ")", "(" + ", ".join(p[1] for p in parts) + ")"
    if r < 0.90:
        return "(ii)", "Pt"
    if r < 0.95:
        return "(sast)", "Rec"
    if ctx in ("arg", "out", "sigarg"):
        return "v", "OwnedValue"
    c = rng.choice(list(BASIC))
    return c, BASIC[c]


def is_struct_sig(s):
    return s.startswith("(")


def docs(rng, indent="    "):
    n = rng.choice([0, 0, 1, 1, 2, 3])
    lines = [rng.choice(DOC_POOL) for _ in range(n)]
    return "".join(f"{indent}///{(' ' + l) if l else ''}\n" for l in lines)


def rs_str(s):
    return '"' + s.replace("\\", "\\\\").replace('"', '\\"') + '"'


def gen_iface(rng, idx):
    name = f"t.gen.I{idx}"
    struct = f"G{idx}"
    spawn = rng.random() < 0.8
    out = []
    meta_methods, meta_props, meta_signals = [], [], []
    px_methods, px_props, px_signals = [], [], []
    fields = []
    body = []

    # ---- methods
    nm = rng.randint(1, 5)
    for k in range(nm):
        member = rng.choice([f"M{k}", f"Do{k}Thing", f"m{k}_x", f"Get{k}", f"_U{k}"])
        fn = f"m{k}"
        nin = rng.choice([0, 1, 1, 2, 2, 3, 4])
        nout = rng.choice([0, 1, 1, 1, 2, 3])
        ins = [gen_type(rng, 0, "arg") for _ in range(nin)]
        outs = []
        for _ in range(nout):
            s, t = gen_type(rng, 0, "out")
            outs.append((s, t))
        # a single structure-typed result is outside what the introspection property covers: avoid it
        if nout == 1 and is_struct_sig(outs[0][0]):
            outs = [("u", "u32")]
        fallible = rng.choice([0, 0, 1, 2])
        is_async = rng.random() < 0.6
        mutating = rng.random() < 0.3
        salt = rng.getrandbits(63)
        params = ["&mut self" if mutating else "&self"]
        extra_kinds = []
        for j, (s, t) in enumerate(ins):
            # sprinkle special parameters between the arguments
            if rng.random() < 0.12:
                kind = rng.choice(["header", "connection", "object_server"])
                if kind not in extra_kinds:
                    extra_kinds.append(kind)
                    ty = {"header": "zbus::message::Header<'_>", "connection": "&zbus::Connection", "object_server": "&zbus::ObjectServer"}[kind]
                    params.append(f"#[zbus({kind})] _{kind}: {ty}")
            params.append(f"a{j}: {t}")
        # ... and behind the last argument; for a method without arguments this gives handlers whose ONLY parameters are
        # the ones the library supplies (their message body must still be empty)
        if rng.random() < (0.35 if nin == 0 else 0.1):
            for kind in rng.sample(["header", "connection", "object_server"], rng.choice([1, 1, 2])):
                if kind not in extra_kinds:
                    extra_kinds.append(kind)
                    ty = {"header": "zbus::message::Header<'_>", "connection": "&zbus::Connection", "object_server": "&zbus::ObjectServer"}[kind]
                    params.append(f"#[zbus({kind})] _{kind}: {ty}")
        if outs:
            ret_t = outs[0][1] if len(outs) == 1 else "(" + ", ".join(t for _, t in outs) + ")"
        else:
            ret_t = "()"
        if fallible == 1:
            ret = f"zbus::fdo::Result<{ret_t}>"
        elif fallible == 2:
            ret = f"Result<{ret_t}, GenError>"
        else:
            ret = ret_t
        digests = ", ".join(f"a{j}.digest()" for j in range(nin))
        lines = [f"        let d = args_digest({salt}u64, &[{digests}]);", f"        log_call({idx}, self.instance, {rs_str(member)}, d);"]
        if mutating:
            lines.append("        self.calls += 1;")
        if fallible == 1:
            lines.append('        if d % 4 == 0 { return Err(zbus::fdo::Error::Failed(format!("f{d}"))); }')
        elif fallible == 2:
            lines.append('        if d % 4 == 0 { return Err(GenError::Custom(format!("c{d}"))); }')
        vals = [f"Gen::from_seed(mix(d, {j}))" for j in range(len(outs))]
        if len(outs) == 0:
            val = "()"
        elif len(outs) == 1:
            val = vals[0]
        else:
            val = "(" + ", ".join(vals) + ")"
        lines.append(f"        {'Ok(' + val + ')' if fallible else val}")
        body.append(docs(rng))
        body.append(f"    #[zbus(name = {rs_str(member)})]\n")
        body.append(f"    {'async ' if is_async else ''}fn {fn}({', '.join(params)}) -> {ret} {{\n" + "\n".join(lines) + "\n    }\n\n")
        px_methods.append({"fn": fn, "member": member, "ins": ins, "outs": outs, "fallible": fallible, "salt": salt})
        meta_methods.append(
            f"MethodMeta {{ name: {rs_str(member)}, ins: &[{', '.join(rs_str(s) for s, _ in ins)}], outs: &[{', '.join(rs_str(s) for s, _ in outs)}], "
            f"fallible: {fallible}, salt: {salt}, mutating: {'true' if mutating else 'false'}, is_async: {'true' if is_async else 'false'} }}")

    # ---- properties
    np_ = rng.randint(0, 6)
    for k in range(np_):
        pname = rng.choice([f"P{k}", f"Prop{k}Name", f"p{k}"])
        fn = f"p{k}"
        s, t = gen_type(rng, 0, "prop")
        access = rng.choice(["read", "read", "readwrite", "readwrite", "write"])
        emits = rng.choice(["true", "true", "invalidates", "false", "const"])
        if access == "write":
            emits = "false"
        if emits == "const" and access != "read":
            emits = "true"
        fallible_setter = rng.random() < 0.35
        async_getter = rng.random() < 0.4
        init_seed = rng.getrandbits(63)
        # a third of the properties live behind a mutex and have `&self` setters (interior mutability)
        shared = rng.random() < 0.33
        if shared:
            # (a `&self` setter returning fdo::Result does not compile with this version of the macro)
            fallible_setter = False
        if shared:
            fields.append((f"p_{fn}", f"std::sync::Mutex<{t}>", init_seed))
        else:
            fields.append((f"p_{fn}", t, init_seed))
        if access in ("read", "readwrite"):
            body.append(docs(rng))
            attr = f"property(emits_changed_signal = {rs_str(emits)})" if emits != "true" or rng.random() < 0.5 else "property"
            body.append(f"    #[zbus({attr}, name = {rs_str(pname)})]\n")
            read_expr = f"self.p_{fn}.lock().unwrap().clone()" if shared else f"self.p_{fn}.clone()"
            body.append(f"    {'async ' if async_getter else ''}fn {fn}(&self) -> {t} {{\n        {read_expr}\n    }}\n\n")
        if access in ("write", "readwrite"):
            body.append(f"    #[zbus(property, name = {rs_str(pname)})]\n")
            recv = "&self" if shared else "&mut self"
            store = f"*self.p_{fn}.lock().unwrap() = v;" if shared else f"self.p_{fn} = v;"
            if fallible_setter:
                body.append(f"    fn set_{fn}({recv}, v: {t}) -> zbus::fdo::Result<()> {{\n"
                            f"        if v.digest() % 5 == 0 {{ return Err(zbus::fdo::Error::InvalidArgs(\"refused\".into())); }}\n"
                            f"        {store}\n        Ok(())\n    }}\n\n")
            else:
                body.append(f"    fn set_{fn}({recv}, v: {t}) {{\n        {store}\n    }}\n\n")
        px_props.append({"fn": fn, "name": pname, "sig": s, "ty": t, "read": access != "write", "write": access != "read", "emits": emits,
                         "fallible_setter": fallible_setter and access != "read", "init_seed": init_seed})
        meta_props.append(
            f"PropMeta {{ name: {rs_str(pname)}, sig: {rs_str(s)}, read: {'true' if access != 'write' else 'false'}, write: {'true' if access != 'read' else 'false'}, "
            f"emits: {rs_str(emits)}, fallible_setter: {'true' if (fallible_setter and access != 'read') else 'false'}, init_seed: {init_seed} }}")

    # ---- signals, each with an emitter method
    ns = rng.randint(0, 3)
    for k in range(ns):
        # (unique across interfaces: the generated proxies define types named after the signal in the same module)
        sname = rng.choice([f"S{k}I{idx}", f"Sig{k}ChangedI{idx}"])
        fn = f"s{k}"
        nargs = rng.choice([0, 1, 1, 2, 3])
        args = [gen_type(rng, 0, "sigarg") for _ in range(nargs)]
        emitter = f"Emit{sname}"
        body.append(docs(rng))
        body.append(f"    #[zbus(signal, name = {rs_str(sname)})]\n")
        sig_params = "".join(f", a{j}: {t}" for j, (_, t) in enumerate(args))
        body.append(f"    async fn {fn}(emitter: &SignalEmitter<'_>{sig_params}) -> zbus::Result<()>;\n\n")
        call_args = "".join(f", Gen::from_seed(mix(seed, {j}))" for j in range(nargs))
        body.append(f"    #[zbus(name = {rs_str(emitter)})]\n")
        body.append(f"    async fn emit_{fn}(&self, seed: u64, #[zbus(signal_emitter)] emitter: SignalEmitter<'_>) -> bool {{\n"
                    f"        Self::{fn}(&emitter{call_args}).await.is_ok()\n    }}\n\n")
        px_signals.append({"fn": fn, "name": sname, "args": args})
        meta_signals.append(f"SignalMeta {{ name: {rs_str(sname)}, args: &[{', '.join(rs_str(s) for s, _ in args)}], emitter: {rs_str(emitter)} }}")

    out.append(f"pub struct {struct} {{\n    pub instance: u32,\n    pub calls: u64,\n" + "".join(f"    pub {f}: {t},\n" for f, t, _ in fields) + "}\n\n")
    out.append(f"impl {struct} {{\n    pub fn new(instance: u32) -> Self {{\n        {struct} {{ instance, calls: 0, " + ", ".join((f"{f}: std::sync::Mutex::new(Gen::from_seed({seed}u64))" if t.startswith("std::sync::Mutex<") else f"{f}: Gen::from_seed({seed}u64)") for f, t, seed in fields) + " }\n    }\n}\n\n")
    out.append(docs(rng, ""))
    attrs = f"name = {rs_str(name)}" + ("" if spawn else ", spawn = false") + ', proxy(gen_blocking = true, default_path = "/g", default_service = "t.gen")'
    out.append(f"#[zbus::interface({attrs})]\nimpl {struct} {{\n" + "".join(body) + "}\n\n")
    info = {"idx": idx, "struct": struct, "methods": px_methods, "props": px_props, "signals": px_signals}
    meta = (f"IfaceMeta {{ index: {idx}, name: {rs_str(name)}, spawn: {'true' if spawn else 'false'},\n        methods: &[\n            "
            + ",\n            ".join(meta_methods) + "],\n        props: &[\n            " + ",\n            ".join(meta_props) + "],\n        signals: &[\n            "
            + ",\n            ".join(meta_signals) + "] }")
    return "".join(out), meta, struct, info



def ret_type(outs):
    if not outs:
        return "()"
    if len(outs) == 1:
        return outs[0][1]
    return "(" + ", ".join(t for _, t in outs) + ")"


def proxy_ops(info, aw, blocking):
    """Rust match arms exercising one interface through its generated proxy. Returns (arms, labels)."""
    idx = info["idx"]
    arms, labels = [], []
    op = 0
    for m in info["methods"]:
        nin = len(m["ins"])
        lets = "".join(f"                let a{j}: {t} = Gen::from_seed(mix(seed, {j}));\n" for j, (_, t) in enumerate(m["ins"]))
        digests = ", ".join(f"a{j}.digest()" for j in range(nin))
        call_args = ", ".join(f"a{j}" for j in range(nin))
        outs = m["outs"]
        if len(outs) == 0:
            want = "()"
        elif len(outs) == 1:
            want = "Gen::from_seed(mix(d, 0))"
        else:
            want = "(" + ", ".join(f"Gen::from_seed(mix(d, {j}))" for j in range(len(outs))) + ")"
        member = rs_str(m["member"])
        # the generated proxy methods return the interface method's own error type
        if m["fallible"] == 0:
            fail_block = ""
        elif m["fallible"] == 1:
            fail_block = f"""                if d % 4 == 0 {{
                    return match r {{
                        Err(zbus::fdo::Error::Failed(t)) if t.contains(&format!("f{{d}}")) => Ok(()),
                        other => Err(format!("handler-error-not-relayed|{{}}|{{:?}}", {member}, other.map(|_| ()))),
                    }};
                }}
"""
        else:
            fail_block = f"""                if d % 4 == 0 {{
                    return match r {{
                        Err(GenError::Custom(t)) if t.contains(&format!("c{{d}}")) => Ok(()),
                        other => Err(format!("handler-error-not-relayed|{{}}|{{:?}}", {member}, other.map(|_| ()))),
                    }};
                }}
"""
        arms.append(f"""            {op} => {{
{lets}                let d = args_digest({m['salt']}u64, &[{digests}]);
                let _ = take_log();
                let r = p.{m['fn']}({call_args}){aw};
                let log = take_log();
                let want_inv = Invocation {{ iface: {idx}, instance, member: {member}, digest: d }};
                if log != vec![want_inv.clone()] {{
                    return Err(format!("handler-saw-other-arguments|{{}}|handler log {{:?}}, the caller's arguments imply {{:?}}", {member}, log, want_inv));
                }}
{fail_block}                let want: {ret_type(outs)} = {want};
                match r {{
                    Ok(got) => if got == want {{ Ok(()) }} else {{ Err(format!("proxy-call-result-differs|{{}}|got {{:?}} expected {{:?}}", {member}, got, want)) }},
                    Err(e) => Err(format!("proxy-call-failed|{{}}|{{e:?}}", {member})),
                }}
            }}
""")
        labels.append(f"call:{m['member']}")
        op += 1
    for k, pr in enumerate(info["props"]):
        pname = rs_str(pr["name"])
        if pr["read"]:
            arms.append(f"""            {op} => {{
                let want: {pr['ty']} = Gen::from_seed(model[{k}]);
                match p.{pr['fn']}(){aw} {{
                    Ok(got) => if got == want {{ Ok(()) }} else {{ Err(format!("property-read-differs|{{}}|emits={pr['emits']} got {{:?}} server holds {{:?}}", {pname}, got, want)) }},
                    Err(e) => Err(format!("property-read-failed|{{}}|{{e}}", {pname})),
                }}
            }}
""")
            labels.append(f"get:{pr['name']}")
            op += 1
        if pr["write"]:
            arms.append(f"""            {op} => {{
                let v: {pr['ty']} = Gen::from_seed(seed);
                let refuse = {'true' if pr['fallible_setter'] else 'false'} && v.digest() % 5 == 0;
                match p.set_{pr['fn']}(v){aw} {{
                    Ok(()) => if refuse {{ Err(format!("setter-refusal-not-relayed|{{}}|", {pname})) }} else {{ model[{k}] = seed; Ok(()) }},
                    Err(e) => if refuse {{ Ok(()) }} else {{ Err(format!("property-write-failed|{{}}|{{e}}", {pname})) }},
                }}
            }}
""")
            labels.append(f"set:{pr['name']}")
            op += 1
    for sg in info["signals"]:
        sname = rs_str(sg["name"])
        lets = "".join(f"                let a{j}: {t} = Gen::from_seed(mix(seed, {j}));\n" for j, (_, t) in enumerate(sg["args"]))
        cmp_ = " && ".join(f"*args.a{j}() == a{j}" for j in range(len(sg["args"]))) or "true"
        nxt = "st.next()" if blocking else "st.next().await"
        if sg["args"]:
            args_check = (f"                        let args = sig.args().map_err(|e| format!(\"signal-args-unreadable|{{}}|{{e}}\", {sname}))?;\n"
                          f"                        if {cmp_} {{ Ok(()) }} else {{ Err(format!(\"signal-args-differ|{{}}|{{:?}}\", {sname}, args)) }}")
        else:
            args_check = "                        let _ = sig;\n                        Ok(())"
        arms.append(f"""            {op} => {{
{lets}                let mut st = p.receive_{sg['fn']}(){aw}.map_err(|e| format!("signal-subscription-failed|{{}}|{{e}}", {sname}))?;
                match p.emit_{sg['fn']}(seed){aw} {{
                    Ok(true) => {{}}
                    other => return Err(format!("signal-emitter-call-failed|{{}}|{{:?}}", {sname}, other)),
                }}
                match {nxt} {{
                    Some(sig) => {{
{args_check}
                    }}
                    None => Err(format!("signal-stream-ended|{{}}|", {sname})),
                }}
            }}
""")
        labels.append(f"signal:{sg['name']}")
        op += 1
    return "".join(arms), labels


def proxy_drivers(infos):
    out = ["\n// ---- drivers exercising the proxies the interface macro generated (property C33)\n",
           "pub enum AnyProxy {\n" + "".join(f"    {i['struct']}({i['struct']}Proxy<'static>),\n" for i in infos) + "}\n\n",
           "pub enum AnyProxyBlocking {\n" + "".join(f"    {i['struct']}({i['struct']}ProxyBlocking<'static>),\n" for i in infos) + "}\n\n",
           "fn es<E: std::fmt::Display>(e: E) -> String {\n    format!(\"proxy-build-failed|-|{e}\")\n}\n\n"]
    out.append("pub async fn px_build(conn: &zbus::Connection, iface: usize, path: &'static str, cache: zbus::proxy::CacheProperties) -> Result<AnyProxy, String> {\n    match iface {\n"
               + "".join(f"        {i['idx']} => {i['struct']}Proxy::builder(conn).path(path).map_err(es)?.destination(\"t.gen\").map_err(es)?.cache_properties(cache).build().await.map(AnyProxy::{i['struct']}).map_err(es),\n" for i in infos)
               + "        _ => Err(\"proxy-build-failed|-|no such interface\".into()),\n    }\n}\n\n")
    out.append("pub fn bpx_build(conn: &zbus::blocking::Connection, iface: usize, path: &'static str, cache: zbus::proxy::CacheProperties) -> Result<AnyProxyBlocking, String> {\n    match iface {\n"
               + "".join(f"        {i['idx']} => {i['struct']}ProxyBlocking::builder(conn).path(path).map_err(es)?.destination(\"t.gen\").map_err(es)?.cache_properties(cache).build().map(AnyProxyBlocking::{i['struct']}).map_err(es),\n" for i in infos)
               + "        _ => Err(\"proxy-build-failed|-|no such interface\".into()),\n    }\n}\n\n")
    label_rows = []
    a_arms, b_arms = [], []
    for i in infos:
        arms, labels = proxy_ops(i, ".await", False)
        barms, _ = proxy_ops(i, "", True)
        label_rows.append("    &[" + ", ".join(rs_str(l) for l in labels) + "],\n")
        a_arms.append(f"        AnyProxy::{i['struct']}(p) => match op {{\n{arms}            _ => Ok(()),\n        }},\n")
        b_arms.append(f"        AnyProxyBlocking::{i['struct']}(p) => match op {{\n{barms}            _ => Ok(()),\n        }},\n")
    out.append("pub static PX_OPS: &[&[&str]] = &[\n" + "".join(label_rows) + "];\n\n")
    out.append("pub static PX_PROP_SEEDS: &[&[u64]] = &[\n" + "".join("    &[" + ", ".join(f"{p['init_seed']}" for p in i["props"]) + "],\n" for i in infos) + "];\n\n")
    out.append("pub async fn px_op(p: &AnyProxy, op: usize, seed: u64, instance: u32, model: &mut Vec<u64>) -> Result<(), String> {\n    use futures_lite::StreamExt;\n    match p {\n" + "".join(a_arms) + "    }\n}\n\n")
    out.append("pub fn bpx_op(p: &AnyProxyBlocking, op: usize, seed: u64, instance: u32, model: &mut Vec<u64>) -> Result<(), String> {\n    match p {\n" + "".join(b_arms) + "    }\n}\n")
    return "".join(out)


def main():
    seed, count, path = int(sys.argv[1]), int(sys.argv[2]), sys.argv[3]
    rng = random.Random(seed * 1_000_003 + count)
    parts = [f"// @generated by engines/gen/gen_ifaces.py seed={seed} count={count} -- do not edit\n"
             "#![allow(unused_variables, unused_mut, clippy::all, non_snake_case, dead_code, unused_imports)]\n"
             "use crate::support::*;\nuse std::collections::HashMap;\nuse zbus::object_server::SignalEmitter;\nuse zvariant::{OwnedObjectPath, OwnedValue};\n\n"
             "#[derive(Debug, zbus::DBusError)]\n#[zbus(prefix = \"t.gen.Error\")]\npub enum GenError {\n    #[zbus(error)]\n    ZBus(zbus::Error),\n    Custom(String),\n}\n\n"]
    metas, structs = [], []
    infos = []
    for i in range(count):
        code, meta, struct, info = gen_iface(rng, i)
        parts.append(code)
        metas.append(meta)
        structs.append(struct)
        infos.append(info)
    parts.append("pub static IFACES: &[IfaceMeta] = &[\n    " + ",\n    ".join(metas) + ",\n];\n\n")
    parts.append("pub async fn register(os: &zbus::ObjectServer, iface: usize, path: &str, instance: u32) -> zbus::Result<bool> {\n    match iface {\n"
                 + "".join(f"        {i} => os.at(path, {s}::new(instance)).await,\n" for i, s in enumerate(structs))
                 + "        _ => Ok(false),\n    }\n}\n\n")
    parts.append("pub async fn unregister(os: &zbus::ObjectServer, iface: usize, path: &str) -> zbus::Result<bool> {\n    match iface {\n"
                 + "".join(f"        {i} => os.remove::<{s}, _>(path).await,\n" for i, s in enumerate(structs))
                 + "        _ => Ok(false),\n    }\n}\n")
    parts.append(proxy_drivers(infos))
    text = "".join(parts)
    try:
        with open(path) as f:
            if f.read() == text:
                return
    except FileNotFoundError:
        pass
    with open(path, "w") as f:
        f.write(text)


if __name__ == "__main__":
    main()
