#!/usr/bin/env python3
"""Generate Rust type definitions (zvariant derives) for the `zt` engine (property C09).

  gen_types.py <seed> <count> <out.rs> [--option]

Kinds: named / tuple / newtype structs, unit enums (plain, #[repr] + serde_repr, string
representation), data-carrying enums (newtype, tuple and struct variants), dictionary
structs (SerializeDict/DeserializeDict and Serialize + as_value), nested inside each other
and inside std containers. For every type the generator emits, by ITS OWN rules (serde's
data model + the D-Bus type system, never zvariant's code): the expected signature, a
seed-driven value constructor and a projection to a reference value.
"""
import random
import sys

LEAVES = [
    ("y", "u8"), ("b", "bool"), ("n", "i16"), ("q", "u16"), ("i", "i32"), ("u", "u32"), ("x", "i64"), ("t", "u64"),
    ("d", "f64"), ("s", "String"), ("t", "usize"), ("x", "isize"), ("s", "char"), ("(tu)", "Duration"), ("o", "OwnedObjectPath"),
]
KEY_LEAVES = [("s", "String"), ("y", "u8"), ("u", "u32"), ("x", "i64"), ("t", "u64"), ("n", "i16"), ("b", "bool"), ("s", "char")]
ORD_LEAVES = [("s", "String"), ("y", "u8"), ("u", "u32"), ("x", "i64"), ("q", "u16"), ("b", "bool")]


class Gen:
    def __init__(self, rng, option):
        self.rng = rng
        self.option = option
        self.defined = []   # (name, sig, kind, is_key)
        self.code = []

    # ---- type expressions: returns (sig, rust)
    def ty(self, depth, allow_defined=True):
        r = self.rng.random()
        if depth >= 3 or r < 0.38:
            return self.rng.choice(LEAVES)
        if allow_defined and self.defined and r < 0.58:
            d = self.rng.choice(self.defined)
            return d[1], d[0]
        if r < 0.66:
            s, t = self.ty(depth + 1)
            return "a" + s, f"{self.rng.choice(['Vec', 'Vec', 'VecDeque'])}<{t}>"
        if r < 0.70:
            s, t = self.rng.choice(ORD_LEAVES + [(d[1], d[0]) for d in self.defined if d[3]])
            return "a" + s, f"BTreeSet<{t}>"
        if r < 0.80:
            ks, kt = self.rng.choice(KEY_LEAVES + [(d[1], d[0]) for d in self.defined if d[3]])
            s, t = self.ty(depth + 1)
            if self.rng.random() < 0.5 or kt in ("char",):
                # BTreeMap needs Ord, HashMap needs Hash: both hold for the key palette
                return "a{" + ks + s + "}", f"BTreeMap<{kt}, {t}>"
            return "a{" + ks + s + "}", f"HashMap<{kt}, {t}>"
        if r < 0.88:
            n = self.rng.choice([2, 2, 3])
            parts = [self.ty(depth + 1) for _ in range(n)]
            return "(" + "".join(p[0] for p in parts) + ")", "(" + ", ".join(p[1] for p in parts) + ")"
        if r < 0.92:
            n = self.rng.choice([2, 3])
            s, t = self.ty(depth + 1)
            return "(" + s * n + ")", f"[{t}; {n}]"
        if r < 0.97:
            s, t = self.ty(depth + 1)
            return s, f"{self.rng.choice(['Box', 'Arc'])}<{t}>"
        if self.option:
            s, t = self.ty(depth + 1)
            return "a" + s, f"Option<{t}>"
        return self.rng.choice(LEAVES)

    def fields(self, lo, hi):
        return [self.ty(0) for _ in range(self.rng.randint(lo, hi))]

    def emit(self, name, sig, kind, decl, tgen, to_val, is_key=False):
        self.code.append(decl)
        self.code.append(f"impl TGen for {name} {{\n    fn tgen(seed: u64) -> Self {{\n{tgen}\n    }}\n    fn to_val(&self) -> Val {{\n{to_val}\n    }}\n"
                         f"    fn sig() -> String {{\n        \"{sig}\".into()\n    }}\n}}\n\n")
        self.defined.append((name, sig, kind, is_key))

    DERIVE = "#[derive(Debug, Clone, PartialEq, Serialize, Deserialize, Type)]\n"

    def named_struct(self, name):
        fs = self.fields(1, 5)
        sig = "(" + "".join(s for s, _ in fs) + ")"
        decl = self.DERIVE + f"pub struct {name} {{\n" + "".join(f"    pub f{i}: {t},\n" for i, (_, t) in enumerate(fs)) + "}\n\n"
        tgen = f"        {name} {{ " + ", ".join(f"f{i}: TGen::tgen(mix(seed, {i + 1}))" for i in range(len(fs))) + " }"
        to_val = "        Val::St(vec![" + ", ".join(f"self.f{i}.to_val()" for i in range(len(fs))) + "])"
        self.emit(name, sig, "named-struct", decl, tgen, to_val)

    def tuple_struct(self, name):
        fs = self.fields(2, 4)
        sig = "(" + "".join(s for s, _ in fs) + ")"
        decl = self.DERIVE + f"pub struct {name}(" + ", ".join(f"pub {t}" for _, t in fs) + ");\n\n"
        tgen = f"        {name}(" + ", ".join(f"TGen::tgen(mix(seed, {i + 1}))" for i in range(len(fs))) + ")"
        to_val = "        Val::St(vec![" + ", ".join(f"self.{i}.to_val()" for i in range(len(fs))) + "])"
        self.emit(name, sig, "tuple-struct", decl, tgen, to_val)

    def newtype(self, name):
        s, t = self.ty(0)
        decl = self.DERIVE + f"pub struct {name}(pub {t});\n\n"
        # serde's newtype struct is transparent: the signature is the inner type's
        self.emit(name, s, "newtype", decl, f"        {name}(TGen::tgen(mix(seed, 1)))", "        self.0.to_val()")

    def unit_enum(self, name):
        n = self.rng.randint(2, 5)
        flavour = self.rng.choice(["plain", "repr", "str"])
        variants = [f"V{i}" for i in range(n)]
        key_derive = "#[derive(Debug, Clone, Copy, PartialEq, Eq, Hash, PartialOrd, Ord, {ser}, {de}, Type)]\n"
        if flavour == "plain":
            decl = key_derive.format(ser="Serialize", de="Deserialize") + f"pub enum {name} {{\n" + "".join(f"    {v},\n" for v in variants) + "}\n\n"
            tgen = f"        [" + ", ".join(f"{name}::{v}" for v in variants) + f"][(seed % {n}) as usize]"
            to_val = "        Val::U(match self { " + ", ".join(f"{name}::{v} => {i}" for i, v in enumerate(variants)) + " })"
            self.emit(name, "u", "unit-enum", decl, tgen, to_val, is_key=True)
        elif flavour == "repr":
            rt, code, ctor = self.rng.choice([("u8", "y", "Y"), ("i16", "n", "N"), ("u16", "q", "Q"), ("i32", "i", "I"), ("u32", "u", "U"), ("i64", "x", "X"), ("u64", "t", "T")])
            hi = {"u8": 200, "i16": 30000, "u16": 60000}.get(rt, 1_000_000)
            discs = sorted(self.rng.sample(range(0, hi), n))
            if rt.startswith("i") and self.rng.random() < 0.5:
                discs[0] = -discs[0] - 1
                discs.sort()
            decl = f"#[repr({rt})]\n" + key_derive.format(ser="Serialize_repr", de="Deserialize_repr") + f"pub enum {name} {{\n" + "".join(f"    {v} = {d},\n" for v, d in zip(variants, discs)) + "}\n\n"
            tgen = f"        [" + ", ".join(f"{name}::{v}" for v in variants) + f"][(seed % {n}) as usize]"
            to_val = f"        Val::{ctor}(match self {{ " + ", ".join(f"{name}::{v} => {d}" for v, d in zip(variants, discs)) + " })"
            self.emit(name, code, "repr-enum", decl, tgen, to_val, is_key=True)
        else:
            decl = key_derive.format(ser="Serialize", de="Deserialize") + "#[zvariant(signature = \"s\")]\n" + f"pub enum {name} {{\n" + "".join(f"    {v},\n" for v in variants) + "}\n\n"
            tgen = f"        [" + ", ".join(f"{name}::{v}" for v in variants) + f"][(seed % {n}) as usize]"
            to_val = "        Val::S(match self { " + ", ".join(f"{name}::{v} => \"{v}\"" for v in variants) + " }.to_string())"
            self.emit(name, "s", "string-enum", decl, tgen, to_val, is_key=True)

    def data_enum(self, name):
        n = self.rng.randint(2, 4)
        # an explicit #[repr] on a data-carrying enum changes the in-memory tag only: serde still numbers variants with u32
        self._data_repr = self.rng.choice(["", "", "#[repr(u8)]\n", "#[repr(u16)]\n", "#[repr(u64)]\n", "#[repr(i8)]\n"])
        if self.rng.random() < 0.5:
            s, t = self.ty(1)
            decl = self._data_repr + self.DERIVE + f"pub enum {name} {{\n" + "".join(f"    V{i}({t}),\n" for i in range(n)) + "}\n\n"
            tgen = f"        match seed % {n} {{\n" + "".join(f"            {i} => {name}::V{i}(TGen::tgen(mix(seed, 7))),\n" for i in range(n - 1)) + f"            _ => {name}::V{n - 1}(TGen::tgen(mix(seed, 7))),\n        }}"
            to_val = "        match self {\n" + "".join(f"            {name}::V{i}(x) => Val::St(vec![Val::U({i}), x.to_val()]),\n" for i in range(n)) + "        }"
            self.emit(name, f"(u{s})", "newtype-variant-enum", decl, tgen, to_val)
        else:
            # 1..3 fields; with a single field only the struct-like form `V { g0: T }` is a structure variant
            # (`V(T)` would be a newtype variant), and it is the shape in which the two readings of "one field" can diverge
            fs = self.fields(1, 3)
            inner = "(" + "".join(s for s, _ in fs) + ")"
            vs, tg, tv = [], [], []
            for i in range(n):
                if len(fs) > 1 and self.rng.random() < 0.5:
                    vs.append(f"    V{i}(" + ", ".join(t for _, t in fs) + "),\n")
                    tg.append(f"{name}::V{i}(" + ", ".join(f"TGen::tgen(mix(seed, {j + 1}))" for j in range(len(fs))) + ")")
                    binds = ", ".join(f"a{j}" for j in range(len(fs)))
                    tv.append(f"            {name}::V{i}({binds}) => Val::St(vec![Val::U({i}), Val::St(vec![" + ", ".join(f"a{j}.to_val()" for j in range(len(fs))) + "])]),\n")
                else:
                    vs.append(f"    V{i} {{ " + ", ".join(f"g{j}: {t}" for j, (_, t) in enumerate(fs)) + " },\n")
                    tg.append(f"{name}::V{i} {{ " + ", ".join(f"g{j}: TGen::tgen(mix(seed, {j + 1}))" for j in range(len(fs))) + " }")
                    binds = ", ".join(f"g{j}" for j in range(len(fs)))
                    tv.append(f"            {name}::V{i} {{ {binds} }} => Val::St(vec![Val::U({i}), Val::St(vec![" + ", ".join(f"g{j}.to_val()" for j in range(len(fs))) + "])]),\n")
            decl = self._data_repr + self.DERIVE + f"pub enum {name} {{\n" + "".join(vs) + "}\n\n"
            tgen = f"        match seed % {n} {{\n" + "".join(f"            {i} => {tg[i]},\n" for i in range(n - 1)) + f"            _ => {tg[n - 1]},\n        }}"
            to_val = "        match self {\n" + "".join(tv) + "        }"
            self.emit(name, f"(u{inner})", "struct-variant-enum", decl, tgen, to_val)

    def dict_field_ty(self):
        r = self.rng.random()
        basics = [l for l in LEAVES if l[1] not in ("char", "Duration", "usize", "isize")]
        if r < 0.6:
            return self.rng.choice(basics)
        if r < 0.75:
            s, t = self.rng.choice(basics)
            return "a" + s, f"Vec<{t}>"
        if r < 0.85:
            a, b = self.rng.choice(basics), self.rng.choice(basics)
            return f"({a[0]}{b[0]})", f"({a[1]}, {b[1]})"
        structs = [d for d in self.defined if d[2] in ("named-struct", "tuple-struct", "unit-enum", "repr-enum", "string-enum")]
        if structs:
            d = self.rng.choice(structs)
            return d[1], d[0]
        return self.rng.choice(basics)

    def dict_struct(self, name):
        n = self.rng.randint(1, 5)
        rename = self.rng.choice([None, "PascalCase", "kebab-case", "camelCase", "snake_case"])
        fields = []
        words = ["alpha", "beta_gamma", "delta", "eps_zeta_eta", "theta", "iota_k"]
        self.rng.shuffle(words)
        for i in range(n):
            s, t = self.dict_field_ty()
            fields.append((words[i], s, t, self.rng.random() < 0.5))

        def key(w):
            parts = w.split("_")
            if rename == "PascalCase":
                return "".join(p.capitalize() for p in parts)
            if rename == "camelCase":
                return parts[0] + "".join(p.capitalize() for p in parts[1:])
            if rename == "kebab-case":
                return "-".join(parts)
            return w
        via_derive = self.rng.random() < 0.6
        attr = "#[zvariant(signature = \"dict\"" + (f", rename_all = \"{rename}\"" if rename and via_derive else "") + ")]\n"
        if via_derive:
            decl = "#[derive(Debug, Clone, PartialEq, SerializeDict, DeserializeDict, Type)]\n" + attr + f"pub struct {name} {{\n"
            for w, s, t, opt in fields:
                decl += f"    pub {w}: {'Option<' + t + '>' if opt else t},\n"
            decl += "}\n\n"
        else:
            decl = "#[derive(Debug, Clone, PartialEq, Serialize, Deserialize, Type)]\n" + attr + (f"#[serde(rename_all = \"{rename}\")]\n" if rename else "") + f"pub struct {name} {{\n"
            for w, s, t, opt in fields:
                if opt:
                    decl += f"    #[serde(with = \"as_value::optional\", skip_serializing_if = \"Option::is_none\", default)]\n    pub {w}: Option<{t}>,\n"
                else:
                    decl += f"    #[serde(with = \"as_value\")]\n    pub {w}: {t},\n"
            decl += "}\n\n"
        tgen = f"        {name} {{\n"
        for i, (w, s, t, opt) in enumerate(fields):
            if opt:
                tgen += f"            {w}: if mix(seed, {50 + i}) % 3 == 0 {{ None }} else {{ Some(TGen::tgen(mix(seed, {i + 1}))) }},\n"
            else:
                tgen += f"            {w}: TGen::tgen(mix(seed, {i + 1})),\n"
        tgen += "        }"
        to_val = "        let mut es: Vec<(Val, Val)> = Vec::new();\n"
        for w, s, t, opt in fields:
            if opt:
                to_val += f"        if let Some(x) = &self.{w} {{ es.push((Val::S(\"{key(w)}\".into()), Val::V(Box::new(x.to_val())))); }}\n"
            else:
                to_val += f"        es.push((Val::S(\"{key(w)}\".into()), Val::V(Box::new(self.{w}.to_val()))));\n"
        to_val += "        Val::Dict(Sig::S, Sig::V, es)"
        self.emit(name, "a{sv}", "dict-struct-derive" if via_derive else "dict-struct-as-value", decl, tgen, to_val)


def main():
    seed, count, path = int(sys.argv[1]), int(sys.argv[2]), sys.argv[3]
    option = "--option" in sys.argv
    rng = random.Random(seed * 7_000_003 + count + (1 if option else 0))
    g = Gen(rng, option)
    kinds = [g.named_struct, g.named_struct, g.tuple_struct, g.newtype, g.unit_enum, g.unit_enum, g.data_enum, g.data_enum, g.dict_struct, g.dict_struct]
    for i in range(count):
        # make sure every kind appears early, then random
        k = kinds[i % len(kinds)] if i < 2 * len(kinds) else rng.choice(kinds)
        k(f"T{i}")
    head = (f"// @generated by engines/gen/gen_types.py seed={seed} count={count} option={option} -- do not edit\n"
            "#![allow(unused_imports, dead_code, clippy::all, non_camel_case_types)]\n"
            "use crate::support::*;\nuse serde::{Deserialize, Serialize};\nuse serde_repr::{Deserialize_repr, Serialize_repr};\n"
            "use std::collections::{BTreeMap, BTreeSet, HashMap, VecDeque};\nuse std::sync::Arc;\nuse std::time::Duration;\n"
            "use vref::sig::Sig;\nuse vref::val::Val;\nuse zvariant::{as_value, DeserializeDict, OwnedObjectPath, SerializeDict, Type};\n\n")
    body = "".join(g.code)
    # the registry: each type alone and nested in containers at different alignments
    reg = "pub fn exercise_all(v: &mut crate::c09::Runner<'_>) {\n"
    for name, sig, kind, is_key in g.defined:
        reg += f"    v.visit::<{name}>(\"{name}\", \"{kind}\");\n"
        reg += f"    v.visit::<Vec<{name}>>(\"Vec<{name}>\", \"{kind}-in-array\");\n"
        reg += f"    v.visit::<(u8, {name}, u8)>(\"(u8,{name},u8)\", \"{kind}-in-struct\");\n"
        reg += f"    v.visit::<BTreeMap<String, {name}>>(\"BTreeMap<String,{name}>\", \"{kind}-in-dict-value\");\n"
        if is_key:
            reg += f"    v.visit::<HashMap<{name}, u8>>(\"HashMap<{name},u8>\", \"{kind}-as-dict-key\");\n"
    reg += "}\n"
    text = head + body + reg
    try:
        with open(path) as f:
            if f.read() == text:
                return
    except FileNotFoundError:
        pass
    with open(path, "w") as f:
        f.write(text)


if __name__ == "__main__":
    main()
