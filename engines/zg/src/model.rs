//! Reference side of the generated programs: `from_seed` and `digest` on
//! reference values (`vref::val::Val`), defined by the D-Bus signature alone.
//! Must mirror `support.rs` exactly; neither side uses the library's codec.

use crate::support::{fnv_bytes, mix, string_from_seed};
use vref::sig::Sig;
use vref::val::Val;

pub fn parse1(sig: &str) -> Sig {
    let v = vref::sig::parse_sig(sig.as_bytes(), vref::sig::SigOpts { allow_maybe: false }).unwrap_or_else(|e| panic!("bad generated signature {sig}: {e:?}"));
    assert_eq!(v.len(), 1, "generated signature {sig} is not one complete type");
    v.into_iter().next().unwrap()
}

pub fn val_from_seed(sig: &Sig, seed: u64) -> Val {
    match sig {
        Sig::Y => Val::Y(seed as u8),
        Sig::B => Val::B(seed & 1 == 1),
        Sig::N => Val::N(seed as i16),
        Sig::Q => Val::Q(seed as u16),
        Sig::I => Val::I(seed as i32),
        Sig::U => Val::U(seed as u32),
        Sig::X => Val::X(seed as i64),
        Sig::T => Val::T(seed),
        Sig::D => Val::D((((seed % 100_000) as f64) / 16.0 - 1000.0).to_bits()),
        Sig::S => Val::S(string_from_seed(seed)),
        Sig::O => Val::O(format!("/o/p{}", seed % 1000)),
        Sig::A(e) => {
            let n = seed % 4;
            Val::A((**e).clone(), (0..n).map(|i| val_from_seed(e, mix(seed, i + 1))).collect())
        }
        Sig::Dict(k, v) => {
            let n = seed % 3;
            let mut es: Vec<(Val, Val)> = Vec::new();
            for i in 0..n {
                let key = val_from_seed(k, mix(seed, 2 * i + 1));
                let val = val_from_seed(v, mix(seed, 2 * i + 2));
                // HashMap::insert: a later equal key replaces the value
                if let Some(e) = es.iter_mut().find(|(kk, _)| vref::val::dict_key_equal(kk, &key)) {
                    e.1 = val;
                } else {
                    es.push((key, val));
                }
            }
            Val::Dict((**k).clone(), (**v).clone(), es)
        }
        Sig::St(fs) => Val::St(fs.iter().enumerate().map(|(j, f)| val_from_seed(f, mix(seed, 100 + j as u64))).collect()),
        Sig::V => {
            let inner = match seed % 4 {
                0 => Val::U(mix(seed, 1) as u32),
                1 => Val::S(string_from_seed(mix(seed, 2))),
                2 => val_from_seed(&Sig::A(Box::new(Sig::U)), mix(seed, 3)),
                _ => val_from_seed(&Sig::St(vec![Sig::I, Sig::S]), mix(seed, 4)),
            };
            Val::V(Box::new(inner))
        }
        other => panic!("signature {other:?} is not in the generator's palette"),
    }
}

pub fn val_digest(v: &Val) -> u64 {
    match v {
        Val::Y(x) => mix(1, *x as i128 as u64),
        Val::B(x) => mix(2, *x as u64),
        Val::N(x) => mix(3, *x as i128 as u64),
        Val::Q(x) => mix(4, *x as i128 as u64),
        Val::I(x) => mix(5, *x as i128 as u64),
        Val::U(x) => mix(6, *x as i128 as u64),
        Val::X(x) => mix(7, *x as i128 as u64),
        Val::T(x) => mix(8, *x as i128 as u64),
        Val::D(bits) => mix(9, *bits),
        Val::S(s) => mix(10, fnv_bytes(s.as_bytes())),
        Val::O(s) => mix(11, fnv_bytes(s.as_bytes())),
        Val::G(s) => mix(12, fnv_bytes(s.as_bytes())),
        Val::V(inner) => mix(23, val_digest(inner)),
        Val::A(_, xs) => {
            let mut h = mix(20, xs.len() as u64);
            for e in xs {
                h = mix(h, val_digest(e));
            }
            h
        }
        Val::Dict(_, _, es) => {
            let mut h = mix(21, es.len() as u64);
            for (k, v) in es {
                h = h.wrapping_add(mix(val_digest(k), val_digest(v)));
            }
            h
        }
        Val::St(fs) => {
            let mut h = mix(22, fs.len() as u64);
            for f in fs {
                h = mix(h, val_digest(f));
            }
            h
        }
        _ => 0xdead,
    }
}

pub fn args_digest(salt: u64, args: &[Val]) -> u64 {
    let ds: Vec<u64> = args.iter().map(val_digest).collect();
    crate::support::args_digest(salt, &ds)
}

/// A random well-typed argument for `sig` (not limited to what from_seed produces for variants).
pub fn gen_arg(rng: &mut vref::prng::Rng, sig: &Sig) -> Val {
    if rng.chance(1, 2) {
        return val_from_seed(sig, rng.next_u64());
    }
    let so = vref::sig::GenOpts { max_depth: 2, max_fields: 3, allow_maybe: false, allow_fd: false, allow_variant: false };
    let vo = vref::val::ValOpts { budget: 12, max_len: 3, boundary_pct: 30, nfds: 0, sig: so, max_str: 8 };
    let v = vref::val::gen_val(rng, sig, &vo);
    sanitize(&v)
}

/// Keep generated values inside what both digests define identically (no fds, no signature values, unique dict keys,
/// variants holding palette types only).
fn sanitize(v: &Val) -> Val {
    match v {
        Val::G(_) => Val::G("i".into()),
        Val::V(x) => match &**x {
            Val::H(_) | Val::M(..) => Val::V(Box::new(Val::U(7))),
            other => Val::V(Box::new(sanitize(other))),
        },
        Val::A(e, xs) => Val::A(e.clone(), xs.iter().map(sanitize).collect()),
        Val::Dict(k, vv, es) => {
            let mut out: Vec<(Val, Val)> = Vec::new();
            for (a, b) in es {
                let a2 = sanitize(a);
                if out.iter().any(|(kk, _)| vref::val::dict_key_equal(kk, &a2)) {
                    continue;
                }
                out.push((a2, sanitize(b)));
            }
            Val::Dict(k.clone(), vv.clone(), out)
        }
        Val::St(fs) => Val::St(fs.iter().map(sanitize).collect()),
        other => other.clone(),
    }
}
