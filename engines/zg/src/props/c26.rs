//! C26 — method dispatch answers each call exactly once and correctly.
//!
//! The raw peer sends bursts of calls to generated interfaces: correct ones and
//! ones with a wrong/unregistered path, interface, member or argument list, with
//! and without the no-reply flag and the INTERFACE header field. The handler
//! invocation log and every reply are compared with what the generator's
//! metadata implies.

use super::common::*;
use crate::generated::IFACES;
use crate::model::*;
use crate::support::{mix, take_log, Invocation};
use serde_json::json;
use vcommon::Ctx;
use vref::msg::*;
use vref::prng::{fnv, Rng};
use vref::sig::Sig;
use vref::val::Val;

const E_OBJ: &str = "org.freedesktop.DBus.Error.UnknownObject";
const E_IFACE: &str = "org.freedesktop.DBus.Error.UnknownInterface";
const E_METHOD: &str = "org.freedesktop.DBus.Error.UnknownMethod";
const E_ARGS: &str = "org.freedesktop.DBus.Error.InvalidArgs";

#[derive(Debug, Clone)]
enum Expect {
    /// handler runs; reply is a return with this body
    Return(Vec<Val>),
    /// handler runs; reply is this error with a message starting with the given text
    HandlerError(&'static str, String),
    /// handler must not run; reply is the named standard error
    Refused(&'static str),
    /// no INTERFACE header: exactly one reply; if it is a return it must be this body (the handler may or may not run)
    NoInterface(Vec<Val>, Option<(&'static str, String)>),
}

struct Call {
    serial: u32,
    kind: &'static str,
    desc: String,
    noreply: bool,
    expect: Expect,
    invocation: Option<Invocation>,
    invocation_optional: bool,
}

fn mutate_args(rng: &mut Rng, ins: &[Sig], args: &[Val]) -> Option<(Vec<Val>, &'static str)> {
    let mut a = args.to_vec();
    match rng.below(4) {
        0 if !a.is_empty() => {
            a.pop();
            Some((a, "argument-dropped"))
        }
        1 => {
            a.push(Val::U(7));
            Some((a, "argument-added"))
        }
        2 if !a.is_empty() => {
            let k = rng.usize_below(a.len());
            // retype: a value of another signature
            let other = match &ins[k] {
                Sig::S => Val::U(1),
                Sig::U => Val::S("x".into()),
                Sig::A(_) => Val::S("x".into()),
                _ => Val::A(Sig::S, vec![Val::S("x".into())]),
            };
            if other.sig() == ins[k] {
                return None;
            }
            a[k] = other;
            Some((a, "argument-retyped"))
        }
        3 if a.len() >= 2 => {
            let k = rng.usize_below(a.len() - 1);
            if a[k].sig() == a[k + 1].sig() {
                return None;
            }
            a.swap(k, k + 1);
            Some((a, "arguments-swapped"))
        }
        _ => None,
    }
}

fn case(ctx: &mut Ctx, index: u64, rng: &mut Rng) {
    ctx.count("evaluations", 1);
    let want_ifaces = 1 + rng.usize_below(4);
    let mut rig = match rig(rng, want_ifaces) {
        Ok(r) => r,
        Err(e) => {
            ctx.finding(index, "harness-or-hang", "-", "setup", json!({"error": e}));
            return;
        }
    };
    let _ = take_log();
    let pairs: Vec<((usize, usize), u32)> = rig.registered.iter().map(|(k, v)| (*k, *v)).collect();
    let mut calls: Vec<Call> = Vec::new();
    let ncalls = 6 + rng.usize_below(if ctx.thorough() { 40 } else { 20 });
    for _ in 0..ncalls {
        let ((p, i), inst) = *rng.pick(&pairs);
        let im = iface(i);
        if im.methods.is_empty() {
            continue;
        }
        let mm = rng.pick(im.methods);
        let ins: Vec<Sig> = mm.ins.iter().map(|s| parse1(s)).collect();
        let outs: Vec<Sig> = mm.outs.iter().map(|s| parse1(s)).collect();
        let args: Vec<Val> = ins.iter().map(|s| gen_arg(rng, s)).collect();
        let d = args_digest(mm.salt, &args);
        let good_reply: Vec<Val> = outs.iter().enumerate().map(|(j, s)| val_from_seed(s, mix(d, j as u64))).collect();
        let good_expect = if mm.fallible == 1 && d % 4 == 0 {
            Expect::HandlerError("org.freedesktop.DBus.Error.Failed", format!("f{d}"))
        } else if mm.fallible == 2 && d % 4 == 0 {
            Expect::HandlerError("t.gen.Error.Custom", format!("c{d}"))
        } else {
            Expect::Return(good_reply.clone())
        };
        let inv = Invocation { iface: i, instance: inst, member: mm.name, digest: d };
        let serial = rig.peer.serial();
        let noreply = rng.chance(1, 7);
        let r = rng.below(100);
        let (path, iface_name, member, body, kind, expect, invocation, inv_opt): (String, Option<String>, String, Vec<Val>, &'static str, Expect, Option<Invocation>, bool) = if r < 45 {
            (PATHS[p].into(), Some(im.name.into()), mm.name.into(), args.clone(), "correct", good_expect, Some(inv), false)
        } else if r < 55 {
            // a path that is neither registered nor an ancestor of anything registered
            let bad = *rng.pick(&["/nope", "/g/zz", "/h/b/c/d", "/g/a/x/y"]);
            (bad.into(), Some(im.name.into()), mm.name.into(), args.clone(), "unknown-object", Expect::Refused(E_OBJ), None, false)
        } else if r < 65 {
            // an interface that is not registered at this path
            let other: Vec<usize> = (0..IFACES.len()).filter(|j| !rig.registered.contains_key(&(p, *j))).collect();
            let name = if other.is_empty() || rng.chance(1, 3) { "t.gen.Nope".to_string() } else { IFACES[*rng.pick(&other)].name.to_string() };
            (PATHS[p].into(), Some(name), mm.name.into(), args.clone(), "unknown-interface", Expect::Refused(E_IFACE), None, false)
        } else if r < 75 {
            let mut names: Vec<String> = vec!["Nope".into(), format!("{}x", mm.name), mm.name.to_lowercase() + "_"];
            names.extend(im.props.iter().map(|p| p.name.to_string()));
            names.extend(im.signals.iter().map(|s| s.name.to_string()));
            let name = rng.pick(&names).clone();
            if im.methods.iter().any(|m| m.name == name) || im.signals.iter().any(|s| s.emitter == name) {
                continue;
            }
            (PATHS[p].into(), Some(im.name.into()), name, args.clone(), "unknown-method", Expect::Refused(E_METHOD), None, false)
        } else if r < 90 {
            match mutate_args(rng, &ins, &args) {
                Some((bad, how)) => (PATHS[p].into(), Some(im.name.into()), mm.name.into(), bad, how, Expect::Refused(E_ARGS), None, false),
                None => continue,
            }
        } else {
            // no INTERFACE header field
            let err = match &good_expect {
                Expect::HandlerError(n, t) => Some((*n, t.clone())),
                _ => None,
            };
            (PATHS[p].into(), None, mm.name.into(), args.clone(), "no-interface-header", Expect::NoInterface(good_reply.clone(), err), Some(inv), true)
        };
        let mut m = Msg::method_call(serial, &path, iface_name.as_deref(), &member).with_body(body.clone());
        // the other two flag bits ride along at random (with and without the no-reply bit)
        let other_flags = *rng.pick(&[0u8, 0, 2, 4, 6]);
        if noreply {
            m = m.with_flags(1 | other_flags);
            if other_flags != 0 {
                ctx.count("class:no-reply-with-other-flags", 1);
            }
        } else if other_flags != 0 {
            m = m.with_flags(other_flags);
        }
        let chunks: Vec<usize> = if rng.bool() { vec![] } else { vec![1 + rng.usize_below(64)] };
        rig.peer.send(&m, vec![], &chunks);
        let desc = format!("{kind}{}: {path} {} {member}({}) sig '{}'", if noreply { "+noreply" } else { "" }, iface_name.as_deref().unwrap_or("<none>"), show_body(&body).join(", "), m.body_sig_string());
        calls.push(Call { serial, kind, desc, noreply, expect, invocation, invocation_optional: inv_opt });
        // some bursts, some one-at-a-time
        if rng.chance(1, 3) {
            rig.sched.run_to_quiescence();
        }
    }
    let q = rig.sched.run_to_quiescence();
    let replies = rig.peer.pump();
    let mut log = take_log();
    ctx.distinct(rig.sched.fingerprint() ^ fnv(&calls.iter().map(|c| c.desc.clone()).collect::<Vec<_>>().join(";")));
    if !rig.peer.parse_errors.is_empty() {
        ctx.finding(index, "peer-could-not-parse-zbus-output", "-", "-", json!({"errors": rig.peer.parse_errors, "calls": calls.iter().map(|c| c.desc.clone()).collect::<Vec<_>>()}));
        return;
    }
    for c in &calls {
        ctx.count("calls_checked", 1);
        ctx.count(&format!("class:{}", c.kind), 1);
        if c.noreply {
            ctx.count("class:no-reply-flag", 1);
        }
        let rs: Vec<_> = replies.iter().filter(|r| r.msg.reply_serial() == Some(c.serial)).collect();
        let detail = |extra: serde_json::Value| json!({"call": c.desc, "expected": format!("{:?}", c.expect).chars().take(600).collect::<String>(), "info": extra, "quiescent": q});
        // handler invocation
        // (calls whose handler MAY run - no INTERFACE field - take their log entry only after every call that MUST
        // have run has taken its own: see below)
        let ran = match c.invocation.as_ref().filter(|_| !c.invocation_optional) {
            Some(inv) => match log.iter().position(|l| l == inv) {
                Some(k) => {
                    log.remove(k);
                    true
                }
                None => false,
            },
            None => false,
        };
        if c.invocation.is_some() && !ran && !c.invocation_optional {
            ctx.finding(index, "handler-did-not-run", c.kind, "-", detail(json!({"replies": rs.len(), "reply_error": rs.first().and_then(|r| r.msg.error_name().map(|s| s.to_string())),
                "wanted": format!("{:?}", c.invocation), "log_left": log.iter().map(|l| format!("{l:?}")).collect::<Vec<_>>(), "all_calls": calls.iter().map(|c| c.desc.chars().take(90).collect::<String>()).collect::<Vec<_>>()})));
            return;
        }
        // reply count
        let want_replies = if c.noreply { 0 } else { 1 };
        if rs.len() != want_replies {
            ctx.finding(index, "reply-count", &format!("expected-{want_replies}-got-{}", rs.len().min(2)), c.kind, detail(json!({})));
            return;
        }
        let Some(r) = rs.first() else { continue };
        let got_err = r.msg.error_name().map(|s| s.to_string());
        let err_text = match r.msg.body.first() {
            Some(Val::S(s)) => s.clone(),
            _ => String::new(),
        };
        match &c.expect {
            Expect::Return(body) => {
                if r.msg.mtype != METHOD_RETURN {
                    ctx.finding(index, "correct-call-answered-with-error", got_err.as_deref().unwrap_or("?"), "-", detail(json!({"error_text": err_text})));
                    return;
                }
                if !body_eq(&r.msg.body, body) {
                    ctx.finding(index, "reply-body-differs", if r.msg.body.len() != body.len() { "argument-count" } else { "values" }, "-", detail(json!({"got": show_body(&r.msg.body), "got_signature": r.msg.body_sig_string()})));
                    return;
                }
            }
            Expect::HandlerError(name, text) => {
                if r.msg.mtype != ERROR || got_err.as_deref() != Some(*name) || !err_text.contains(text.as_str()) {
                    ctx.finding(index, "handler-error-not-relayed", name, "-", detail(json!({"reply_type": r.msg.mtype, "error": got_err, "error_text": err_text})));
                    return;
                }
            }
            Expect::Refused(name) => {
                if r.msg.mtype != ERROR {
                    ctx.finding(index, "bad-call-answered-with-return", c.kind, "-", detail(json!({"got": show_body(&r.msg.body)})));
                    return;
                }
                if got_err.as_deref() != Some(*name) {
                    ctx.finding(index, "wrong-standard-error", &format!("{}-answered-{}", c.kind, got_err.as_deref().unwrap_or("?")), "-", detail(json!({"error_text": err_text})));
                    return;
                }
            }
            Expect::NoInterface(body, err) => {
                if r.msg.mtype == METHOD_RETURN {
                    if err.is_some() || !body_eq(&r.msg.body, body) {
                        ctx.finding(index, "reply-body-differs", "no-interface-header", "-", detail(json!({"got": show_body(&r.msg.body)})));
                        return;
                    }
                }
            }
        }
    }
    for c in calls.iter().filter(|c| c.invocation_optional) {
        if let Some(k) = c.invocation.as_ref().and_then(|inv| log.iter().position(|l| l == inv)) {
            log.remove(k);
        }
    }
    // anything left in the log is a handler that ran although it must not have
    if let Some(l) = log.first() {
        let which = calls.iter().find(|c| c.invocation.is_none()).map(|c| c.kind).unwrap_or("?");
        ctx.finding(index, "handler-ran-for-a-call-it-must-not-serve", IFACES[l.iface].name, which, json!({"invocation": format!("{l:?}"), "calls": calls.iter().map(|c| c.desc.clone()).collect::<Vec<_>>()}));
        return;
    }
    ctx.sample(json!({"registered": rig.registered.iter().map(|((p, i), n)| format!("{} {} #{n}", PATHS[*p], IFACES[*i].name)).collect::<Vec<_>>(),
        "calls": calls.iter().take(6).map(|c| c.desc.chars().take(200).collect::<String>()).collect::<Vec<_>>(), "replies": replies.len(), "schedule": rig.sched.trace_string().chars().take(80).collect::<String>()}));
}

pub fn run(ctx: &mut Ctx) {
    let n = ctx.budget(1500, 60_000);
    if ctx.args.shard == 0 {
        ctx.count("generated_interfaces", IFACES.len() as u64);
        ctx.count("generated_methods", IFACES.iter().map(|i| i.methods.len() as u64).sum());
    }
    for i in 0..n {
        if !ctx.want(i) {
            continue;
        }
        let mut rng = ctx.rng(i);
        ctx.guarded(i, "calls", || json!({}), |ctx| case(ctx, i, &mut rng));
    }
}
