//! C28 — the Properties interface behaves as the property definitions say.
//!
//! A property-store model (one per registered interface instance) is driven by
//! random Get / GetAll / Set histories sent by the raw peer; every reply and
//! every PropertiesChanged signal is compared with the model.

use super::common::*;
use crate::generated::IFACES;
use crate::model::*;
use crate::support::PropMeta;
use serde_json::json;
use std::collections::BTreeMap;
use vcommon::Ctx;
use vref::msg::*;
use vref::prng::{fnv, Rng};
use vref::sig::Sig;
use vref::val::Val;

const PROPS: &str = "org.freedesktop.DBus.Properties";

fn other_typed(sig: &Sig) -> Val {
    match sig {
        Sig::S => Val::U(1),
        Sig::U => Val::S("x".into()),
        Sig::A(_) | Sig::Dict(..) => Val::S("x".into()),
        _ => Val::A(Sig::S, vec![Val::S("x".into())]),
    }
}

fn case(ctx: &mut Ctx, index: u64, rng: &mut Rng) {
    ctx.count("evaluations", 1);
    let want_ifaces = 1 + rng.usize_below(3);
    let mut rig = match rig(rng, want_ifaces) {
        Ok(r) => r,
        Err(e) => {
            ctx.finding(index, "harness-or-hang", "-", "setup", json!({"error": e}));
            return;
        }
    };
    let pairs: Vec<(usize, usize)> = rig.registered.keys().copied().filter(|(_, i)| !iface(*i).props.is_empty()).collect();
    if pairs.is_empty() {
        ctx.count("class:no-properties-in-this-rig", 1);
        return;
    }
    // model: (path, iface) -> prop -> value
    let mut store: BTreeMap<(usize, usize), BTreeMap<&'static str, Val>> = BTreeMap::new();
    for (p, i) in &pairs {
        let mut m = BTreeMap::new();
        for pm in iface(*i).props {
            m.insert(pm.name, val_from_seed(&parse1(pm.sig), pm.init_seed));
        }
        store.insert((*p, *i), m);
    }
    let mut log: Vec<String> = Vec::new();
    let nops = if ctx.thorough() { 50 + rng.usize_below(450) } else { 20 + rng.usize_below(40) };
    for _ in 0..nops {
        let (p, i) = *rng.pick(&pairs);
        let im = iface(i);
        let pm: &PropMeta = rng.pick(im.props);
        let sig = parse1(pm.sig);
        let serial = rig.peer.serial();
        let r = rng.below(100);
        let before_signals = rig.peer.received.len();
        let _ = before_signals;
        enum Want {
            Value(Val),
            All(Vec<(String, Val)>),
            Error,
            SetOk,
        }
        let mut expect_signal: Option<(Vec<(String, Val)>, Vec<String>)> = None;
        let (msg, want, desc): (Msg, Want, String) = if r < 25 {
            let m = Msg::method_call(serial, PATHS[p], Some(PROPS), "Get").with_body(vec![Val::S(im.name.into()), Val::S(pm.name.into())]);
            let w = if pm.read { Want::Value(store[&(p, i)][pm.name].clone()) } else { Want::Error };
            (m, w, format!("Get({}, {}){}", im.name, pm.name, if pm.read { "" } else { " [write-only]" }))
        } else if r < 30 {
            let name = *rng.pick(&["Nope", "", "nope_x"]);
            let m = Msg::method_call(serial, PATHS[p], Some(PROPS), "Get").with_body(vec![Val::S(im.name.into()), Val::S(name.into())]);
            (m, Want::Error, format!("Get({}, {name:?}) [unknown property]", im.name))
        } else if r < 45 {
            let m = Msg::method_call(serial, PATHS[p], Some(PROPS), "GetAll").with_body(vec![Val::S(im.name.into())]);
            let all: Vec<(String, Val)> = im.props.iter().filter(|x| x.read).map(|x| (x.name.to_string(), store[&(p, i)][x.name].clone())).collect();
            (m, Want::All(all), format!("GetAll({})", im.name))
        } else if r < 48 {
            let m = Msg::method_call(serial, PATHS[p], Some(PROPS), "GetAll").with_body(vec![Val::S("t.gen.Nope".into())]);
            (m, Want::Error, "GetAll(t.gen.Nope) [unknown interface]".into())
        } else if r < 80 {
            // Set with a value of the right type; one time in six the value the property already holds (still a Set:
            // it must be announced like any other, and a read-only property must still refuse it)
            let v = if rng.chance(1, 6) { store[&(p, i)][pm.name].clone() } else { gen_arg(rng, &sig) };
            if normalise(&v) == normalise(&store[&(p, i)][pm.name]) {
                ctx.count("class:set-of-the-current-value", 1);
            }
            let m = Msg::method_call(serial, PATHS[p], Some(PROPS), "Set").with_body(vec![Val::S(im.name.into()), Val::S(pm.name.into()), Val::V(Box::new(v.clone()))]);
            if !pm.write {
                (m, Want::Error, format!("Set({}, {}) [read-only]", im.name, pm.name))
            } else if pm.fallible_setter && val_digest(&v) % 5 == 0 {
                (m, Want::Error, format!("Set({}, {}) [setter refuses this value]", im.name, pm.name))
            } else {
                store.get_mut(&(p, i)).unwrap().insert(pm.name, v.clone());
                match pm.emits {
                    "true" => expect_signal = Some((vec![(pm.name.to_string(), v.clone())], vec![])),
                    "invalidates" => expect_signal = Some((vec![], vec![pm.name.to_string()])),
                    _ => {}
                }
                (m, Want::SetOk, format!("Set({}, {}, {}) [emits {}]", im.name, pm.name, v.show().chars().take(80).collect::<String>(), pm.emits))
            }
        } else if r < 90 {
            let v = other_typed(&sig);
            let m = Msg::method_call(serial, PATHS[p], Some(PROPS), "Set").with_body(vec![Val::S(im.name.into()), Val::S(pm.name.into()), Val::V(Box::new(v))]);
            (m, Want::Error, format!("Set({}, {}) [wrongly typed value for {}]", im.name, pm.name, pm.sig))
        } else {
            let m = Msg::method_call(serial, PATHS[p], Some(PROPS), "Set").with_body(vec![Val::S(im.name.into()), Val::S("Nope".into()), Val::V(Box::new(Val::U(1)))]);
            (m, Want::Error, format!("Set({}, Nope) [unknown property]", im.name))
        };
        log.push(desc.clone());
        if log.len() > 12 {
            log.remove(0);
        }
        let chunks: Vec<usize> = if rng.bool() { vec![] } else { vec![1 + rng.usize_below(48)] };
        rig.peer.send(&msg, vec![], &chunks);
        rig.sched.run_to_quiescence();
        let arrived = rig.peer.pump();
        ctx.count("operations_checked", 1);
        let detail = |extra: serde_json::Value| json!({"operation": desc, "recent": log, "info": extra});
        let replies: Vec<_> = arrived.iter().filter(|m| m.msg.reply_serial() == Some(serial)).collect();
        if replies.len() != 1 {
            ctx.finding(index, "reply-count", &format!("got-{}", replies.len().min(2)), desc.split('(').next().unwrap_or(""), detail(json!({})));
            return;
        }
        let rep = &replies[0].msg;
        match &want {
            Want::Error => {
                ctx.count("class:expected-error", 1);
                if rep.mtype != ERROR {
                    let what = desc.rsplit('[').next().unwrap_or("").trim_end_matches(']').replace(' ', "-");
                    ctx.finding(index, "operation-that-must-fail-succeeded", &what, desc.split('(').next().unwrap_or(""), detail(json!({"reply": show_body(&rep.body)})));
                    return;
                }
            }
            Want::Value(v) => {
                ctx.count("class:get", 1);
                if rep.mtype != METHOD_RETURN || !body_eq(&rep.body, &[Val::V(Box::new(v.clone()))]) {
                    ctx.finding(index, "get-returns-other-value", if rep.mtype == ERROR { "error" } else { "value" }, pm.sig, detail(json!({"expected": v.show(), "got": show_body(&rep.body), "error": rep.error_name()})));
                    return;
                }
            }
            Want::All(all) => {
                ctx.count("class:get-all", 1);
                let want_dict = Val::Dict(Sig::S, Sig::V, all.iter().map(|(k, v)| (Val::S(k.clone()), Val::V(Box::new(v.clone())))).collect());
                if rep.mtype != METHOD_RETURN || !body_eq(&rep.body, &[want_dict.clone()]) {
                    let got_keys: Vec<String> = match rep.body.first() {
                        Some(Val::Dict(_, _, es)) => es.iter().map(|(k, _)| k.show()).collect(),
                        _ => vec![],
                    };
                    let reason = if got_keys.len() != all.len() { "property-set-differs" } else { "values-differ" };
                    ctx.finding(index, "getall-differs", reason, "-", detail(json!({"expected": normalise(&want_dict).show().chars().take(600).collect::<String>(), "got": show_body(&rep.body), "error": rep.error_name()})));
                    return;
                }
            }
            Want::SetOk => {
                ctx.count("class:set-ok", 1);
                if rep.mtype != METHOD_RETURN {
                    ctx.finding(index, "valid-set-refused", rep.error_name().unwrap_or("?"), pm.sig, detail(json!({"error_text": show_body(&rep.body)})));
                    return;
                }
            }
        }
        // PropertiesChanged signals since the request
        let signals: Vec<&Msg> = arrived.iter().map(|m| &m.msg).filter(|m| m.mtype == SIGNAL && m.interface() == Some(PROPS) && m.member() == Some("PropertiesChanged")).collect();
        match &expect_signal {
            None => {
                if !signals.is_empty() {
                    ctx.finding(index, "unexpected-properties-changed", pm.emits, desc.split('(').next().unwrap_or(""), detail(json!({"signals": signals.iter().map(|s| show_body(&s.body)).collect::<Vec<_>>()})));
                    return;
                }
            }
            Some((changed, inval)) => {
                ctx.count("class:set-with-signal", 1);
                if signals.len() != 1 {
                    ctx.finding(index, "properties-changed-count", &format!("got-{}", signals.len().min(2)), pm.emits, detail(json!({})));
                    return;
                }
                let s = signals[0];
                let want_body = vec![
                    Val::S(im.name.into()),
                    Val::Dict(Sig::S, Sig::V, changed.iter().map(|(k, v)| (Val::S(k.clone()), Val::V(Box::new(v.clone())))).collect()),
                    Val::A(Sig::S, inval.iter().map(|k| Val::S(k.clone())).collect()),
                ];
                if s.path() != Some(PATHS[p]) || !body_eq(&s.body, &want_body) {
                    ctx.finding(index, "properties-changed-content", pm.emits, pm.sig, detail(json!({"path": s.path(), "expected": show_body(&want_body), "got": show_body(&s.body)})));
                    return;
                }
            }
        }
    }
    ctx.distinct(rig.sched.fingerprint() ^ fnv(&log.join(";")));
    if !rig.peer.parse_errors.is_empty() {
        ctx.finding(index, "peer-could-not-parse-zbus-output", "-", "-", json!({"errors": rig.peer.parse_errors}));
    }
    ctx.sample(json!({"registered": rig.registered.iter().map(|((p, i), n)| format!("{} {} #{n}", PATHS[*p], IFACES[*i].name)).collect::<Vec<_>>(), "last_operations": log}));
}

pub fn run(ctx: &mut Ctx) {
    let n = ctx.budget(1200, 40_000);
    if ctx.args.shard == 0 {
        ctx.count("generated_properties", IFACES.iter().map(|i| i.props.len() as u64).sum());
    }
    for i in 0..n {
        if !ctx.want(i) {
            continue;
        }
        let mut rng = ctx.rng(i);
        ctx.guarded(i, "history", || json!({}), |ctx| case(ctx, i, &mut rng));
    }
}
