//! C33 — generated proxies and interfaces agree on the wire.
//!
//! The proxies the interface macro generates (async and blocking) call the
//! generated interfaces over real zbus connections on both ends: joined by two
//! scripted transports under the seeded scheduler (async), or by a socketpair
//! with the library's own executor threads (blocking). Drivers emitted by the
//! generator (engines/gen/gen_ifaces.py) check, per operation: the handler saw
//! exactly the caller's arguments (digest in the invocation log), the caller got
//! the handler's result or error, property reads observe the server's value,
//! property writes change it (or relay the setter's refusal), and a signal
//! emitted by the interface arrives at the proxy's stream with equal arguments.

use super::common::*;
use crate::generated::{bpx_build, bpx_op, px_build, px_op, register, IFACES, PX_OPS, PX_PROP_SEEDS};
use crate::harness::util::GUID;
use serde_json::json;
use vcommon::Ctx;
use vref::prng::{fnv, Rng};
use zbus::proxy::CacheProperties;

/// Served from the start so that the object server's dispatch task is running before the first call arrives (a call
/// that races with an on-demand start of the object server can be lost: a listed finding of C30, not this property's subject).
struct Warm;

#[zbus::interface(name = "t.gen.Warm")]
impl Warm {
    fn ping(&self) -> u32 {
        1
    }
}

fn cache_mode(k: u64) -> (CacheProperties, &'static str) {
    match k % 3 {
        0 => (CacheProperties::Lazily, "lazily"),
        1 => (CacheProperties::Yes, "yes"),
        _ => (CacheProperties::No, "no"),
    }
}

fn report(ctx: &mut Ctx, index: u64, flavour: &str, iface: usize, cache: &str, label: &str, err: &str, history: &[String]) {
    // "class|member|text"
    let mut it = err.splitn(3, '|');
    let class = it.next().unwrap_or("proxy-problem");
    let _member = it.next().unwrap_or("-");
    let text = it.next().unwrap_or("");
    let kind = label.split(':').next().unwrap_or("-");
    ctx.finding(index, class, &format!("{flavour}:{kind}"), &format!("cache-{cache}"), json!({"interface": IFACES[iface].name, "operation": label, "error": text.chars().take(900).collect::<String>(), "history": history}));
}

fn async_case(ctx: &mut Ctx, index: u64, rng: &mut Rng) {
    ctx.count("evaluations", 1);
    ctx.count("class:async-proxy", 1);
    let want_ifaces = 1 + rng.usize_below(3);
    let mut pr = match pair(rng, want_ifaces) {
        Ok(p) => p,
        Err(e) => {
            ctx.finding(index, "harness-or-hang", "-", "setup", json!({"error": e}));
            return;
        }
    };
    let pairs: Vec<((usize, usize), u32)> = pr.registered.iter().map(|(k, v)| (*k, *v)).collect();
    let mut history: Vec<String> = Vec::new();
    // all proxies first, and they stay alive together: operations on one interface (its PropertiesChanged signals in
    // particular) then happen while the caches of the proxies for the OTHER interfaces — possibly at the same path, possibly
    // with a property of the same name — are listening
    struct Live {
        p: usize,
        i: usize,
        inst: u32,
        cache_name: &'static str,
        proxy: std::rc::Rc<crate::generated::AnyProxy>,
        model: std::rc::Rc<std::cell::RefCell<Vec<u64>>>,
    }
    let mut live: Vec<Live> = Vec::new();
    for ((p, i), inst) in pairs {
        if PX_OPS[i].is_empty() {
            continue;
        }
        let (cache, cache_name) = cache_mode(rng.below(3));
        let c = pr.client.clone();
        let built = run_task(&mut pr.sched, async move { px_build(&c, i, PATHS[p], cache).await });
        pr.sched.run_to_quiescence();
        let proxy = match built {
            Some(Ok(p)) => std::rc::Rc::new(p),
            Some(Err(e)) => {
                report(ctx, index, "async", i, cache_name, "build", &e, &history);
                return;
            }
            None => {
                ctx.finding(index, "proxy-operation-pending-at-quiescence", "async:build", &format!("cache-{cache_name}"), json!({"interface": IFACES[i].name, "trace": pr.sched.trace_string()}));
                return;
            }
        };
        let model = std::rc::Rc::new(std::cell::RefCell::new(PX_PROP_SEEDS[i].to_vec()));
        live.push(Live { p, i, inst, cache_name, proxy, model });
    }
    if live.is_empty() {
        return;
    }
    if live.len() > 1 {
        ctx.count("class:several-proxies-alive-together", 1);
        if live.iter().enumerate().any(|(a, x)| live.iter().skip(a + 1).any(|y| x.p == y.p)) {
            ctx.count("class:two-interfaces-proxied-at-one-path", 1);
        }
    }
    let nops = live.len() * (6 + rng.usize_below(if ctx.thorough() { 40 } else { 14 }));
    for _ in 0..nops {
        let l = &live[rng.usize_below(live.len())];
        let (p, i, inst, cache_name) = (l.p, l.i, l.inst, l.cache_name);
        {
            let op = rng.usize_below(PX_OPS[i].len());
            let label = PX_OPS[i][op];
            let seed = rng.next_u64();
            history.push(format!("{} {} {label} seed={seed:x}", IFACES[i].name, PATHS[p]));
            if history.len() > 14 {
                history.remove(0);
            }
            let (px, md) = (l.proxy.clone(), l.model.clone());
            let r = run_task(&mut pr.sched, async move {
                let mut m = md.borrow().clone();
                let r = px_op(&px, op, seed, inst, &mut m).await;
                *md.borrow_mut() = m;
                r
            });
            // caches are updated by background tasks: let them settle before the next operation
            pr.sched.run_to_quiescence();
            ctx.count("operations_checked", 1);
            ctx.count(&format!("class:op-{}", label.split(':').next().unwrap_or("-")), 1);
            match r {
                Some(Ok(())) => {}
                Some(Err(e)) => {
                    report(ctx, index, "async", i, cache_name, label, &e, &history);
                    return;
                }
                None => {
                    ctx.finding(index, "proxy-operation-pending-at-quiescence", &format!("async:{}", label.split(':').next().unwrap_or("-")), &format!("cache-{cache_name}"), json!({"interface": IFACES[i].name, "operation": label, "history": history, "trace": pr.sched.trace_string()}));
                    return;
                }
            }
        }
    }
    ctx.distinct(pr.sched.fingerprint() ^ fnv(&history.join(";")));
    ctx.sample(json!({"flavour": "async", "last_operations": history, "schedule": pr.sched.trace_string().chars().take(80).collect::<String>()}));
}

/// Blocking proxies over a real socketpair, the library's own executor threads on both ends.
fn blocking_case(ctx: &mut Ctx, index: u64, rng: &mut Rng) {
    use std::os::unix::net::UnixStream;
    ctx.count("evaluations", 1);
    ctx.count("class:blocking-proxy", 1);
    let (a, b) = match UnixStream::pair() {
        Ok(x) => x,
        Err(e) => {
            ctx.finding(index, "harness-or-hang", "-", "socketpair", json!({"error": e.to_string()}));
            return;
        }
    };
    let guid = zbus::Guid::try_from(GUID).unwrap();
    let server = std::thread::spawn(move || zbus::blocking::connection::Builder::unix_stream(a).server(guid).unwrap().p2p().serve_at("/warm", Warm).unwrap().build());
    let client = zbus::blocking::connection::Builder::unix_stream(b).p2p().build();
    let server = server.join().unwrap();
    let (server, client) = match (server, client) {
        (Ok(s), Ok(c)) => (s, c),
        (s, c) => {
            ctx.finding(index, "harness-or-hang", "-", "blocking-connect", json!({"server": s.err().map(|e| e.to_string()), "client": c.err().map(|e| e.to_string())}));
            return;
        }
    };
    let mut chosen: Vec<usize> = (0..IFACES.len()).filter(|i| !PX_OPS[*i].is_empty()).collect();
    rng.shuffle(&mut chosen);
    let mut history: Vec<String> = Vec::new();
    for (k, &i) in chosen.iter().take(1 + rng.usize_below(2)).enumerate() {
        let p = rng.usize_below(PATHS.len());
        let inst = 1 + k as u32;
        let sc = server.inner().clone();
        let ok = zbus::block_on(async move { register(sc.object_server(), i, PATHS[p], inst).await });
        if !matches!(ok, Ok(true)) {
            ctx.finding(index, "harness-or-hang", "-", "blocking-register", json!({"result": format!("{ok:?}")}));
            return;
        }
        let (cache, cache_name) = cache_mode(rng.below(3));
        let proxy = match bpx_build(&client, i, PATHS[p], cache) {
            Ok(p) => std::sync::Arc::new(p),
            Err(e) => {
                report(ctx, index, "blocking", i, cache_name, "build", &e, &history);
                return;
            }
        };
        let mut model = PX_PROP_SEEDS[i].to_vec();
        let nops = 6 + rng.usize_below(14);
        for _ in 0..nops {
            let op = rng.usize_below(PX_OPS[i].len());
            let label = PX_OPS[i][op];
            let seed = rng.next_u64();
            history.push(format!("{} {} {label} seed={seed:x}", IFACES[i].name, PATHS[p]));
            if history.len() > 10 {
                history.remove(0);
            }
            // a cached property is refreshed by a background task when PropertiesChanged arrives: a read right after a
            // write through the same proxy may legitimately still see the old value; give the update a moment
            if label.starts_with("get:") && cache_name != "no" {
                std::thread::sleep(std::time::Duration::from_millis(20));
            }
            ctx.count("operations_checked", 1);
            ctx.count(&format!("class:op-{}", label.split(':').next().unwrap_or("-")), 1);
            let (tx, rx) = std::sync::mpsc::channel();
            let (px, mut m2) = (proxy.clone(), model.clone());
            std::thread::spawn(move || {
                let r = bpx_op(&px, op, seed, inst, &mut m2);
                let _ = tx.send((r, m2));
            });
            match rx.recv_timeout(std::time::Duration::from_secs(120)) {
                Ok((Ok(()), m2)) => model = m2,
                Ok((Err(e), _)) => {
                    report(ctx, index, "blocking", i, cache_name, label, &e, &history);
                    return;
                }
                Err(_) => {
                    // wall-clock guard: not a verdict
                    ctx.problem(&format!("blocking proxy operation {label} on {} did not return within 120 s (case {index})", IFACES[i].name));
                    return;
                }
            }
        }
    }
    ctx.distinct(fnv(&history.join(";")));
    ctx.sample(json!({"flavour": "blocking", "last_operations": history}));
}

pub fn run(ctx: &mut Ctx) {
    let n = ctx.budget(1000, 40_000);
    for i in 0..n {
        if !ctx.want(i) {
            continue;
        }
        let mut rng = ctx.rng(i);
        if i % 5 == 4 {
            ctx.guarded(i, "blocking", || json!({}), |ctx| blocking_case(ctx, i, &mut rng));
        } else {
            ctx.guarded(i, "async", || json!({}), |ctx| async_case(ctx, i, &mut rng));
        }
    }
}
