//! Shared by the generated-program monitors: a p2p connection serving generated
//! interfaces over the scripted transport, with a raw reference peer.

use crate::generated::{register, IFACES};
use crate::harness::peer::RawPeer;
use crate::harness::sched::Sched;
use crate::harness::util::*;
use crate::harness::wire::Wire;
use crate::support::IfaceMeta;
use std::collections::BTreeMap;
use vref::prng::Rng;
use vref::val::Val;
use zbus::Connection;

pub const PATHS: &[&str] = &["/g", "/g/a", "/h", "/h/b/c"];

pub struct Rig<'a> {
    pub sched: Sched<'a>,
    pub wire: Wire,
    pub conn: Connection,
    pub peer: RawPeer,
    /// (path index, iface index) -> instance id
    pub registered: BTreeMap<(usize, usize), u32>,
}

pub fn run_task<T: 'static>(sched: &mut Sched<'_>, f: impl std::future::Future<Output = T> + 'static) -> Option<T> {
    let out: Slot<T> = slot();
    let o2 = out.clone();
    let t = sched.spawn("op", async move {
        let v = f.await;
        *o2.borrow_mut() = Some(v);
    });
    sched.run_until_done(t);
    if !sched.is_done(t) {
        sched.cancel(t);
    }
    let v = out.borrow_mut().take();
    v
}

/// A served connection with a random subset of the generated interfaces registered at random paths.
pub fn rig<'a>(rng: &mut Rng, want_ifaces: usize) -> Result<Rig<'a>, String> {
    let wire = Wire::new(rng.next_u64());
    let mut sched = Sched::new(Rng::new(rng.next_u64()));
    let bias = *rng.pick(&[(4u64, 3u64, 2u64), (6, 1, 6), (1, 6, 1), (2, 2, 6), (1, 1, 1)]);
    sched.w_ex = bias.0;
    sched.w_h = bias.1;
    sched.w_net = bias.2;
    let conn = connect_authenticated(&mut sched, &wire)?;
    let w2 = wire.clone();
    sched.add_net(Box::new(move || w2.release_one()));
    let mut registered = BTreeMap::new();
    let mut instance = 0u32;
    let n = want_ifaces.min(IFACES.len());
    let mut chosen: Vec<usize> = (0..IFACES.len()).collect();
    rng.shuffle(&mut chosen);
    for &i in chosen.iter().take(n) {
        let copies = if rng.chance(1, 4) { 2 } else { 1 };
        for _ in 0..copies {
            let p = rng.usize_below(PATHS.len());
            if registered.contains_key(&(p, i)) {
                continue;
            }
            instance += 1;
            let inst = instance;
            let c = conn.clone();
            let ok = run_task(&mut sched, async move { register(c.object_server(), i, PATHS[p], inst).await });
            match ok {
                Some(Ok(true)) => {
                    registered.insert((p, i), inst);
                }
                other => return Err(format!("registration of {} at {} failed: {other:?}", IFACES[i].name, PATHS[p])),
            }
        }
    }
    sched.run_to_quiescence();
    let peer = RawPeer::new(&wire);
    Ok(Rig { sched, wire, conn, peer, registered })
}

pub fn iface(i: usize) -> &'static IfaceMeta {
    &IFACES[i]
}

/// Dict entries sorted, so that values compare independently of map iteration order.
pub fn normalise(v: &Val) -> Val {
    match v {
        Val::V(x) => Val::V(Box::new(normalise(x))),
        Val::A(e, xs) => Val::A(e.clone(), xs.iter().map(normalise).collect()),
        Val::St(fs) => Val::St(fs.iter().map(normalise).collect()),
        Val::Dict(k, vv, es) => {
            let mut es: Vec<(Val, Val)> = es.iter().map(|(a, b)| (normalise(a), normalise(b))).collect();
            es.sort_by_key(|(a, _)| a.show());
            Val::Dict(k.clone(), vv.clone(), es)
        }
        other => other.clone(),
    }
}

pub fn body_eq(a: &[Val], b: &[Val]) -> bool {
    a.len() == b.len() && a.iter().zip(b).all(|(x, y)| normalise(x) == normalise(y))
}

pub fn show_body(b: &[Val]) -> Vec<String> {
    b.iter().map(|v| {
        let s = v.show();
        if s.len() > 300 { format!("{}…", s.chars().take(300).collect::<String>()) } else { s }
    }).collect()
}

// ---- two zbus connections joined by two scripted transports (server <-> client), for the proxy properties

pub struct Pair<'a> {
    pub sched: Sched<'a>,
    pub server: Connection,
    pub client: Connection,
    pub ws: Wire,
    pub wc: Wire,
    pub registered: BTreeMap<(usize, usize), u32>,
}

/// Move what `from` wrote since the last call into `to`'s inbound queue, in chunks of `chunk` bytes (0 = whole writes).
fn pipe(from: &Wire, to: &Wire, chunk: usize) -> bool {
    let mut moved: Vec<Vec<u8>> = Vec::new();
    {
        let mut w = from.lock();
        let start = w.forwarded;
        for r in &w.written[start..] {
            moved.push(r.bytes.clone());
        }
        w.forwarded = w.written.len();
    }
    if moved.is_empty() {
        return false;
    }
    for b in moved {
        let sizes: Vec<usize> = if chunk == 0 { vec![] } else { vec![chunk] };
        to.stage(&b, vec![], &sizes);
    }
    true
}

pub fn pair<'a>(rng: &mut Rng, want_ifaces: usize) -> Result<Pair<'a>, String> {
    let ws = Wire::new(rng.next_u64());
    let wc = Wire::new(rng.next_u64());
    let mut sched = Sched::new(Rng::new(rng.next_u64()));
    let bias = *rng.pick(&[(4u64, 3u64, 2u64), (6, 1, 6), (1, 6, 1), (2, 2, 6), (1, 1, 1)]);
    sched.w_ex = bias.0;
    sched.w_h = bias.1;
    sched.w_net = bias.2;
    let server = connect_authenticated(&mut sched, &ws)?;
    let client = connect_authenticated(&mut sched, &wc)?;
    let chunk_sc = *rng.pick(&[0usize, 0, 1, 7, 64]);
    let chunk_cs = *rng.pick(&[0usize, 0, 1, 7, 64]);
    let (a, b) = (ws.clone(), wc.clone());
    sched.add_net(Box::new(move || pipe(&a, &b, chunk_sc)));
    let (a, b) = (wc.clone(), ws.clone());
    sched.add_net(Box::new(move || pipe(&a, &b, chunk_cs)));
    let a = ws.clone();
    sched.add_net(Box::new(move || a.release_one()));
    let a = wc.clone();
    sched.add_net(Box::new(move || a.release_one()));
    let mut registered = BTreeMap::new();
    let mut instance = 0u32;
    let mut chosen: Vec<usize> = (0..IFACES.len()).collect();
    rng.shuffle(&mut chosen);
    for &i in chosen.iter().take(want_ifaces.min(IFACES.len())) {
        let p = rng.usize_below(PATHS.len());
        instance += 1;
        let inst = instance;
        let c = server.clone();
        match run_task(&mut sched, async move { register(c.object_server(), i, PATHS[p], inst).await }) {
            Some(Ok(true)) => {
                registered.insert((p, i), inst);
            }
            other => return Err(format!("registration failed: {other:?}")),
        }
    }
    sched.run_to_quiescence();
    Ok(Pair { sched, server, client, ws, wc, registered })
}
