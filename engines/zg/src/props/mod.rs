pub mod c26;
pub mod common;
