pub mod c26;
pub mod c27;
pub mod c28;
pub mod c33;
pub mod common;
