//! C27 — introspection data is well-formed and matches the definitions (and,
//! through C26/C28 which compare the wire with the same metadata, the wire).
//!
//! For random registration trees the raw peer calls Introspect at every node;
//! each document must pass the independent strict XML checker, be readable by
//! the library's own XML model, list exactly the node's interfaces and child
//! nodes, and declare for each generated method / signal / property the types,
//! directions, access and annotations of the generator's metadata.

use super::common::*;
use crate::generated::IFACES;
use crate::xmlcheck::{parse_document, Elem};
use serde_json::json;
use std::collections::BTreeSet;
use vcommon::Ctx;
use vref::msg::*;
use vref::prng::{fnv, Rng};
use vref::val::Val;

const STANDARD: &[&str] = &["org.freedesktop.DBus.Peer", "org.freedesktop.DBus.Introspectable", "org.freedesktop.DBus.Properties"];

fn children_of(path: &str, registered: &[&str]) -> BTreeSet<String> {
    let mut out = BTreeSet::new();
    let prefix = if path == "/" { "/".to_string() } else { format!("{path}/") };
    for r in registered {
        if let Some(rest) = r.strip_prefix(&prefix) {
            if let Some(first) = rest.split('/').next() {
                if !first.is_empty() {
                    out.insert(first.to_string());
                }
            }
        }
    }
    out
}

fn check_iface(ctx: &mut Ctx, index: u64, e: &Elem, i: usize, xml: &str) -> bool {
    let im = iface(i);
    let detail = |what: serde_json::Value| json!({"interface": im.name, "info": what, "xml": xml.chars().take(3000).collect::<String>()});
    // methods: the generated ones plus one emitter per signal
    let mut want_methods: Vec<(String, Vec<String>, Vec<String>)> = im.methods.iter().map(|m| (m.name.to_string(), m.ins.iter().map(|s| s.to_string()).collect(), m.outs.iter().map(|s| s.to_string()).collect())).collect();
    for s in im.signals {
        want_methods.push((s.emitter.to_string(), vec!["t".into()], vec!["b".into()]));
    }
    let mut got_methods: Vec<(String, Vec<String>, Vec<String>)> = Vec::new();
    for m in e.kids("method") {
        let name = m.attr("name").unwrap_or("").to_string();
        let mut ins = Vec::new();
        let mut outs = Vec::new();
        for a in m.kids("arg") {
            let t = a.attr("type").unwrap_or("?").to_string();
            match a.attr("direction") {
                Some("out") => outs.push(t),
                Some("in") | None => ins.push(t),
                Some(other) => {
                    ctx.finding(index, "introspection-declares-other-types", "bad-direction", "method", detail(json!({"method": name, "direction": other})));
                    return false;
                }
            }
        }
        got_methods.push((name, ins, outs));
    }
    want_methods.sort();
    got_methods.sort();
    ctx.count("methods_compared", want_methods.len() as u64);
    if want_methods != got_methods {
        let names_w: Vec<&String> = want_methods.iter().map(|m| &m.0).collect();
        let names_g: Vec<&String> = got_methods.iter().map(|m| &m.0).collect();
        let reason = if names_w != names_g { "method-set" } else { "argument-types" };
        let first = want_methods.iter().zip(&got_methods).find(|(a, b)| a != b).map(|(a, b)| json!({"defined": a, "declared": b}));
        ctx.finding(index, "introspection-declares-other-types", reason, "method", detail(json!({"first_difference": first, "defined": want_methods.len(), "declared": got_methods.len()})));
        return false;
    }
    // signals
    let mut want_signals: Vec<(String, Vec<String>)> = im.signals.iter().map(|s| (s.name.to_string(), s.args.iter().map(|a| a.to_string()).collect())).collect();
    let mut got_signals: Vec<(String, Vec<String>)> = e.kids("signal").map(|s| (s.attr("name").unwrap_or("").to_string(), s.kids("arg").map(|a| a.attr("type").unwrap_or("?").to_string()).collect())).collect();
    want_signals.sort();
    got_signals.sort();
    ctx.count("signals_compared", want_signals.len() as u64);
    if want_signals != got_signals {
        ctx.finding(index, "introspection-declares-other-types", "signal", "signal", detail(json!({"defined": want_signals, "declared": got_signals})));
        return false;
    }
    // properties
    let mut want_props: Vec<(String, String, String, String)> = im.props.iter().map(|p| {
        let access = match (p.read, p.write) {
            (true, true) => "readwrite",
            (true, false) => "read",
            _ => "write",
        };
        (p.name.to_string(), p.sig.to_string(), access.to_string(), p.emits.to_string())
    }).collect();
    let mut got_props: Vec<(String, String, String, String)> = e.kids("property").map(|p| {
        let emits = p.kids("annotation").find(|a| a.attr("name") == Some("org.freedesktop.DBus.Property.EmitsChangedSignal")).and_then(|a| a.attr("value")).unwrap_or("true").to_string();
        (p.attr("name").unwrap_or("").to_string(), p.attr("type").unwrap_or("?").to_string(), p.attr("access").unwrap_or("?").to_string(), emits)
    }).collect();
    want_props.sort();
    got_props.sort();
    ctx.count("properties_compared", want_props.len() as u64);
    if want_props != got_props {
        let first = want_props.iter().zip(&got_props).find(|(a, b)| a != b).map(|(a, b)| json!({"defined": a, "declared": b}));
        let reason = match &first {
            Some(_) => {
                let (a, b) = want_props.iter().zip(&got_props).find(|(a, b)| a != b).unwrap();
                if a.0 != b.0 { "property-set" } else if a.1 != b.1 { "property-type" } else if a.2 != b.2 { "property-access" } else { "emits-changed-annotation" }
            }
            None => "property-set",
        };
        ctx.finding(index, "introspection-declares-other-types", reason, "property", detail(json!({"first_difference": first, "defined": want_props.len(), "declared": got_props.len()})));
        return false;
    }
    true
}

fn case(ctx: &mut Ctx, index: u64, rng: &mut Rng) {
    ctx.count("evaluations", 1);
    let want_ifaces = 1 + rng.usize_below(5);
    let mut rig = match rig(rng, want_ifaces) {
        Ok(r) => r,
        Err(e) => {
            ctx.finding(index, "harness-or-hang", "-", "setup", json!({"error": e}));
            return;
        }
    };
    let reg_paths: Vec<&str> = rig.registered.keys().map(|(p, _)| PATHS[*p]).collect();
    // every node of the tree: "/" and every prefix of a registered path
    let mut nodes: BTreeSet<String> = BTreeSet::new();
    nodes.insert("/".into());
    for p in &reg_paths {
        let mut cur = String::new();
        for part in p.split('/').filter(|x| !x.is_empty()) {
            cur.push('/');
            cur.push_str(part);
            nodes.insert(cur.clone());
        }
    }
    for node in &nodes {
        let s = rig.peer.serial();
        let chunks: Vec<usize> = if rng.bool() { vec![] } else { vec![1 + rng.usize_below(48)] };
        rig.peer.send(&Msg::method_call(s, node, Some("org.freedesktop.DBus.Introspectable"), "Introspect"), vec![], &chunks);
        rig.sched.run_to_quiescence();
        let replies = rig.peer.pump();
        let r = match replies.iter().find(|r| r.msg.reply_serial() == Some(s)) {
            Some(r) => r,
            None => {
                ctx.finding(index, "introspect-unanswered", "-", "-", json!({"node": node}));
                return;
            }
        };
        let xml = match (r.msg.mtype, r.msg.body.first()) {
            (METHOD_RETURN, Some(Val::S(x))) => x.clone(),
            _ => {
                ctx.finding(index, "introspect-failed", r.msg.error_name().unwrap_or("?"), "-", json!({"node": node}));
                return;
            }
        };
        ctx.count("documents_checked", 1);
        let here: Vec<usize> = rig.registered.keys().filter(|(p, _)| PATHS[*p] == node).map(|(_, i)| *i).collect();
        let kinds = format!("ifaces={:?}", here.iter().map(|i| IFACES[*i].name).collect::<Vec<_>>());
        // 1. strict well-formedness
        let root = match parse_document(&xml) {
            Ok(r) => r,
            Err(e) => {
                let class = if e.contains("'--' inside a comment") || e.contains("comment") { "comment" } else if e.contains("reference") || e.contains("entity") { "reference" } else { "structure" };
                ctx.finding(index, "introspection-xml-not-well-formed", class, "-", json!({"node": node, "error": e, "interfaces": kinds, "xml": xml.chars().take(2500).collect::<String>()}));
                return;
            }
        };
        // 2. the library's own XML model reads it
        if let Err(e) = zbus_xml::Node::try_from(xml.as_str()) {
            ctx.finding(index, "introspection-xml-rejected-by-zbus_xml", "-", "-", json!({"node": node, "error": e.to_string(), "xml": xml.chars().take(2500).collect::<String>()}));
            return;
        }
        if root.name != "node" {
            ctx.finding(index, "introspection-root-element", &root.name, "-", json!({"node": node}));
            return;
        }
        // 3. exactly the node's interfaces (+ the three every node has)
        let mut want_if: BTreeSet<String> = STANDARD.iter().map(|s| s.to_string()).collect();
        for i in &here {
            want_if.insert(IFACES[*i].name.to_string());
        }
        let got_if: BTreeSet<String> = root.kids("interface").map(|e| e.attr("name").unwrap_or("").to_string()).collect();
        if got_if != want_if || root.kids("interface").count() != got_if.len() {
            ctx.finding(index, "introspection-lists-other-interfaces", if got_if.len() < want_if.len() { "missing" } else { "extra-or-duplicate" }, "-", json!({"node": node, "expected": want_if, "listed": got_if}));
            return;
        }
        // 4. exactly the child nodes
        let want_ch = children_of(node, &reg_paths);
        let got_ch: BTreeSet<String> = root.kids("node").map(|e| e.attr("name").unwrap_or("").to_string()).collect();
        if got_ch != want_ch {
            ctx.finding(index, "introspection-lists-other-children", "-", "-", json!({"node": node, "expected": want_ch, "listed": got_ch}));
            return;
        }
        // 5. declarations of every generated interface
        for i in &here {
            let e = root.kids("interface").find(|e| e.attr("name") == Some(IFACES[*i].name)).unwrap();
            ctx.count("interfaces_compared", 1);
            if !check_iface(ctx, index, e, *i, &xml) {
                return;
            }
        }
    }
    ctx.distinct(rig.sched.fingerprint() ^ fnv(&format!("{:?}", rig.registered)));
    ctx.sample(json!({"registered": rig.registered.iter().map(|((p, i), n)| format!("{} {} #{n}", PATHS[*p], IFACES[*i].name)).collect::<Vec<_>>(), "nodes_introspected": nodes}));
}

pub fn run(ctx: &mut Ctx) {
    let n = ctx.budget(700, 20_000);
    for i in 0..n {
        if !ctx.want(i) {
            continue;
        }
        let mut rng = ctx.rng(i);
        ctx.guarded(i, "tree", || json!({}), |ctx| case(ctx, i, &mut rng));
    }
}
