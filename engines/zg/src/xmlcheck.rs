//! A small strict XML 1.0 well-formedness checker and tree builder, written
//! from the XML recommendation (no dependency on the library under test):
//! prolog (XML declaration, DOCTYPE without internal subset), elements,
//! attributes, character/entity references, comments (`--` is illegal inside,
//! a comment may not end in `--->`), CDATA sections, processing instructions.

#[derive(Debug, Clone, PartialEq)]
pub struct Elem {
    pub name: String,
    pub attrs: Vec<(String, String)>,
    pub children: Vec<Elem>,
    pub text: String,
}

impl Elem {
    pub fn attr(&self, k: &str) -> Option<&str> {
        self.attrs.iter().find(|(a, _)| a == k).map(|(_, v)| v.as_str())
    }
    pub fn kids<'a>(&'a self, name: &'a str) -> impl Iterator<Item = &'a Elem> + 'a {
        self.children.iter().filter(move |c| c.name == name)
    }
}

struct P<'a> {
    s: &'a [u8],
    i: usize,
}

fn is_xml_char(c: char) -> bool {
    matches!(c, '\t' | '\n' | '\r') || (c >= ' ' && c != '\u{fffe}' && c != '\u{ffff}')
}

fn is_name_start(c: u8) -> bool {
    c.is_ascii_alphabetic() || c == b'_' || c == b':' || c >= 0x80
}
fn is_name_char(c: u8) -> bool {
    is_name_start(c) || c.is_ascii_digit() || c == b'-' || c == b'.'
}

impl<'a> P<'a> {
    fn err<T>(&self, m: &str) -> Result<T, String> {
        let from = self.i.saturating_sub(30);
        let to = (self.i + 30).min(self.s.len());
        Err(format!("{m} at byte {} near {:?}", self.i, String::from_utf8_lossy(&self.s[from..to])))
    }
    fn starts(&self, t: &str) -> bool {
        self.s[self.i..].starts_with(t.as_bytes())
    }
    fn ws(&mut self) {
        while self.i < self.s.len() && matches!(self.s[self.i], b' ' | b'\t' | b'\r' | b'\n') {
            self.i += 1;
        }
    }
    fn name(&mut self) -> Result<String, String> {
        let st = self.i;
        if self.i >= self.s.len() || !is_name_start(self.s[self.i]) {
            return self.err("name expected");
        }
        while self.i < self.s.len() && is_name_char(self.s[self.i]) {
            self.i += 1;
        }
        Ok(String::from_utf8_lossy(&self.s[st..self.i]).to_string())
    }
    fn reference(&mut self) -> Result<String, String> {
        // at '&'
        let end = match self.s[self.i..].iter().position(|c| *c == b';') {
            Some(e) => self.i + e,
            None => return self.err("unterminated reference"),
        };
        let body = String::from_utf8_lossy(&self.s[self.i + 1..end]).to_string();
        let out = match body.as_str() {
            "lt" => "<".to_string(),
            "gt" => ">".to_string(),
            "amp" => "&".to_string(),
            "quot" => "\"".to_string(),
            "apos" => "'".to_string(),
            // WFC Legal Character: the referenced character must itself be an XML Char (so `&#0;`, `&#1;`, `&#xFFFE;` are errors)
            b if b.starts_with("#x") => match u32::from_str_radix(&b[2..], 16).ok().and_then(char::from_u32).filter(|c| is_xml_char(*c)) {
                Some(c) if b[2..].bytes().all(|x| x.is_ascii_hexdigit()) => c.to_string(),
                _ => return self.err("bad character reference"),
            },
            b if b.starts_with('#') => match b[1..].parse::<u32>().ok().and_then(char::from_u32).filter(|c| is_xml_char(*c)) {
                Some(c) if b[1..].bytes().all(|x| x.is_ascii_digit()) => c.to_string(),
                _ => return self.err("bad character reference"),
            },
            _ => return self.err("undeclared entity"),
        };
        self.i = end + 1;
        Ok(out)
    }
    fn comment(&mut self) -> Result<(), String> {
        // at "<!--"
        self.i += 4;
        loop {
            if self.i + 1 >= self.s.len() {
                return self.err("unterminated comment");
            }
            if self.s[self.i] == b'-' && self.s[self.i + 1] == b'-' {
                if self.s.get(self.i + 2) == Some(&b'>') {
                    self.i += 3;
                    return Ok(());
                }
                return self.err("'--' inside a comment");
            }
            self.i += 1;
        }
    }
    fn pi(&mut self) -> Result<(), String> {
        // at "<?": PITarget is a Name other than (any case of) "xml"; then "?>" at once, or white space and anything up to "?>"
        self.i += 2;
        let target = self.name()?;
        if target.eq_ignore_ascii_case("xml") {
            return self.err("the XML declaration is allowed only at the very start of the document");
        }
        if self.starts("?>") {
            self.i += 2;
            return Ok(());
        }
        if !matches!(self.s.get(self.i), Some(b' ' | b'\t' | b'\r' | b'\n')) {
            return self.err("white space expected after the processing instruction target");
        }
        match self.s[self.i..].windows(2).position(|w| w == b"?>") {
            Some(e) => {
                self.i += e + 2;
                Ok(())
            }
            None => self.err("unterminated processing instruction"),
        }
    }
    fn need_ws(&mut self) -> Result<(), String> {
        if !matches!(self.s.get(self.i), Some(b' ' | b'\t' | b'\r' | b'\n')) {
            return self.err("white space expected");
        }
        self.ws();
        Ok(())
    }
    /// `Eq quoted-value` of an XML-declaration pseudo-attribute; returns the value.
    fn pseudo_value(&mut self) -> Result<String, String> {
        self.ws();
        if self.s.get(self.i) != Some(&b'=') {
            return self.err("'=' expected");
        }
        self.i += 1;
        self.ws();
        let q = match self.s.get(self.i) {
            Some(b'"') => b'"',
            Some(b'\'') => b'\'',
            _ => return self.err("quoted value expected"),
        };
        self.i += 1;
        let st = self.i;
        while self.i < self.s.len() && self.s[self.i] != q {
            self.i += 1;
        }
        if self.i >= self.s.len() {
            return self.err("unterminated value");
        }
        let v = String::from_utf8_lossy(&self.s[st..self.i]).to_string();
        self.i += 1;
        Ok(v)
    }
    /// XMLDecl ::= '<?xml' VersionInfo EncodingDecl? SDDecl? S? '?>'   (at byte 0 only)
    fn xml_decl(&mut self) -> Result<(), String> {
        self.i += 5;
        self.need_ws()?;
        if !self.starts("version") {
            return self.err("version expected in the XML declaration");
        }
        self.i += 7;
        let v = self.pseudo_value()?;
        let vb = v.as_bytes();
        if !(vb.len() >= 3 && vb.starts_with(b"1.") && vb[2..].iter().all(|c| c.is_ascii_digit())) {
            return self.err("bad version number");
        }
        let mut had_ws = matches!(self.s.get(self.i), Some(b' ' | b'\t' | b'\r' | b'\n'));
        self.ws();
        if self.starts("encoding") {
            if !had_ws {
                return self.err("white space expected before encoding");
            }
            self.i += 8;
            let v = self.pseudo_value()?;
            let vb = v.as_bytes();
            if !(!vb.is_empty() && vb[0].is_ascii_alphabetic() && vb.iter().all(|c| c.is_ascii_alphanumeric() || matches!(c, b'.' | b'_' | b'-'))) {
                return self.err("bad encoding name");
            }
            had_ws = matches!(self.s.get(self.i), Some(b' ' | b'\t' | b'\r' | b'\n'));
            self.ws();
        }
        if self.starts("standalone") {
            if !had_ws {
                return self.err("white space expected before standalone");
            }
            self.i += 10;
            let v = self.pseudo_value()?;
            if v != "yes" && v != "no" {
                return self.err("standalone must be yes or no");
            }
            self.ws();
        }
        if !self.starts("?>") {
            return self.err("'?>' expected at the end of the XML declaration");
        }
        self.i += 2;
        Ok(())
    }
    fn quoted_literal(&mut self, pubid: bool) -> Result<(), String> {
        let q = match self.s.get(self.i) {
            Some(b'"') => b'"',
            Some(b'\'') => b'\'',
            _ => return self.err("quoted literal expected"),
        };
        self.i += 1;
        while self.i < self.s.len() && self.s[self.i] != q {
            let c = self.s[self.i];
            if pubid && !(c.is_ascii_alphanumeric() || b" \r\n-'()+,./:=?;!*#@$_%".contains(&c)) {
                return self.err("character not allowed in a public identifier");
            }
            self.i += 1;
        }
        if self.i >= self.s.len() {
            return self.err("unterminated literal");
        }
        self.i += 1;
        Ok(())
    }
    /// doctypedecl ::= '<!DOCTYPE' S Name (S ExternalID)? S? '>'   (an internal subset is refused: this checker has no DTD support)
    fn doctype(&mut self) -> Result<(), String> {
        self.i += 9;
        self.need_ws()?;
        self.name()?;
        let had_ws = matches!(self.s.get(self.i), Some(b' ' | b'\t' | b'\r' | b'\n'));
        self.ws();
        if self.starts("SYSTEM") || self.starts("PUBLIC") {
            if !had_ws {
                return self.err("white space expected before the external identifier");
            }
            let public = self.starts("PUBLIC");
            self.i += 6;
            self.need_ws()?;
            if public {
                self.quoted_literal(true)?;
                self.need_ws()?;
            }
            self.quoted_literal(false)?;
            self.ws();
        }
        match self.s.get(self.i) {
            Some(b'>') => {
                self.i += 1;
                Ok(())
            }
            Some(b'[') => self.err("DOCTYPE internal subset not supported by this checker"),
            _ => self.err("'>' expected at the end of the DOCTYPE declaration"),
        }
    }
    fn misc(&mut self) -> Result<(), String> {
        loop {
            self.ws();
            if self.starts("<!--") {
                self.comment()?;
            } else if self.starts("<?") {
                self.pi()?;
            } else {
                return Ok(());
            }
        }
    }
    fn attr_value(&mut self) -> Result<String, String> {
        let q = match self.s.get(self.i) {
            Some(b'"') => b'"',
            Some(b'\'') => b'\'',
            _ => return self.err("quoted attribute value expected"),
        };
        self.i += 1;
        let mut out = String::new();
        loop {
            match self.s.get(self.i) {
                None => return self.err("unterminated attribute value"),
                Some(c) if *c == q => {
                    self.i += 1;
                    return Ok(out);
                }
                Some(b'<') => return self.err("'<' in attribute value"),
                Some(b'&') => out.push_str(&self.reference()?),
                Some(_) => {
                    let st = self.i;
                    while self.i < self.s.len() && !matches!(self.s[self.i], b'<' | b'&') && self.s[self.i] != q {
                        self.i += 1;
                    }
                    out.push_str(&String::from_utf8_lossy(&self.s[st..self.i]));
                }
            }
        }
    }
    fn element(&mut self) -> Result<Elem, String> {
        // at '<'
        self.i += 1;
        let name = self.name()?;
        let mut attrs: Vec<(String, String)> = Vec::new();
        loop {
            let before = self.i;
            self.ws();
            if self.starts("/>") {
                self.i += 2;
                return Ok(Elem { name, attrs, children: vec![], text: String::new() });
            }
            if self.starts(">") {
                self.i += 1;
                break;
            }
            if before == self.i {
                return self.err("whitespace expected between attributes");
            }
            let k = self.name()?;
            self.ws();
            if !self.starts("=") {
                return self.err("'=' expected");
            }
            self.i += 1;
            self.ws();
            let v = self.attr_value()?;
            if attrs.iter().any(|(a, _)| *a == k) {
                return self.err("duplicate attribute");
            }
            attrs.push((k, v));
        }
        let mut children = Vec::new();
        let mut text = String::new();
        loop {
            if self.i >= self.s.len() {
                return self.err("unterminated element");
            }
            if self.starts("</") {
                self.i += 2;
                let n = self.name()?;
                if n != name {
                    return self.err("mismatched end tag");
                }
                self.ws();
                if !self.starts(">") {
                    return self.err("'>' expected");
                }
                self.i += 1;
                return Ok(Elem { name, attrs, children, text });
            } else if self.starts("<!--") {
                self.comment()?;
            } else if self.starts("<![CDATA[") {
                match self.s[self.i..].windows(3).position(|w| w == b"]]>") {
                    Some(e) => {
                        text.push_str(&String::from_utf8_lossy(&self.s[self.i + 9..self.i + e]));
                        self.i += e + 3;
                    }
                    None => return self.err("unterminated CDATA"),
                }
            } else if self.starts("<?") {
                self.pi()?;
            } else if self.starts("<") {
                children.push(self.element()?);
            } else if self.starts("&") {
                text.push_str(&self.reference()?);
            } else {
                let st = self.i;
                while self.i < self.s.len() && !matches!(self.s[self.i], b'<' | b'&') {
                    self.i += 1;
                }
                let t = &self.s[st..self.i];
                if t.windows(3).any(|w| w == b"]]>") {
                    return self.err("']]>' in character data");
                }
                text.push_str(&String::from_utf8_lossy(t));
            }
        }
    }
}

/// Parse a whole document; Err carries the first well-formedness violation.
pub fn parse_document(xml: &str) -> Result<Elem, String> {
    for c in xml.chars() {
        if !is_xml_char(c) {
            return Err(format!("character U+{:04X} is not allowed in XML", c as u32));
        }
    }
    let mut p = P { s: xml.as_bytes(), i: 0 };
    if p.starts("<?xml") && matches!(p.s.get(5), Some(b' ' | b'\t' | b'\r' | b'\n')) {
        p.xml_decl()?;
    }
    p.misc()?;
    if p.starts("<!DOCTYPE") {
        p.doctype()?;
        p.misc()?;
    }
    if false {
        // no internal subset expected: up to the closing '>'
        let mut depth = 0;
        loop {
            match p.s.get(p.i) {
                None => return p.err("unterminated DOCTYPE"),
                Some(b'[') => return p.err("DOCTYPE internal subset not supported by this checker"),
                Some(b'<') => depth += 1,
                Some(b'>') => {
                    depth -= 1;
                    if depth == 0 {
                        p.i += 1;
                        break;
                    }
                }
                Some(b'"') => {
                    p.i += 1;
                    while p.i < p.s.len() && p.s[p.i] != b'"' {
                        p.i += 1;
                    }
                }
                _ => {}
            }
            p.i += 1;
        }
        p.misc()?;
    }
    if !p.starts("<") {
        return p.err("root element expected");
    }
    let root = p.element()?;
    p.misc()?;
    if p.i != p.s.len() {
        return p.err("content after the root element");
    }
    Ok(root)
}

#[cfg(test)]
mod tests {
    use super::*;
    #[test]
    fn basics() {
        let d = parse_document("<?xml version=\"1.0\"?>\n<!DOCTYPE node PUBLIC \"-//x//EN\"\n \"http://x/y.dtd\">\n<node a='1'><!-- c --><i name=\"x&amp;y\"/>t</node>\n").unwrap();
        assert_eq!(d.name, "node");
        assert_eq!(d.children[0].attr("name"), Some("x&y"));
        assert!(parse_document("<a><!-- x -- y --></a>").is_err());
        assert!(parse_document("<a><!-- x ---></a>").is_err());
        assert!(parse_document("<a b=\"<\"/>").is_err());
        assert!(parse_document("<a>&nope;</a>").is_err());
        assert!(parse_document("<a></b>").is_err());
        assert!(parse_document("<a/><b/>").is_err());
        assert!(parse_document("<a b='1' b='2'/>").is_err());
        assert!(parse_document("<a b='&#0;'/>").is_err());
        assert!(parse_document("<a>&#x1;</a>").is_err());
        assert!(parse_document("<a>&#x41;&#65;</a>").is_ok());
        assert!(parse_document("<?xml version=\"1.<0\"?><a/>").is_err());
        assert!(parse_document("<?xml version='1.0' encoding='UTF-8' standalone='no' ?><a/>").is_ok());
        assert!(parse_document("<!DOCTYPE a PUBLIC \"-//x&y//EN\" \"u\"><a/>").is_err());
        assert!(parse_document("<a><?xml version='1.0'?></a>").is_err());
    }
}
