//! Engine `zg`: generated interface programs (engines/gen/gen_ifaces.py) served by a real
//! zbus object server over the scripted transport; a raw reference peer calls them and
//! compares every reply, signal and introspection document with the generator's metadata.

#[global_allocator]
static ALLOC: vcommon::alloc::Counting = vcommon::alloc::Counting;

#[path = "../../zb/src/harness/mod.rs"]
#[allow(dead_code)]
mod harness;
#[allow(dead_code)]
mod generated;
#[allow(dead_code)]
mod model;
mod props;
#[allow(dead_code)]
mod support;
#[allow(dead_code)]
mod xmlcheck;

use vcommon::{Args, Ctx};

fn main() {
    let args = Args::parse();
    let prop = args.property.clone();
    let mut ctx = Ctx::new(args);
    match prop.as_str() {
        "C26" => props::c26::run(&mut ctx),
        "C27" => props::c27::run(&mut ctx),
        "C28" => props::c28::run(&mut ctx),
        "C33" => props::c33::run(&mut ctx),
        other => {
            eprintln!("zg: unknown property {other}");
            std::process::exit(3);
        }
    }
    ctx.finish();
}
