//! Typed side of the generated programs: every palette type can be produced
//! from a seed and reduced to a digest, both defined on the D-Bus structure of
//! the value so that the harness can mirror them on reference values (`model.rs`).
//! Handlers are pure functions: outputs = from_seed(digest(inputs) ^ salt).

use serde::{Deserialize, Serialize};
use std::collections::HashMap;
use std::sync::Mutex;
use zvariant::{OwnedObjectPath, OwnedValue, Type, Value};

pub fn mix(a: u64, b: u64) -> u64 {
    let mut z = a ^ b.wrapping_mul(0x9E37_79B9_7F4A_7C15);
    z = (z ^ (z >> 30)).wrapping_mul(0xBF58_476D_1CE4_E5B9);
    z = (z ^ (z >> 27)).wrapping_mul(0x94D0_49BB_1331_11EB);
    z ^ (z >> 31)
}

pub fn fnv_bytes(s: &[u8]) -> u64 {
    let mut h: u64 = 0xcbf29ce484222325;
    for b in s {
        h ^= *b as u64;
        h = h.wrapping_mul(0x100000001b3);
    }
    h
}

pub fn string_from_seed(seed: u64) -> String {
    let mut s = format!("s{:x}", seed % 0xf_ffff);
    if seed % 7 == 0 {
        s.push_str("é✓");
    }
    if seed % 11 == 0 {
        s.clear();
    }
    s
}

pub trait Gen: Sized {
    fn from_seed(seed: u64) -> Self;
    fn digest(&self) -> u64;
}

macro_rules! int_gen {
    ($t:ty, $tag:expr) => {
        impl Gen for $t {
            fn from_seed(seed: u64) -> Self {
                seed as $t
            }
            fn digest(&self) -> u64 {
                mix($tag, *self as i128 as u64)
            }
        }
    };
}
int_gen!(u8, 1);
int_gen!(i16, 3);
int_gen!(u16, 4);
int_gen!(i32, 5);
int_gen!(u32, 6);
int_gen!(i64, 7);
int_gen!(u64, 8);

impl Gen for bool {
    fn from_seed(seed: u64) -> Self {
        seed & 1 == 1
    }
    fn digest(&self) -> u64 {
        mix(2, *self as u64)
    }
}

impl Gen for f64 {
    fn from_seed(seed: u64) -> Self {
        ((seed % 100_000) as f64) / 16.0 - 1000.0
    }
    fn digest(&self) -> u64 {
        mix(9, self.to_bits())
    }
}

impl Gen for String {
    fn from_seed(seed: u64) -> Self {
        string_from_seed(seed)
    }
    fn digest(&self) -> u64 {
        mix(10, fnv_bytes(self.as_bytes()))
    }
}

impl Gen for OwnedObjectPath {
    fn from_seed(seed: u64) -> Self {
        OwnedObjectPath::try_from(format!("/o/p{}", seed % 1000)).unwrap()
    }
    fn digest(&self) -> u64 {
        mix(11, fnv_bytes(self.as_str().as_bytes()))
    }
}

impl<T: Gen> Gen for Vec<T> {
    fn from_seed(seed: u64) -> Self {
        let n = seed % 4;
        (0..n).map(|i| T::from_seed(mix(seed, i + 1))).collect()
    }
    fn digest(&self) -> u64 {
        let mut h = mix(20, self.len() as u64);
        for e in self {
            h = mix(h, e.digest());
        }
        h
    }
}

impl<K: Gen + std::hash::Hash + Eq, V: Gen> Gen for HashMap<K, V> {
    fn from_seed(seed: u64) -> Self {
        let n = seed % 3;
        let mut m = HashMap::new();
        for i in 0..n {
            m.insert(K::from_seed(mix(seed, 2 * i + 1)), V::from_seed(mix(seed, 2 * i + 2)));
        }
        m
    }
    fn digest(&self) -> u64 {
        let mut h = mix(21, self.len() as u64);
        for (k, v) in self {
            h = h.wrapping_add(mix(k.digest(), v.digest()));
        }
        h
    }
}

impl<A: Gen, B: Gen> Gen for (A, B) {
    fn from_seed(seed: u64) -> Self {
        (A::from_seed(mix(seed, 100)), B::from_seed(mix(seed, 101)))
    }
    fn digest(&self) -> u64 {
        mix(mix(mix(22, 2), self.0.digest()), self.1.digest())
    }
}

impl<A: Gen, B: Gen, C: Gen> Gen for (A, B, C) {
    fn from_seed(seed: u64) -> Self {
        (A::from_seed(mix(seed, 100)), B::from_seed(mix(seed, 101)), C::from_seed(mix(seed, 102)))
    }
    fn digest(&self) -> u64 {
        mix(mix(mix(mix(22, 3), self.0.digest()), self.1.digest()), self.2.digest())
    }
}

/// A derived structure: (ii)
#[derive(Debug, Clone, PartialEq, Serialize, Deserialize, Type, Value, OwnedValue)]
pub struct Pt {
    pub x: i32,
    pub y: i32,
}

impl Gen for Pt {
    fn from_seed(seed: u64) -> Self {
        let (x, y) = <(i32, i32)>::from_seed(seed);
        Pt { x, y }
    }
    fn digest(&self) -> u64 {
        (self.x, self.y).digest()
    }
}

/// A derived structure with variable-size fields: (sast)
#[derive(Debug, Clone, PartialEq, Serialize, Deserialize, Type, Value, OwnedValue)]
pub struct Rec {
    pub name: String,
    pub tags: Vec<String>,
    pub n: u64,
}

impl Gen for Rec {
    fn from_seed(seed: u64) -> Self {
        let (name, tags, n) = <(String, Vec<String>, u64)>::from_seed(seed);
        Rec { name, tags, n }
    }
    fn digest(&self) -> u64 {
        (self.name.clone(), self.tags.clone(), self.n).digest()
    }
}

/// Digest of a dynamic value, by its D-Bus structure (the cases the harness sends and the library can decode).
pub fn value_digest(v: &Value<'_>) -> u64 {
    match v {
        Value::U8(x) => x.digest(),
        Value::Bool(x) => x.digest(),
        Value::I16(x) => x.digest(),
        Value::U16(x) => x.digest(),
        Value::I32(x) => x.digest(),
        Value::U32(x) => x.digest(),
        Value::I64(x) => x.digest(),
        Value::U64(x) => x.digest(),
        Value::F64(x) => x.digest(),
        Value::Str(s) => mix(10, fnv_bytes(s.as_bytes())),
        Value::ObjectPath(p) => mix(11, fnv_bytes(p.as_str().as_bytes())),
        Value::Signature(s) => mix(12, fnv_bytes(s.to_string().as_bytes())),
        Value::Value(inner) => mix(23, value_digest(inner)),
        Value::Array(a) => {
            let mut h = mix(20, a.len() as u64);
            for e in a.iter() {
                h = mix(h, value_digest(e));
            }
            h
        }
        Value::Dict(d) => {
            let mut n = 0u64;
            let mut sum = 0u64;
            for (k, v) in d.iter() {
                n += 1;
                sum = sum.wrapping_add(mix(value_digest(k), value_digest(v)));
            }
            mix(21, n).wrapping_add(sum)
        }
        Value::Structure(s) => {
            let mut h = mix(22, s.fields().len() as u64);
            for f in s.fields() {
                h = mix(h, value_digest(f));
            }
            h
        }
        #[allow(unreachable_patterns)]
        _ => 0xdead,
    }
}

impl Gen for OwnedValue {
    fn from_seed(seed: u64) -> Self {
        let v: Value<'static> = match seed % 4 {
            0 => Value::U32(u32::from_seed(mix(seed, 1))),
            1 => Value::from(String::from_seed(mix(seed, 2))),
            2 => Value::from(Vec::<u32>::from_seed(mix(seed, 3))),
            _ => {
                let (a, b) = <(i32, String)>::from_seed(mix(seed, 4));
                Value::from((a, b))
            }
        };
        OwnedValue::try_from(v).unwrap()
    }
    fn digest(&self) -> u64 {
        mix(23, value_digest(self))
    }
}

// ---- invocation log shared by all generated handlers

#[derive(Clone, Debug, PartialEq)]
pub struct Invocation {
    pub iface: usize,
    pub instance: u32,
    pub member: &'static str,
    pub digest: u64,
}

pub static LOG: Mutex<Vec<Invocation>> = Mutex::new(Vec::new());

pub fn log_call(iface: usize, instance: u32, member: &'static str, digest: u64) {
    LOG.lock().unwrap().push(Invocation { iface, instance, member, digest });
}

pub fn take_log() -> Vec<Invocation> {
    std::mem::take(&mut *LOG.lock().unwrap())
}

/// Combine argument digests (order matters).
pub fn args_digest(salt: u64, ds: &[u64]) -> u64 {
    let mut h = mix(salt, ds.len() as u64);
    for d in ds {
        h = mix(h, *d);
    }
    h
}

// ---- metadata the generator emits for the harness

#[derive(Debug, Clone)]
pub struct MethodMeta {
    pub name: &'static str,
    pub ins: &'static [&'static str],
    pub outs: &'static [&'static str],
    /// 0 infallible, 1 fdo::Result (fails with Failed when seed % 4 == 0), 2 custom DBusError (fails when seed % 4 == 0)
    pub fallible: u8,
    pub salt: u64,
    pub mutating: bool,
    pub is_async: bool,
}

#[derive(Debug, Clone)]
pub struct PropMeta {
    pub name: &'static str,
    pub sig: &'static str,
    pub read: bool,
    pub write: bool,
    /// "true" | "invalidates" | "false" | "const"
    pub emits: &'static str,
    /// setter refuses values whose digest % 5 == 0 with InvalidArgs
    pub fallible_setter: bool,
    pub init_seed: u64,
}

#[derive(Debug, Clone)]
pub struct SignalMeta {
    pub name: &'static str,
    pub args: &'static [&'static str],
    /// name of the method (taking one `t` seed) that emits it
    pub emitter: &'static str,
}

#[derive(Debug, Clone)]
pub struct IfaceMeta {
    pub index: usize,
    pub name: &'static str,
    pub methods: &'static [MethodMeta],
    pub props: &'static [PropMeta],
    pub signals: &'static [SignalMeta],
    pub spawn: bool,
}
