//! Engine `zb`: runs zbus (names, messages, match rules, addresses, and the
//! connection core over a scripted transport) under generated workloads with
//! reference-model and history monitors. One process = one shard of one property.

#[global_allocator]
static ALLOC: vcommon::alloc::Counting = vcommon::alloc::Counting;

#[path = "../../zv/src/conv.rs"]
#[allow(dead_code)]
mod conv;
mod harness;
mod msggen;
mod props;

use vcommon::{Args, Ctx};

fn main() {
    let args = Args::parse();
    let prop = args.property.clone();
    let mut ctx = Ctx::new(args);
    match prop.as_str() {
        "C10" => props::c10::run(&mut ctx),
        "C11" => props::c11::run(&mut ctx),
        "C12" => props::c12::run(&mut ctx),
        "C13" => props::c13::run(&mut ctx),
        "C14" => props::c14::run(&mut ctx),
        "C15" => props::c15::run(&mut ctx),
        "C16" => props::c16::run(&mut ctx),
        "C17" => props::c17::run(&mut ctx),
        "C18" => props::c18::run(&mut ctx),
        "C19" => props::c19::run(&mut ctx),
        "C20" => props::c20::run(&mut ctx),
        "C21" => props::c21::run_c21(&mut ctx),
        "C22" => props::c21::run_c22(&mut ctx),
        "C23" => props::c23::run(&mut ctx),
        "C24" => props::c24::run(&mut ctx),
        "C25" => props::c25::run(&mut ctx),
        "C29" => props::c29::run(&mut ctx),
        "C30" => props::c30::run(&mut ctx),
        "C31" => props::c31::run(&mut ctx),
        "C32" => props::c32::run(&mut ctx),
        "C34" => props::c34::run(&mut ctx),
        "C36" => props::c36::run(&mut ctx),
        "C37" => props::c37::run(&mut ctx),
        "C38" => props::c38::run(&mut ctx),
        "C39" => props::c39::run(&mut ctx),
        other => {
            eprintln!("zb: unknown property {other}");
            std::process::exit(3);
        }
    }
    eprintln!("zb: max scheduler steps in one case: {}", harness::sched::MAX_CASE_STEPS.load(std::sync::atomic::Ordering::Relaxed));
    ctx.finish();
}
