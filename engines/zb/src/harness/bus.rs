//! A scripted message bus at the far end of a `Wire`: answers the SASL
//! handshake, `Hello`, `AddMatch`/`RemoveMatch`, `RequestName`/`ReleaseName`,
//! `GetNameOwner`, records everything, and — like a real bus — delivers a
//! broadcast signal only if a currently registered match rule admits it
//! (judged by the reference rule parser and predicate, never by zbus code).
//! Calls to other destinations are left in `inbox` for the test to answer.

use super::sched::Sched;
use super::util::*;
use super::wire::Wire;
use std::cell::RefCell;
use std::collections::BTreeMap;
use std::rc::Rc;
use vref::matchrule::{matches, parse_rule, RefRule};
use vref::msg::*;
use vref::val::Val;
use zbus::Connection;

pub const DRIVER: &str = "org.freedesktop.DBus";
pub const DRIVER_PATH: &str = "/org/freedesktop/DBus";

#[derive(Clone, Debug, PartialEq)]
pub enum BusEvent {
    Hello,
    AddMatch(String),
    AddMatchRefused(String),
    RemoveMatch(String),
    RemoveUnknownMatch(String),
    RequestName(String, u32, u32),
    ReleaseName(String, u32),
    GetNameOwner(String),
    OtherDriverCall(String),
}

#[derive(Clone, Copy, Debug, PartialEq)]
pub enum Held {
    Owner,
    Queued,
}

pub struct FakeBus {
    pub wire: Wire,
    recs_seen: usize,
    buf: Vec<u8>,
    sasl_done: bool,
    pub unique: String,
    pub next_serial: u32,
    pub log: Vec<(u64, BusEvent)>,
    /// match rules currently registered by the connection (a multiset, as on a real bus)
    pub rules: Vec<String>,
    /// well-known name -> unique name of its owner, as the bus sees it
    pub owners: BTreeMap<String, String>,
    /// what the bus holds for the connection under test
    pub held: BTreeMap<String, (Held, u32)>,
    /// calls the bus does not answer by itself (other destinations, or deferred driver calls)
    pub inbox: Vec<Parsed>,
    pub parse_errors: Vec<String>,
    /// read-chunk sizes used for everything the bus sends
    pub chunking: Vec<usize>,
    /// decides the reply code for a RequestName of a name the connection does not hold: (name, flags) -> 1|2|3
    pub name_policy: Box<dyn FnMut(&str, u32) -> u32>,
    /// failure injection: AddMatch for which this returns true is refused with LimitsExceeded
    pub refuse_add_match: Box<dyn FnMut(&str) -> bool>,
    /// GetNameOwner calls are put into `inbox` instead of being answered at once
    pub defer_get_name_owner: bool,
    /// every message delivered to the connection, in order (serial, was it a forced delivery)
    pub delivered: Vec<u32>,
    pub suppressed: Vec<u32>,
}

pub type SharedBus = Rc<RefCell<FakeBus>>;

/// Does `rule` (as registered on the bus) admit message `m`? Well-known sender names are resolved with the bus's owner table.
pub fn bus_rule_admits(rule: &RefRule, m: &Msg, owners: &BTreeMap<String, String>) -> bool {
    let mut r = rule.clone();
    if let Some(s) = r.sender.clone() {
        if !s.starts_with(':') {
            r.sender = None;
            if s == DRIVER {
                if m.sender() != Some(DRIVER) {
                    return false;
                }
            } else {
                match owners.get(&s) {
                    Some(o) if Some(o.as_str()) == m.sender() => {}
                    _ => return false,
                }
            }
        }
    }
    // destinations in rules are unique names; a message's well-known destination is not used by these workloads
    matches(&r, m).unwrap_or(false)
}

impl FakeBus {
    pub fn new(wire: &Wire) -> FakeBus {
        FakeBus {
            wire: wire.clone(),
            recs_seen: 0,
            buf: Vec::new(),
            sasl_done: false,
            unique: ":1.42".into(),
            next_serial: 5000,
            log: Vec::new(),
            rules: Vec::new(),
            owners: BTreeMap::new(),
            held: BTreeMap::new(),
            inbox: Vec::new(),
            parse_errors: Vec::new(),
            chunking: Vec::new(),
            name_policy: Box::new(|_, _| 1),
            refuse_add_match: Box::new(|_| false),
            defer_get_name_owner: false,
            delivered: Vec::new(),
            suppressed: Vec::new(),
        }
    }

    pub fn serial(&mut self) -> u32 {
        self.next_serial += 1;
        self.next_serial
    }

    fn stage(&mut self, bytes: &[u8]) {
        let c = self.chunking.clone();
        self.wire.stage(bytes, vec![], &c);
    }

    /// Send a message to the connection unconditionally (method replies, unicast signals).
    pub fn force_send(&mut self, m: &Msg) {
        self.delivered.push(m.serial);
        let b = m.marshal();
        self.stage(&b);
    }

    /// Route a signal as a bus would: unicast (destination = the connection) always, broadcast only if a registered rule admits it.
    pub fn route_signal(&mut self, m: &Msg) -> bool {
        let deliver = match m.destination() {
            Some(d) => d == self.unique,
            None => self.rules.iter().any(|r| match parse_rule(r) {
                Ok(rr) => bus_rule_admits(&rr, m, &self.owners),
                Err(_) => false,
            }),
        };
        if deliver {
            self.force_send(m);
        } else {
            self.suppressed.push(m.serial);
        }
        deliver
    }

    pub fn reply_ok(&mut self, to: u32, body: Vec<Val>) {
        let s = self.serial();
        let u = self.unique.clone();
        self.force_send(&Msg::method_return(s, to).with_sender(DRIVER).with_destination(&u).with_body(body));
    }

    pub fn reply_err(&mut self, to: u32, name: &str, text: &str) {
        let s = self.serial();
        let u = self.unique.clone();
        self.force_send(&Msg::error(s, to, name).with_sender(DRIVER).with_destination(&u).with_body(vec![Val::S(text.into())]));
    }

    /// A reply from some other peer (`sender`) to a call found in `inbox`.
    pub fn reply_from(&mut self, sender: &str, to: u32, body: Vec<Val>) {
        let s = self.serial();
        let u = self.unique.clone();
        self.force_send(&Msg::method_return(s, to).with_sender(sender).with_destination(&u).with_body(body));
    }

    /// The driver's NameOwnerChanged (updates the owner table first, as the bus does).
    pub fn name_owner_changed(&mut self, name: &str, new_owner: Option<&str>) -> bool {
        let old = self.owners.get(name).cloned().unwrap_or_default();
        match new_owner {
            Some(o) => {
                self.owners.insert(name.to_string(), o.to_string());
            }
            None => {
                self.owners.remove(name);
            }
        }
        let s = self.serial();
        let m = Msg::signal(s, DRIVER_PATH, DRIVER, "NameOwnerChanged").with_sender(DRIVER).with_body(vec![Val::S(name.into()), Val::S(old), Val::S(new_owner.unwrap_or("").into())]);
        self.route_signal(&m)
    }

    /// The driver's unicast NameAcquired / NameLost.
    pub fn name_signal(&mut self, member: &str, name: &str) {
        let s = self.serial();
        let u = self.unique.clone();
        let m = Msg::signal(s, DRIVER_PATH, DRIVER, member).with_sender(DRIVER).with_destination(&u).with_body(vec![Val::S(name.into())]);
        self.force_send(&m);
    }

    fn handle_call(&mut self, p: Parsed) {
        let m = &p.msg;
        let to_driver = m.destination() == Some(DRIVER) && (m.interface() == Some(DRIVER) || m.interface().is_none());
        if !to_driver || m.mtype != METHOD_CALL {
            if m.mtype == METHOD_CALL {
                self.inbox.push(p);
            }
            return;
        }
        let step = super::sched::now();
        let serial = m.serial;
        let noreply = m.flags & 1 != 0;
        let arg_s = |i: usize| -> String {
            match m.body.get(i) {
                Some(Val::S(s)) => s.clone(),
                _ => String::new(),
            }
        };
        match m.member().unwrap_or("") {
            "Hello" => {
                self.log.push((step, BusEvent::Hello));
                let u = self.unique.clone();
                self.reply_ok(serial, vec![Val::S(u)]);
            }
            "AddMatch" => {
                let rule = arg_s(0);
                if parse_rule(&rule).is_err() {
                    self.parse_errors.push(format!("AddMatch with a rule the reference parser rejects: {rule}"));
                }
                if (self.refuse_add_match)(&rule) {
                    self.log.push((step, BusEvent::AddMatchRefused(rule)));
                    if !noreply {
                        self.reply_err(serial, "org.freedesktop.DBus.Error.LimitsExceeded", "too many match rules");
                    }
                } else {
                    self.log.push((step, BusEvent::AddMatch(rule.clone())));
                    self.rules.push(rule);
                    if !noreply {
                        self.reply_ok(serial, vec![]);
                    }
                }
            }
            "RemoveMatch" => {
                let rule = arg_s(0);
                // rules are compared as parsed values, as a bus does
                let want = parse_rule(&rule).ok().map(|r| r.canonical());
                let pos = self.rules.iter().position(|r| *r == rule || (want.is_some() && parse_rule(r).ok().map(|x| x.canonical()) == want));
                match pos {
                    Some(i) => {
                        self.rules.remove(i);
                        self.log.push((step, BusEvent::RemoveMatch(rule)));
                        if !noreply {
                            self.reply_ok(serial, vec![]);
                        }
                    }
                    None => {
                        self.log.push((step, BusEvent::RemoveUnknownMatch(rule)));
                        if !noreply {
                            self.reply_err(serial, "org.freedesktop.DBus.Error.MatchRuleNotFound", "no such rule");
                        }
                    }
                }
            }
            "RequestName" => {
                let name = arg_s(0);
                let flags = match m.body.get(1) {
                    Some(Val::U(f)) => *f,
                    _ => 0,
                };
                let mut grant_behind_reply = false;
                // a repeated request updates the flags the bus remembers for the connection
                if let Some((_, f)) = self.held.get_mut(&name) {
                    *f = flags;
                }
                let code = match self.held.get(&name) {
                    Some((Held::Owner, _)) => 4,
                    Some((Held::Queued, _)) => 2,
                    None => {
                        let c = (self.name_policy)(&name, flags);
                        // 12 = "queued, and the name falls to the connection right behind the reply"
                        if c == 12 {
                            grant_behind_reply = true;
                        }
                        let c = if c == 12 { 2 } else { c };
                        match c {
                            1 => {
                                self.held.insert(name.clone(), (Held::Owner, flags));
                                let u = self.unique.clone();
                                self.owners.insert(name.clone(), u);
                            }
                            2 => {
                                self.held.insert(name.clone(), (Held::Queued, flags));
                            }
                            _ => {}
                        }
                        c
                    }
                };
                self.log.push((step, BusEvent::RequestName(name.clone(), flags, code)));
                // a real bus sends NameAcquired right before the reply when it grants the name
                if code == 1 {
                    self.name_signal("NameAcquired", &name);
                }
                self.reply_ok(serial, vec![Val::U(code)]);
                if grant_behind_reply {
                    self.grant(&name);
                }
            }
            "ReleaseName" => {
                let name = arg_s(0);
                let code = match self.held.remove(&name) {
                    Some((Held::Owner, _)) => {
                        self.owners.remove(&name);
                        1
                    }
                    Some((Held::Queued, _)) => 1,
                    None => {
                        if self.owners.contains_key(&name) {
                            3
                        } else {
                            2
                        }
                    }
                };
                self.log.push((step, BusEvent::ReleaseName(name.clone(), code)));
                self.reply_ok(serial, vec![Val::U(code)]);
            }
            "GetNameOwner" => {
                let name = arg_s(0);
                self.log.push((step, BusEvent::GetNameOwner(name.clone())));
                if self.defer_get_name_owner {
                    self.inbox.push(p);
                } else {
                    self.answer_get_name_owner(serial, &name);
                }
            }
            other => {
                self.log.push((step, BusEvent::OtherDriverCall(other.to_string())));
                self.inbox.push(p);
            }
        }
    }

    /// The queued name falls to the connection: NameAcquired.
    pub fn grant(&mut self, name: &str) -> bool {
        if let Some((h, _)) = self.held.get_mut(name) {
            if *h == Held::Queued {
                *h = Held::Owner;
                let u = self.unique.clone();
                self.owners.insert(name.to_string(), u);
                self.name_signal("NameAcquired", name);
                return true;
            }
        }
        false
    }

    /// Another connection replaces the connection as owner (only possible if it allowed replacement): NameLost; it is queued
    /// unless it asked not to be.
    pub fn take_away(&mut self, name: &str) -> bool {
        if let Some((Held::Owner, flags)) = self.held.get(name).copied() {
            if flags & 1 != 0 {
                if flags & 4 != 0 {
                    self.held.remove(name);
                } else {
                    self.held.insert(name.to_string(), (Held::Queued, flags));
                }
                self.owners.insert(name.to_string(), ":1.77".into());
                self.name_signal("NameLost", name);
                return true;
            }
        }
        false
    }

    pub fn answer_get_name_owner(&mut self, serial: u32, name: &str) {
        match self.owners.get(name).cloned() {
            Some(o) => self.reply_ok(serial, vec![Val::S(o)]),
            None => self.reply_err(serial, "org.freedesktop.DBus.Error.NameHasNoOwner", "no owner"),
        }
    }

    /// NET actor: read what the connection wrote and react. Returns whether anything was consumed.
    pub fn react(&mut self) -> bool {
        let mut progressed = false;
        {
            let w = self.wire.lock();
            for r in &w.written[self.recs_seen..] {
                self.buf.extend_from_slice(&r.bytes);
                progressed = true;
            }
            self.recs_seen = w.written.len();
        }
        if !progressed {
            return false;
        }
        while !self.sasl_done {
            let Some(lf) = self.buf.iter().position(|b| *b == b'\n') else { return true };
            let line: Vec<u8> = self.buf.drain(..=lf).collect();
            let text = String::from_utf8_lossy(&line).trim_matches(|c: char| c == '\0' || c == '\r' || c == '\n' || c == ' ').to_string();
            if text.starts_with("AUTH") {
                self.stage(format!("OK {GUID}\r\n").as_bytes());
            } else if text.starts_with("NEGOTIATE_UNIX_FD") {
                self.stage(b"AGREE_UNIX_FD\r\n");
            } else if text.starts_with("BEGIN") {
                self.sasl_done = true;
            } else {
                self.stage(b"ERROR\r\n");
            }
        }
        loop {
            if self.buf.len() < 16 {
                break;
            }
            let n = match peek_len(&self.buf) {
                Ok(n) => n,
                Err(e) => {
                    self.parse_errors.push(format!("framing: {e}"));
                    self.buf.clear();
                    break;
                }
            };
            if self.buf.len() < n {
                break;
            }
            let bytes: Vec<u8> = self.buf.drain(..n).collect();
            match parse(&bytes, None) {
                Ok(p) => self.handle_call(p),
                Err(e) => self.parse_errors.push(format!("message: {e}")),
            }
        }
        true
    }

    /// (added, not yet removed) as a sorted multiset of canonical rule strings.
    pub fn registered(&self) -> Vec<String> {
        let mut v: Vec<String> = self.rules.iter().map(|r| parse_rule(r).map(|x| x.canonical().to_rule_string()).unwrap_or_else(|_| r.clone())).collect();
        v.sort();
        v
    }
}

/// Build a bus connection (full client handshake and Hello against the fake bus) under the scheduler.
pub fn connect_bus(sched: &mut Sched<'_>, wire: &Wire, bus: &SharedBus) -> Result<Connection, String> {
    let out: Slot<zbus::Result<Connection>> = slot();
    let o2 = out.clone();
    let sock = wire.socket();
    let t = sched.spawn("build", async move {
        let r = zbus::connection::Builder::socket(sock).internal_executor(false).build().await;
        *o2.borrow_mut() = Some(r);
    });
    let w2 = wire.clone();
    sched.add_net(Box::new(move || w2.release_one()));
    let b2 = bus.clone();
    sched.add_net(Box::new(move || b2.borrow_mut().react()));
    let w3 = wire.clone();
    sched.add_net(Box::new(move || w3.unblock_write()));
    if !sched.run_until_done(t) {
        return Err("bus connection build did not complete".into());
    }
    let r = out.borrow_mut().take().unwrap();
    match r {
        Ok(c) => {
            sched.add_executor(c.executor().clone());
            Ok(c)
        }
        Err(e) => Err(format!("build error: {e}")),
    }
}
