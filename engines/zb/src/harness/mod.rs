//! Deterministic harness for the zbus connection core: a scripted transport
//! (`wire`), a seeded cooperative scheduler that owns every source of
//! nondeterminism (`sched`), and scripted peers speaking the reference codec
//! (`peer`).

pub mod bus;
pub mod peer;
#[cfg(not(miri))]
pub mod realbus;
pub mod realsock;
pub mod sched;
pub mod util;
pub mod wire;
