//! Scripted peers speaking the reference codec.
