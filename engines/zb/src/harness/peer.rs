//! Scripted peers speaking the reference codec (never the code under test).

use super::wire::Wire;
use std::os::fd::OwnedFd;
use vref::msg::{parse, peek_len, Msg, Parsed};

/// The far end of a `Wire`: parses what zbus wrote (reference framing and
/// parser) and stages reference-marshalled messages for zbus to read.
pub struct RawPeer {
    pub wire: Wire,
    /// how many captured write records have been consumed
    recs_seen: usize,
    buf: Vec<u8>,
    /// absolute stream offset of buf[0]
    pub stream_pos: usize,
    pub next_serial: u32,
    pub received: Vec<Parsed>,
    pub parse_errors: Vec<String>,
    /// total bytes staged towards zbus so far (inbound stream offset of the next message)
    pub staged_bytes: usize,
}

impl RawPeer {
    pub fn new(wire: &Wire) -> RawPeer {
        RawPeer { wire: wire.clone(), recs_seen: 0, buf: Vec::new(), stream_pos: 0, next_serial: 1000, received: Vec::new(), parse_errors: Vec::new(), staged_bytes: 0 }
    }

    /// Parse whatever complete messages zbus has written since the last call.
    pub fn pump(&mut self) -> Vec<Parsed> {
        {
            let w = self.wire.lock();
            for r in &w.written[self.recs_seen..] {
                self.buf.extend_from_slice(&r.bytes);
            }
            self.recs_seen = w.written.len();
        }
        let mut out = Vec::new();
        loop {
            if self.buf.len() < 16 {
                break;
            }
            let n = match peek_len(&self.buf) {
                Ok(n) => n,
                Err(e) => {
                    self.parse_errors.push(format!("framing: {e}"));
                    self.buf.clear();
                    break;
                }
            };
            if self.buf.len() < n {
                break;
            }
            let bytes: Vec<u8> = self.buf.drain(..n).collect();
            self.stream_pos += n;
            match parse(&bytes, None) {
                Ok(p) => {
                    self.received.push(p.clone());
                    out.push(p);
                }
                Err(e) => self.parse_errors.push(format!("message: {e}")),
            }
        }
        out
    }

    pub fn serial(&mut self) -> u32 {
        self.next_serial += 1;
        self.next_serial
    }

    /// Stage a message for zbus (delivered when NET releases it).
    pub fn send(&mut self, m: &Msg, fds: Vec<OwnedFd>, chunk_sizes: &[usize]) -> usize {
        let bytes = m.marshal();
        self.wire.stage(&bytes, fds, chunk_sizes);
        self.staged_bytes += bytes.len();
        self.staged_bytes
    }
}
