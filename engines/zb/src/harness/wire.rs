//! Scripted transport implementing zbus's public `Socket`/`ReadHalf`/`WriteHalf`
//! traits. Bytes towards zbus are staged by the test and released chunk by
//! chunk by the scheduler's NET actor; bytes written by zbus are captured call
//! by call under a plan of partial writes and stalls.

use std::collections::VecDeque;
use std::io;
use std::os::fd::{AsFd, BorrowedFd, OwnedFd};
use std::sync::{Arc, Mutex};
use std::task::{Poll, Waker};
use vref::prng::Rng;
use zbus::conn::AuthMechanism;
use zbus::connection::socket::{ReadHalf, Socket, Split, WriteHalf};
use zbus::fdo::ConnectionCredentials;

pub struct Chunk {
    pub bytes: Vec<u8>,
    pub fds: Vec<OwnedFd>,
    /// offset (within `bytes`) of the first byte of the message the fds travel with: as in the kernel, they are handed to the
    /// read that consumes that byte, not to an earlier short read of the same chunk
    pub fd_offset: usize,
}

#[derive(Clone, Debug)]
pub struct WriteRec {
    pub bytes: Vec<u8>,
    /// (dev, ino) of the fds passed in this sendmsg call
    pub fds: Vec<(u64, u64)>,
    /// logical time (scheduler step) of the call
    pub step: u64,
    /// the call was stalled (Pending) before being accepted
    pub stalled: bool,
}

pub fn dev_ino(fd: BorrowedFd<'_>) -> (u64, u64) {
    use std::os::unix::fs::MetadataExt;
    let f = std::fs::File::from(fd.try_clone_to_owned().expect("dup"));
    let m = f.metadata().expect("fstat");
    (m.dev(), m.ino())
}

pub struct WireState {
    // ---- inbound (towards zbus)
    pub staged: VecDeque<Chunk>,
    pub avail: VecDeque<Chunk>,
    /// after everything staged has been consumed, recvmsg returns 0 (EOF)
    pub eof_at_end: bool,
    /// after everything available has been consumed, recvmsg fails with this
    pub read_error: Option<io::ErrorKind>,
    /// fault injection: after this many inbound bytes have been delivered the transport fails
    /// (reads then see `read_error` or EOF, writes BrokenPipe)
    pub read_limit: Option<usize>,
    pub read_waker: Option<Waker>,
    pub recv_calls: u64,
    /// livelock monitor: number of recvmsg calls that were answered with EOF / a fatal error within one scheduler step
    pub dead_reads_in_step: u64,
    pub dead_reads_step: u64,
    pub recv_pending: u64,
    pub bytes_delivered: usize,
    /// (total bytes delivered so far, logical time) after each successful recvmsg
    pub delivered_at: Vec<(usize, u64)>,
    pub max_recv_request: usize,
    // ---- outbound (from zbus)
    pub written: Vec<WriteRec>,
    /// fds of written messages, duplicated so they can be forwarded to a peer
    pub written_fds: Vec<Vec<OwnedFd>>,
    pub forwarded: usize,
    pub wrng: Rng,
    pub max_write: usize,
    pub stall_pct: u64,
    pub stalled: bool,
    pub stall_decided: bool,
    pub write_waker: Option<Waker>,
    pub write_calls: u64,
    pub write_stalls: u64,
    pub write_error_at_call: Option<(u64, io::ErrorKind)>,
    pub write_closed: bool,
    pub write_dropped: bool,
    pub read_dropped: bool,
    /// the transport has failed (both directions): reads see EOF, writes BrokenPipe
    pub failed: bool,
    // ---- configuration
    pub uid: Option<u32>,
    pub can_fd: bool,
    pub mech: AuthMechanism,
}

#[derive(Clone)]
pub struct Wire(pub Arc<Mutex<WireState>>);

impl Wire {
    pub fn new(seed: u64) -> Wire {
        Wire(Arc::new(Mutex::new(WireState {
            staged: VecDeque::new(),
            avail: VecDeque::new(),
            eof_at_end: false,
            read_error: None,
            read_limit: None,
            read_waker: None,
            recv_calls: 0,
            dead_reads_in_step: 0,
            dead_reads_step: 0,
            recv_pending: 0,
            bytes_delivered: 0,
            delivered_at: Vec::new(),
            max_recv_request: 0,
            written: Vec::new(),
            written_fds: Vec::new(),
            forwarded: 0,
            wrng: Rng::new(seed ^ 0x5157),
            max_write: usize::MAX,
            stall_pct: 0,
            stalled: false,
            stall_decided: false,
            write_waker: None,
            write_calls: 0,
            write_stalls: 0,
            write_error_at_call: None,
            write_closed: false,
            write_dropped: false,
            read_dropped: false,
            failed: false,
            uid: Some(1000),
            can_fd: true,
            mech: AuthMechanism::External,
        })))
    }

    pub fn lock(&self) -> std::sync::MutexGuard<'_, WireState> {
        self.0.lock().unwrap()
    }

    pub fn socket(&self) -> ScriptSocket {
        ScriptSocket { wire: self.clone() }
    }

    /// Stage bytes (split according to `cuts`, sizes cycling) for delivery.
    pub fn stage(&self, bytes: &[u8], fds: Vec<OwnedFd>, chunk_sizes: &[usize]) {
        let mut w = self.lock();
        let mut pos = 0;
        let mut fds = Some(fds);
        let mut k = 0;
        if bytes.is_empty() {
            return;
        }
        while pos < bytes.len() {
            let sz = if chunk_sizes.is_empty() { bytes.len() } else { chunk_sizes[k % chunk_sizes.len()].max(1) };
            k += 1;
            let end = (pos + sz).min(bytes.len());
            w.staged.push_back(Chunk { bytes: bytes[pos..end].to_vec(), fds: fds.take().unwrap_or_default(), fd_offset: 0 });
            pos = end;
        }
    }

    /// NET: release the next staged chunk to the reader. Returns whether anything happened.
    pub fn release_one(&self) -> bool {
        let mut w = self.lock();
        if let Some(c) = w.staged.pop_front() {
            w.avail.push_back(c);
            if let Some(wk) = w.read_waker.take() {
                wk.wake();
            }
            return true;
        }
        false
    }

    /// Monotone measure of transport I/O (bytes handed to the reader + write calls made), for `Sched::run_to_quiescence_while`.
    pub fn io_progress(&self) -> u64 {
        let w = self.lock();
        w.bytes_delivered as u64 + w.write_calls
    }

    /// NET: let a stalled writer proceed.
    pub fn unblock_write(&self) -> bool {
        let mut w = self.lock();
        if w.stalled {
            w.stalled = false;
            if let Some(wk) = w.write_waker.take() {
                wk.wake();
            }
            return true;
        }
        false
    }

    /// Wake a reader that is waiting for data so that it notices EOF / errors set meanwhile.
    pub fn wake_reader(&self) {
        let mut w = self.lock();
        if let Some(wk) = w.read_waker.take() {
            wk.wake();
        }
    }

    pub fn set_eof(&self) {
        self.lock().eof_at_end = true;
        self.wake_reader();
    }

    /// The transport fails now, in both directions.
    pub fn fail(&self, read_kind: Option<io::ErrorKind>) {
        {
            let mut w = self.lock();
            w.failed = true;
            w.staged.clear();
            w.avail.clear();
            w.read_error = read_kind;
            w.eof_at_end = true;
            w.stalled = false;
            if let Some(wk) = w.write_waker.take() {
                wk.wake();
            }
        }
        self.wake_reader();
    }

    pub fn pending_inbound(&self) -> bool {
        let w = self.lock();
        !w.staged.is_empty()
    }

    pub fn all_written(&self) -> Vec<u8> {
        let w = self.lock();
        let mut v = Vec::new();
        for r in &w.written {
            v.extend_from_slice(&r.bytes);
        }
        v
    }

    /// Peer-visible closing: the write half was closed or dropped.
    pub fn peer_sees_eof(&self) -> bool {
        let w = self.lock();
        w.write_closed || w.write_dropped
    }
}

#[derive(Debug)]
pub struct ScriptSocket {
    wire: Wire,
}

impl std::fmt::Debug for Wire {
    fn fmt(&self, f: &mut std::fmt::Formatter<'_>) -> std::fmt::Result {
        f.write_str("Wire")
    }
}

impl Socket for ScriptSocket {
    type ReadHalf = ScriptRead;
    type WriteHalf = ScriptWrite;

    fn split(self) -> Split<Self::ReadHalf, Self::WriteHalf> {
        Split::new(ScriptRead { wire: self.wire.clone() }, ScriptWrite { wire: self.wire })
    }
}

#[derive(Debug)]
pub struct ScriptRead {
    wire: Wire,
}

#[derive(Debug)]
pub struct ScriptWrite {
    wire: Wire,
}

impl Drop for ScriptRead {
    fn drop(&mut self) {
        self.wire.lock().read_dropped = true;
    }
}

impl Drop for ScriptWrite {
    fn drop(&mut self) {
        self.wire.lock().write_dropped = true;
    }
}

fn creds(uid: Option<u32>) -> ConnectionCredentials {
    let c = ConnectionCredentials::default();
    match uid {
        Some(u) => c.set_unix_user_id(u),
        None => c,
    }
}

#[async_trait::async_trait]
impl ReadHalf for ScriptRead {
    async fn recvmsg(&mut self, buf: &mut [u8]) -> io::Result<(usize, Vec<OwnedFd>)> {
        let wire = self.wire.clone();
        let mut counted = false;
        std::future::poll_fn(move |cx| {
            let mut w = wire.lock();
            if !counted {
                w.recv_calls += 1;
                w.max_recv_request = w.max_recv_request.max(buf.len());
                counted = true;
                // Livelock monitor: once the transport has reported EOF or a fatal error, a reader that keeps calling
                // recvmsg without ever suspending can make no progress. 100 000 such calls inside ONE scheduler step
                // (one poll of one task) is reported by unwinding out of the poll; `Ctx::guarded` turns the marker into
                // a finding instead of letting the process spin until the wall-clock watchdog.
                let dead = w.failed || (w.eof_at_end && w.staged.is_empty() && w.avail.is_empty()) || w.read_limit.map_or(false, |l| w.bytes_delivered >= l);
                if dead {
                    let now = super::sched::now();
                    if w.dead_reads_step != now {
                        w.dead_reads_step = now;
                        w.dead_reads_in_step = 0;
                    }
                    w.dead_reads_in_step += 1;
                    if w.dead_reads_in_step > 100_000 {
                        w.dead_reads_in_step = 0;
                        drop(w);
                        panic!("VERIF-MONITOR:reader-livelock-after-transport-end:recvmsg called 100000 times within one task poll after the transport reported EOF or an error");
                    }
                }
            }
            if let Some(limit) = w.read_limit {
                if w.bytes_delivered >= limit {
                    // the injected fault: the transport is gone in both directions
                    w.failed = true;
                    w.stalled = false;
                    if let Some(wk) = w.write_waker.take() {
                        wk.wake();
                    }
                    return match w.read_error {
                        Some(k) => Poll::Ready(Err(io::Error::new(k, "injected read fault"))),
                        None => Poll::Ready(Ok((0, vec![]))),
                    };
                }
            }
            let limit_left = w.read_limit.map(|l| l - w.bytes_delivered);
            if let Some(front) = w.avail.front_mut() {
                let mut n = front.bytes.len().min(buf.len());
                if let Some(l) = limit_left {
                    n = n.min(l);
                }
                buf[..n].copy_from_slice(&front.bytes[..n]);
                front.bytes.drain(..n);
                let fds = if front.fd_offset < n {
                    front.fd_offset = 0;
                    std::mem::take(&mut front.fds)
                } else {
                    front.fd_offset -= n;
                    vec![]
                };
                if front.bytes.is_empty() {
                    w.avail.pop_front();
                }
                w.bytes_delivered += n;
                let bd = w.bytes_delivered;
                w.delivered_at.push((bd, super::sched::now()));
                return Poll::Ready(Ok((n, fds)));
            }
            if w.staged.is_empty() {
                if let (Some(k), None) = (w.read_error, w.read_limit) {
                    return Poll::Ready(Err(io::Error::new(k, "scripted read error")));
                }
                if let (Some(k), true) = (w.read_error, w.failed) {
                    return Poll::Ready(Err(io::Error::new(k, "scripted read error")));
                }
                if w.eof_at_end || w.failed {
                    return Poll::Ready(Ok((0, vec![])));
                }
            }
            w.recv_pending += 1;
            w.read_waker = Some(cx.waker().clone());
            Poll::Pending
        })
        .await
    }

    fn can_pass_unix_fd(&self) -> bool {
        self.wire.lock().can_fd
    }

    async fn peer_credentials(&mut self) -> io::Result<ConnectionCredentials> {
        Ok(creds(self.wire.lock().uid))
    }

    fn auth_mechanism(&self) -> AuthMechanism {
        self.wire.lock().mech
    }
}

#[async_trait::async_trait]
impl WriteHalf for ScriptWrite {
    async fn sendmsg(&mut self, buffer: &[u8], fds: &[BorrowedFd<'_>]) -> io::Result<usize> {
        let wire = self.wire.clone();
        let fd_ids: Vec<(u64, u64)> = fds.iter().map(|f| dev_ino(*f)).collect();
        let dups: Vec<OwnedFd> = fds.iter().map(|f| f.as_fd().try_clone_to_owned().expect("dup")).collect();
        let mut dups = Some(dups);
        let mut first = true;
        let mut stalled_this_call = false;
        std::future::poll_fn(move |cx| {
            let mut w = wire.lock();
            if first {
                first = false;
                w.write_calls += 1;
                let call = w.write_calls;
                if let Some((at, kind)) = w.write_error_at_call {
                    if call >= at {
                        w.failed = true;
                        w.eof_at_end = true;
                        if let Some(wk) = w.read_waker.take() {
                            wk.wake();
                        }
                        return Poll::Ready(Err(io::Error::new(kind, "scripted write error")));
                    }
                }
                let pct = w.stall_pct;
                if pct > 0 && w.wrng.chance(pct, 100) {
                    w.stalled = true;
                    w.write_stalls += 1;
                    stalled_this_call = true;
                }
            }
            if w.failed || w.write_closed {
                return Poll::Ready(Err(io::Error::new(io::ErrorKind::BrokenPipe, "transport failed")));
            }
            if w.stalled {
                w.write_waker = Some(cx.waker().clone());
                return Poll::Pending;
            }
            let cap = w.max_write.min(buffer.len()).max(1);
            let n = if cap >= buffer.len() && w.max_write == usize::MAX { buffer.len() } else { 1 + w.wrng.usize_below(cap) };
            let n = n.min(buffer.len());
            let was_stalled = stalled_this_call;
            w.written.push(WriteRec { bytes: buffer[..n].to_vec(), fds: fd_ids.clone(), step: super::sched::now(), stalled: was_stalled });
            w.written_fds.push(dups.take().unwrap_or_default());
            Poll::Ready(Ok(n))
        })
        .await
    }

    async fn close(&mut self) -> io::Result<()> {
        self.wire.lock().write_closed = true;
        Ok(())
    }

    fn can_pass_unix_fd(&self) -> bool {
        self.wire.lock().can_fd
    }

    async fn peer_credentials(&mut self) -> io::Result<ConnectionCredentials> {
        Ok(creds(self.wire.lock().uid))
    }
}
