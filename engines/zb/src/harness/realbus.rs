//! A private `dbus-daemon` (the reference message bus found in the image) for the workloads that put the
//! library on a REAL bus: ground truth about names and match rules is then what the daemon itself reports
//! (`ListQueuedOwners`, `GetNameOwner`, `org.freedesktop.DBus.Debug.Stats.GetAllMatchRules`), asked over an
//! observer connection that takes no part in the history.
//!
//! The daemon is started per workload, on a unix socket in a private directory, and dies with the shard
//! (PR_SET_PDEATHSIG) even if the shard is killed.

use std::collections::HashMap;
use std::io::{BufRead, BufReader};
use std::os::unix::process::CommandExt;
use std::path::PathBuf;
use std::process::{Child, Command, Stdio};
use std::time::{Duration, Instant};

pub struct Daemon {
    child: Child,
    dir: PathBuf,
    pub address: String,
}

impl Daemon {
    /// `Err` means the environment cannot host the workload (no binary, cannot bind): INCONCLUSIVE material, never a finding.
    pub fn start(tag: &str) -> Result<Daemon, String> {
        let dir = std::env::temp_dir().join(format!("zbverif-bus-{}-{tag}", std::process::id()));
        let _ = std::fs::remove_dir_all(&dir);
        std::fs::create_dir_all(&dir).map_err(|e| format!("cannot create {dir:?}: {e}"))?;
        let sock = dir.join("bus");
        let mut cmd = Command::new("dbus-daemon");
        cmd.arg("--session").arg("--nofork").arg("--print-address=1").arg(format!("--address=unix:path={}", sock.display()));
        cmd.stdin(Stdio::null()).stdout(Stdio::piped()).stderr(Stdio::null());
        unsafe {
            cmd.pre_exec(|| {
                libc::prctl(libc::PR_SET_PDEATHSIG, libc::SIGKILL);
                Ok(())
            });
        }
        let mut child = cmd.spawn().map_err(|e| format!("cannot start dbus-daemon: {e}"))?;
        let out = child.stdout.take().ok_or("no stdout")?;
        let (tx, rx) = std::sync::mpsc::channel();
        std::thread::spawn(move || {
            let mut line = String::new();
            let _ = BufReader::new(out).read_line(&mut line);
            let _ = tx.send(line);
        });
        let line = rx.recv_timeout(Duration::from_secs(30)).map_err(|_| "dbus-daemon printed no address within 30 s".to_string())?;
        let address = line.trim().to_string();
        if !address.starts_with("unix:") {
            let _ = child.kill();
            return Err(format!("dbus-daemon printed {address:?} instead of an address"));
        }
        Ok(Daemon { child, dir, address })
    }

    pub fn connect(&self) -> Result<zbus::blocking::Connection, String> {
        zbus::blocking::connection::Builder::address(self.address.as_str()).and_then(|b| b.build()).map_err(|e| format!("cannot connect to the private bus: {e}"))
    }
}

impl Drop for Daemon {
    fn drop(&mut self) {
        let _ = self.child.kill();
        let _ = self.child.wait();
        let _ = std::fs::remove_dir_all(&self.dir);
    }
}

const BUS: &str = "org.freedesktop.DBus";
const BUS_PATH: &str = "/org/freedesktop/DBus";

/// What the daemon holds for one name: the owner first, then the queue.
pub fn queued_owners(observer: &zbus::blocking::Connection, name: &str) -> Result<Vec<String>, String> {
    match observer.call_method(Some(BUS), BUS_PATH, Some(BUS), "ListQueuedOwners", &(name,)) {
        Ok(m) => m.body().deserialize::<Vec<String>>().map_err(|e| format!("ListQueuedOwners body: {e}")),
        Err(zbus::Error::MethodError(n, _, _)) if n.as_str() == "org.freedesktop.DBus.Error.NameHasNoOwner" => Ok(vec![]),
        Err(e) => Err(format!("ListQueuedOwners: {e}")),
    }
}

/// The match rules the daemon holds per connection (its own textual form of each rule).
pub fn all_match_rules(observer: &zbus::blocking::Connection) -> Result<HashMap<String, Vec<String>>, String> {
    let m = observer
        .call_method(Some(BUS), BUS_PATH, Some("org.freedesktop.DBus.Debug.Stats"), "GetAllMatchRules", &())
        .map_err(|e| format!("GetAllMatchRules: {e}"))?;
    m.body().deserialize::<HashMap<String, Vec<String>>>().map_err(|e| format!("GetAllMatchRules body: {e}"))
}

/// A round trip to the daemon on `conn`: everything the daemon sent to `conn` before the reply is in its socket.
pub fn ping(conn: &zbus::blocking::Connection) -> Result<(), String> {
    conn.call_method(Some(BUS), BUS_PATH, Some(BUS), "GetId", &()).map(|_| ()).map_err(|e| format!("GetId: {e}"))
}

/// Poll `probe` until it returns `Some`, for at most `limit`.
pub fn poll_until<T>(limit: Duration, mut probe: impl FnMut() -> Option<T>) -> Option<T> {
    let start = Instant::now();
    let mut pause = Duration::from_millis(2);
    loop {
        if let Some(v) = probe() {
            return Some(v);
        }
        if start.elapsed() > limit {
            return None;
        }
        std::thread::sleep(pause);
        pause = (pause * 2).min(Duration::from_millis(100));
    }
}
