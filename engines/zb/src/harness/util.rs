//! Small helpers shared by the scheduler-based property monitors.

use super::sched::Sched;
use super::wire::Wire;
use std::cell::RefCell;
use std::rc::Rc;
use zbus::connection::Builder;
use zbus::{Connection, Guid};

pub const GUID: &str = "0123456789abcdef0123456789abcdef";

pub type Slot<T> = Rc<RefCell<Option<T>>>;

pub fn slot<T>() -> Slot<T> {
    Rc::new(RefCell::new(None))
}

/// Build a p2p connection over an already-authenticated scripted socket,
/// driving the build future under the scheduler (no NET actor needed).
pub fn connect_authenticated(sched: &mut Sched<'_>, wire: &Wire) -> Result<Connection, String> {
    let out: Slot<zbus::Result<Connection>> = slot();
    let o2 = out.clone();
    let sock = wire.socket();
    let t = sched.spawn("build", async move {
        let r = async {
            Builder::authenticated_socket(sock, Guid::try_from(GUID).unwrap())?
                .p2p()
                .internal_executor(false)
                .build()
                .await
        }
        .await;
        *o2.borrow_mut() = Some(r);
    });
    if !sched.run_until_done(t) {
        return Err("connection build did not complete".into());
    }
    let r = out.borrow_mut().take().unwrap();
    match r {
        Ok(c) => {
            sched.add_executor(c.executor().clone());
            Ok(c)
        }
        Err(e) => Err(format!("build error: {e}")),
    }
}
