//! Real `AF_UNIX` socketpairs for the workloads that must cross the library's
//! libc `sendmsg`/`recvmsg` code (ancillary data, partial writes): a raw peer
//! speaking SASL and the reference codec on one end, the library on the other.
//! These are the workloads the ASan / TSan / valgrind layers run.

use std::io::{self, Read, Write};
use std::os::fd::{AsRawFd, FromRawFd, OwnedFd, RawFd};
use std::os::unix::net::UnixStream;

use super::util::GUID;

/// Answer the client-side SASL handshake the library performs (EXTERNAL, optional fd negotiation) until BEGIN.
/// Returns whether fd passing was agreed, and any bytes that followed BEGIN in the same read.
pub fn raw_server_handshake(sock: &mut UnixStream, agree_fds: bool) -> io::Result<(bool, Vec<u8>)> {
    raw_server_handshake_with(sock, agree_fds, GUID)
}

/// The same, answering AUTH with `OK <guid_text>` (whatever that text is).
pub fn raw_server_handshake_with(sock: &mut UnixStream, agree_fds: bool, guid_text: &str) -> io::Result<(bool, Vec<u8>)> {
    let mut buf: Vec<u8> = Vec::new();
    let mut agreed = false;
    loop {
        let mut tmp = [0u8; 256];
        let n = sock.read(&mut tmp)?;
        if n == 0 {
            return Err(io::Error::new(io::ErrorKind::UnexpectedEof, "client closed during the handshake"));
        }
        buf.extend_from_slice(&tmp[..n]);
        while let Some(lf) = buf.iter().position(|b| *b == b'\n') {
            let line: Vec<u8> = buf.drain(..=lf).collect();
            let text = String::from_utf8_lossy(&line).trim_matches(|c: char| c == '\0' || c == '\r' || c == '\n' || c == ' ').to_string();
            if text.starts_with("AUTH") {
                sock.write_all(format!("OK {guid_text}\r\n").as_bytes())?;
            } else if text.starts_with("NEGOTIATE_UNIX_FD") {
                if agree_fds {
                    agreed = true;
                    sock.write_all(b"AGREE_UNIX_FD\r\n")?;
                } else {
                    sock.write_all(b"ERROR no fds\r\n")?;
                }
            } else if text.starts_with("BEGIN") {
                return Ok((agreed, buf));
            } else {
                sock.write_all(b"ERROR\r\n")?;
            }
        }
    }
}

/// `sendmsg` with SCM_RIGHTS. Returns the number of bytes the kernel took.
pub fn send_with_fds(sock: RawFd, bytes: &[u8], fds: &[RawFd]) -> io::Result<usize> {
    unsafe {
        let mut iov = libc::iovec { iov_base: bytes.as_ptr() as *mut libc::c_void, iov_len: bytes.len() };
        let mut msg: libc::msghdr = std::mem::zeroed();
        msg.msg_iov = &mut iov;
        msg.msg_iovlen = 1;
        let space = libc::CMSG_SPACE((fds.len() * std::mem::size_of::<RawFd>()) as u32) as usize;
        let mut cbuf = vec![0u8; space.max(1)];
        if !fds.is_empty() {
            msg.msg_control = cbuf.as_mut_ptr() as *mut libc::c_void;
            msg.msg_controllen = space as _;
            let cmsg = libc::CMSG_FIRSTHDR(&msg);
            (*cmsg).cmsg_level = libc::SOL_SOCKET;
            (*cmsg).cmsg_type = libc::SCM_RIGHTS;
            (*cmsg).cmsg_len = libc::CMSG_LEN((fds.len() * std::mem::size_of::<RawFd>()) as u32) as _;
            std::ptr::copy_nonoverlapping(fds.as_ptr(), libc::CMSG_DATA(cmsg) as *mut RawFd, fds.len());
        }
        let n = libc::sendmsg(sock, &msg, libc::MSG_NOSIGNAL);
        if n < 0 {
            Err(io::Error::last_os_error())
        } else {
            Ok(n as usize)
        }
    }
}

/// `recvmsg` collecting SCM_RIGHTS. Returns (bytes read, fds received with them).
pub fn recv_with_fds(sock: RawFd, buf: &mut [u8]) -> io::Result<(usize, Vec<OwnedFd>)> {
    unsafe {
        let mut iov = libc::iovec { iov_base: buf.as_mut_ptr() as *mut libc::c_void, iov_len: buf.len() };
        let mut msg: libc::msghdr = std::mem::zeroed();
        msg.msg_iov = &mut iov;
        msg.msg_iovlen = 1;
        let mut cbuf = vec![0u8; libc::CMSG_SPACE(64 * std::mem::size_of::<RawFd>() as u32) as usize];
        msg.msg_control = cbuf.as_mut_ptr() as *mut libc::c_void;
        msg.msg_controllen = cbuf.len() as _;
        let n = libc::recvmsg(sock, &mut msg, libc::MSG_CMSG_CLOEXEC);
        if n < 0 {
            return Err(io::Error::last_os_error());
        }
        let mut fds = Vec::new();
        let mut cmsg = libc::CMSG_FIRSTHDR(&msg);
        while !cmsg.is_null() {
            if (*cmsg).cmsg_level == libc::SOL_SOCKET && (*cmsg).cmsg_type == libc::SCM_RIGHTS {
                let data = libc::CMSG_DATA(cmsg) as *const RawFd;
                let count = ((*cmsg).cmsg_len as usize - libc::CMSG_LEN(0) as usize) / std::mem::size_of::<RawFd>();
                for i in 0..count {
                    fds.push(OwnedFd::from_raw_fd(std::ptr::read_unaligned(data.add(i))));
                }
            }
            cmsg = libc::CMSG_NXTHDR(&msg, cmsg);
        }
        Ok((n as usize, fds))
    }
}

pub fn set_sndbuf(sock: &UnixStream, bytes: i32) {
    unsafe {
        libc::setsockopt(sock.as_raw_fd(), libc::SOL_SOCKET, libc::SO_SNDBUF, &bytes as *const i32 as *const libc::c_void, std::mem::size_of::<i32>() as u32);
    }
}
