//! Seeded cooperative scheduler. Actors: EX_i (tick executor i once), H_j
//! (poll harness future j if its waker fired), NET_k (one transport action),
//! plus user-defined environment actions. The pick sequence is the schedule
//! trace; quiescence = no actor can make progress.

use std::future::Future;
use std::pin::Pin;
use std::sync::atomic::{AtomicBool, AtomicU64, Ordering};

/// Logical clock: number of scheduler steps taken so far (read by the wire to timestamp I/O).
pub static STEP: AtomicU64 = AtomicU64::new(0);

/// Largest number of steps any one scheduler of this process has taken (margin to `max_steps`, printed at exit).
pub static MAX_CASE_STEPS: AtomicU64 = AtomicU64::new(0);

pub fn now() -> u64 {
    STEP.load(Ordering::SeqCst)
}
use std::sync::Arc;
use std::task::{Context, Poll, Wake, Waker};
use vref::prng::Rng;

pub struct Flag(pub AtomicBool);

impl Wake for Flag {
    fn wake(self: Arc<Self>) {
        self.0.store(true, Ordering::SeqCst);
    }
    fn wake_by_ref(self: &Arc<Self>) {
        self.0.store(true, Ordering::SeqCst);
    }
}

pub struct HTask<'a> {
    pub fut: Option<Pin<Box<dyn Future<Output = ()> + 'a>>>,
    pub flag: Arc<Flag>,
    pub label: String,
    pub polls: u64,
}

impl<'a> HTask<'a> {
    pub fn done(&self) -> bool {
        self.fut.is_none()
    }
}

/// Poll a future once with a flag waker.
pub fn poll_once<F: Future + ?Sized>(fut: Pin<&mut F>, flag: &Arc<Flag>) -> Poll<F::Output> {
    let waker = Waker::from(flag.clone());
    let mut cx = Context::from_waker(&waker);
    fut.poll(&mut cx)
}

/// Tick a zbus executor once. Returns true if a task ran.
pub fn tick(ex: &zbus::Executor<'static>) -> bool {
    let flag = Arc::new(Flag(AtomicBool::new(false)));
    let mut f = Box::pin(ex.tick());
    // A panic inside a zbus task propagates out of tick(): callers wrap in catch_unwind.
    matches!(poll_once(f.as_mut(), &flag), Poll::Ready(()))
}

#[derive(Clone, Copy, Debug, PartialEq, Eq)]
pub enum Actor {
    Ex(usize),
    H(usize),
    Net(usize),
    Env(usize),
}

pub struct Sched<'a> {
    pub rng: Rng,
    pub tasks: Vec<HTask<'a>>,
    pub executors: Vec<zbus::Executor<'static>>,
    /// transport actions: return true if something happened
    pub nets: Vec<Box<dyn FnMut() -> bool + 'a>>,
    pub trace: Vec<u8>,
    pub steps: u64,
    pub max_steps: u64,
    /// relative weights
    pub w_ex: u64,
    pub w_h: u64,
    pub w_net: u64,
    pub ex_ticks: u64,
    pub net_events: u64,
    pub h_polls: u64,
    /// (logical time, actor) of every step taken
    pub hist: Vec<(u64, Actor)>,
}

impl<'a> Drop for Sched<'a> {
    fn drop(&mut self) {
        MAX_CASE_STEPS.fetch_max(self.steps, Ordering::Relaxed);
    }
}

impl<'a> Sched<'a> {
    pub fn new(rng: Rng) -> Sched<'a> {
        Sched {
            rng,
            tasks: Vec::new(),
            executors: Vec::new(),
            nets: Vec::new(),
            trace: Vec::new(),
            steps: 0,
            max_steps: 200_000,
            w_ex: 4,
            w_h: 3,
            w_net: 2,
            ex_ticks: 0,
            net_events: 0,
            h_polls: 0,
            hist: Vec::new(),
        }
    }

    pub fn add_executor(&mut self, ex: zbus::Executor<'static>) -> usize {
        self.executors.push(ex);
        self.executors.len() - 1
    }

    pub fn add_net(&mut self, f: Box<dyn FnMut() -> bool + 'a>) -> usize {
        self.nets.push(f);
        self.nets.len() - 1
    }

    /// Add a harness future; it starts runnable.
    pub fn spawn(&mut self, label: &str, fut: impl Future<Output = ()> + 'a) -> usize {
        self.tasks.push(HTask {
            fut: Some(Box::pin(fut)),
            flag: Arc::new(Flag(AtomicBool::new(true))),
            label: label.to_string(),
            polls: 0,
        });
        self.tasks.len() - 1
    }

    pub fn is_done(&self, i: usize) -> bool {
        self.tasks[i].done()
    }

    /// Mark a harness future runnable (an environment event it must notice).
    pub fn wake(&mut self, i: usize) {
        self.tasks[i].flag.0.store(true, Ordering::SeqCst);
    }

    /// Drop a harness future (cancellation).
    pub fn cancel(&mut self, i: usize) {
        self.tasks[i].fut = None;
    }

    fn poll_task(&mut self, i: usize) -> bool {
        let t = &mut self.tasks[i];
        if t.fut.is_none() {
            return false;
        }
        if !t.flag.0.swap(false, Ordering::SeqCst) {
            return false;
        }
        t.polls += 1;
        self.h_polls += 1;
        let flag = t.flag.clone();
        let r = poll_once(t.fut.as_mut().unwrap().as_mut(), &flag);
        if r.is_ready() {
            t.fut = None;
        }
        true
    }

    fn runnable_tasks(&self) -> Vec<usize> {
        self.tasks
            .iter()
            .enumerate()
            .filter(|(_, t)| t.fut.is_some() && t.flag.0.load(Ordering::SeqCst))
            .map(|(i, _)| i)
            .collect()
    }

    /// One scheduling step. Returns false when the system is quiescent.
    pub fn step(&mut self) -> bool {
        // Candidate actor kinds with weights; an actor that turns out to have
        // nothing to do is removed from this step's candidates.
        let mut ex: Vec<usize> = (0..self.executors.len()).collect();
        let mut net: Vec<usize> = (0..self.nets.len()).collect();
        loop {
            let h = self.runnable_tasks();
            let we = if ex.is_empty() { 0 } else { self.w_ex };
            let wh = if h.is_empty() { 0 } else { self.w_h };
            let wn = if net.is_empty() { 0 } else { self.w_net };
            let total = we + wh + wn;
            if total == 0 {
                return false;
            }
            let r = self.rng.below(total);
            if r < we {
                let k = self.rng.usize_below(ex.len());
                let e = ex[k];
                if tick(&self.executors[e]) {
                    let t = STEP.fetch_add(1, Ordering::SeqCst) + 1;
                    self.hist.push((t, Actor::Ex(e)));
                    self.trace.push(b'E');
                    self.ex_ticks += 1;
                    self.steps += 1;
                    return true;
                }
                ex.remove(k);
            } else if r < we + wh {
                let k = self.rng.usize_below(h.len());
                STEP.fetch_add(1, Ordering::SeqCst);
                if self.poll_task(h[k]) {
                    self.hist.push((now(), Actor::H(h[k])));
                    self.trace.push(b'H');
                    self.steps += 1;
                    return true;
                }
            } else {
                let k = self.rng.usize_below(net.len());
                let n = net[k];
                STEP.fetch_add(1, Ordering::SeqCst);
                if (self.nets[n])() {
                    self.hist.push((now(), Actor::Net(n)));
                    self.trace.push(b'N');
                    self.net_events += 1;
                    self.steps += 1;
                    return true;
                }
                net.remove(k);
            }
        }
    }

    /// Run until quiescent (or the step bound, which reports false).
    pub fn run_to_quiescence(&mut self) -> bool {
        while self.steps < self.max_steps {
            if !self.step() {
                return true;
            }
        }
        false
    }

    /// Run until quiescent, treating the step bound as a harness limit rather than a verdict: whenever it is reached, it is
    /// raised by another 200 000 steps provided `progress` (a monotone measure of transport I/O) moved since the last time.
    /// Returns false only when a whole extension passed without progress, or after 200 extensions.
    pub fn run_to_quiescence_while(&mut self, mut progress: impl FnMut() -> u64) -> bool {
        let mut last = progress();
        for _ in 0..200 {
            if self.run_to_quiescence() {
                return true;
            }
            let now = progress();
            if now == last {
                return false;
            }
            last = now;
            self.max_steps += 200_000;
        }
        false
    }

    /// Run until task `i` completes or the system is quiescent.
    pub fn run_until_done(&mut self, i: usize) -> bool {
        while self.steps < self.max_steps {
            if self.tasks[i].done() {
                return true;
            }
            if !self.step() {
                return self.tasks[i].done();
            }
        }
        false
    }

    pub fn run_steps(&mut self, n: u64) {
        for _ in 0..n {
            if !self.step() {
                break;
            }
        }
    }

    /// Fingerprint of the schedule (actor kinds only).
    pub fn fingerprint(&self) -> u64 {
        vref::prng::fnv_bytes(&self.trace)
    }

    pub fn trace_string(&self) -> String {
        let s = String::from_utf8_lossy(&self.trace).to_string();
        if s.len() > 400 {
            format!("{}…({} steps)", &s[..400], s.len())
        } else {
            s
        }
    }
}
