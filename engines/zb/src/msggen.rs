//! Generators of reference messages (vref::msg::Msg) shared by the message
//! properties and the scripted peers.

use vref::dbus::Endian;
use vref::msg::*;
use vref::names::*;
use vref::prng::Rng;
use vref::sig::{gen_sig, GenOpts};
use vref::val::{gen_object_path, gen_val, Val, ValOpts};

pub struct MsgOpts {
    pub allow_fd: bool,
    pub max_body_args: usize,
    pub big: bool,
}

pub fn gen_body(rng: &mut Rng, o: &MsgOpts) -> Vec<Val> {
    let n = rng.usize_below(o.max_body_args + 1);
    let so = GenOpts { max_depth: 3, max_fields: 3, allow_maybe: false, allow_fd: o.allow_fd, allow_variant: true };
    let vo = ValOpts {
        budget: if o.big { 300 } else { 20 },
        max_len: if o.big { 30 } else { 4 },
        boundary_pct: 30,
        nfds: 3,
        sig: so,
        max_str: if o.big { 200 } else { 10 },
    };
    (0..n)
        .map(|_| {
            let s = gen_sig(rng, &so, 0);
            fix_g(&gen_val(rng, &s, &vo))
        })
        .collect()
}

/// `g` values with at most one complete type (see DESIGN: the library cannot tell "ii" from "(ii)").
pub fn fix_g(v: &Val) -> Val {
    match v {
        Val::G(s) => {
            let p = vref::sig::parse_sig(s.as_bytes(), vref::sig::SigOpts { allow_maybe: false }).unwrap_or_default();
            if p.len() >= 2 {
                Val::G(p[0].to_sig_string())
            } else {
                Val::G(s.clone())
            }
        }
        Val::V(x) => Val::V(Box::new(fix_g(x))),
        Val::A(e, xs) => Val::A(e.clone(), xs.iter().map(fix_g).collect()),
        Val::Dict(k, vv, es) => {
            let mut out: Vec<(Val, Val)> = Vec::new();
            for (a, b) in es {
                let a2 = fix_g(a);
                if out.iter().any(|(kk, _)| vref::val::dict_key_equal(kk, &a2)) {
                    continue;
                }
                out.push((a2, fix_g(b)));
            }
            Val::Dict(k.clone(), vv.clone(), out)
        }
        Val::St(fs) => Val::St(fs.iter().map(fix_g).collect()),
        other => other.clone(),
    }
}

/// A random valid message of a random type with a random subset of optional fields.
pub fn gen_msg(rng: &mut Rng, o: &MsgOpts) -> Msg {
    let mtype = 1 + rng.below(4) as u8;
    let serial = 1 + rng.below(0xffff_fffe) as u32;
    let mut m = Msg::new(mtype, serial);
    m.endian = if rng.bool() { Endian::Le } else { Endian::Be };
    let path = gen_object_path(rng);
    let iface = gen_interface_name(rng);
    let member = gen_member_name(rng);
    match mtype {
        METHOD_CALL => {
            m.fields.push((F_PATH, Val::O(path)));
            if rng.chance(3, 4) {
                m.fields.push((F_INTERFACE, Val::S(iface)));
            }
            m.fields.push((F_MEMBER, Val::S(member)));
            m.flags = rng.below(8) as u8;
        }
        SIGNAL => {
            m.fields.push((F_PATH, Val::O(path)));
            m.fields.push((F_INTERFACE, Val::S(iface)));
            m.fields.push((F_MEMBER, Val::S(member)));
            m.flags = (rng.below(4) as u8) << 1; // no NO_REPLY on non-calls (the builder refuses it)
        }
        METHOD_RETURN => {
            m.fields.push((F_REPLY_SERIAL, Val::U(1 + rng.below(0xffff_fffe) as u32)));
            m.flags = (rng.below(4) as u8) << 1;
        }
        _ => {
            m.fields.push((F_ERROR_NAME, Val::S(gen_interface_name(rng))));
            m.fields.push((F_REPLY_SERIAL, Val::U(1 + rng.below(0xffff_fffe) as u32)));
            m.flags = (rng.below(4) as u8) << 1;
        }
    }
    if rng.bool() {
        m.fields.push((F_DESTINATION, Val::S(gen_bus_name(rng))));
    }
    if rng.bool() {
        m.fields.push((F_SENDER, Val::S(gen_unique_name(rng))));
    }
    m.body = gen_body(rng, o);
    m
}
