//! C36 — well-known name bookkeeping follows the bus.
//!
//! Histories of request_name_with_flags / release_name on a bus connection
//! against the scripted bus, which decides reply codes, moves the connection in
//! and out of the queue (NameAcquired / NameLost), and relays forged copies of
//! those signals from another peer. Every result the connection reports is
//! compared with what the bus holds for it at that moment.

use crate::harness::bus::*;
use crate::harness::sched::Sched;
use crate::harness::wire::Wire;
use crate::props::c24::run_task;
use serde_json::json;
use std::cell::RefCell;
use std::rc::Rc;
use vcommon::Ctx;
use vref::msg::*;
use vref::prng::{fnv, Rng};
use vref::val::Val;
use zbus::fdo::{RequestNameFlags, RequestNameReply};

const NAMES: &[&str] = &["t.n.One", "t.n.Two", "t.n.Three"];

#[derive(Clone, Debug)]
enum Op {
    Request(usize, u32),
    Release(usize),
    /// the queued name falls to the connection (driver NameAcquired)
    Grant(usize),
    /// the connection is replaced as owner (driver NameLost), possible only if it allowed replacement
    Take(usize),
    /// a peer sends a look-alike NameAcquired / NameLost straight to the connection
    Forged(usize, &'static str),
    /// unrelated driver signal for a name the connection never asked for
    Noise(&'static str),
}

fn flags_from(bits: u32) -> enumflags2_compat::Flags {
    enumflags2_compat::from_bits(bits)
}

/// zbus re-exports BitFlags through its API; build them from raw bits without naming the crate.
mod enumflags2_compat {
    use zbus::fdo::RequestNameFlags;
    pub type Flags = enumflags2::BitFlags<RequestNameFlags>;
    pub fn from_bits(bits: u32) -> Flags {
        let mut f = Flags::empty();
        if bits & 1 != 0 {
            f |= RequestNameFlags::AllowReplacement;
        }
        if bits & 2 != 0 {
            f |= RequestNameFlags::ReplaceExisting;
        }
        if bits & 4 != 0 {
            f |= RequestNameFlags::DoNotQueue;
        }
        f
    }
}

fn show(op: &Op) -> String {
    match op {
        Op::Request(n, f) => format!("request({}, flags={f:#x})", NAMES[*n]),
        Op::Release(n) => format!("release({})", NAMES[*n]),
        Op::Grant(n) => format!("bus:NameAcquired({})", NAMES[*n]),
        Op::Take(n) => format!("bus:NameLost({})", NAMES[*n]),
        Op::Forged(n, m) => format!("peer:forged-{m}({})", NAMES[*n]),
        Op::Noise(m) => format!("bus:{m}(t.n.Other)"),
    }
}

fn held_str(h: Option<Held>) -> &'static str {
    match h {
        Some(Held::Owner) => "owner",
        Some(Held::Queued) => "queued",
        None => "none",
    }
}

fn history(ctx: &mut Ctx, index: u64, rng: &mut Rng, script: Option<Vec<(Op, u32)>>) {
    ctx.count("evaluations", 1);
    let wire = Wire::new(rng.next_u64());
    let mut sched = Sched::new(Rng::new(rng.next_u64()));
    let bias = *rng.pick(&[(4u64, 3u64, 2u64), (6, 1, 6), (1, 6, 1), (2, 2, 6), (1, 1, 1)]);
    sched.w_ex = bias.0;
    sched.w_h = bias.1;
    sched.w_net = bias.2;
    let bus: SharedBus = Rc::new(RefCell::new(FakeBus::new(&wire)));
    if rng.bool() {
        bus.borrow_mut().chunking = vec![1 + rng.usize_below(40)];
    }
    // the reply code for the next RequestName of a name that is not held
    let next_code: Rc<RefCell<u32>> = Rc::new(RefCell::new(1));
    let nc = next_code.clone();
    bus.borrow_mut().name_policy = Box::new(move |_, _| *nc.borrow());
    let conn = match connect_bus(&mut sched, &wire, &bus) {
        Ok(c) => c,
        Err(e) => {
            ctx.finding(index, "harness-or-hang", "-", "connect", json!({"error": e}));
            return;
        }
    };
    sched.run_to_quiescence();
    let len = match &script {
        Some(s) => s.len(),
        None => if ctx.thorough() { 10 + rng.usize_below(50) } else { 5 + rng.usize_below(25) },
    };
    let mut log: Vec<String> = Vec::new();
    // per name: the last signal-like event, and whether the bus moved the connection back into the queue (NameLost
    // without do-not-queue) since the name was last requested afresh or released
    let mut last_sig: Vec<&'static str> = vec!["", "", ""];
    let mut requeued: Vec<bool> = vec![false, false, false];
    let ctx_of = |n: usize, last_sig: &Vec<&'static str>, requeued: &Vec<bool>| -> String {
        if requeued[n] {
            ":after-replacement-with-queueing".to_string()
        } else if last_sig[n].starts_with("forged") {
            format!(":after-{}", last_sig[n])
        } else {
            String::new()
        }
    };
    for k in 0..len {
        // choose an operation that makes sense in the bus's current state (biased, not filtered: useless ones are fine)
        let (op, code) = match &script {
            Some(s) => s[k].clone(),
            None => {
                let n = rng.usize_below(NAMES.len());
                let held = bus.borrow().held.get(NAMES[n]).map(|x| x.0);
                let r = rng.below(100);
                let op = if r < 35 {
                    Op::Request(n, rng.below(8) as u32)
                } else if r < 55 {
                    Op::Release(n)
                } else if r < 70 {
                    if held == Some(Held::Queued) { Op::Grant(n) } else { Op::Take(n) }
                } else if r < 80 {
                    Op::Take(n)
                } else if r < 95 {
                    Op::Forged(n, if rng.bool() { "NameAcquired" } else { "NameLost" })
                } else {
                    Op::Noise(if rng.bool() { "NameAcquired" } else { "NameLost" })
                };
                (op, 0)
            }
        };
        let before = bus.borrow().held.get(match &op {
            Op::Request(n, _) | Op::Release(n) | Op::Grant(n) | Op::Take(n) | Op::Forged(n, _) => NAMES[*n],
            Op::Noise(_) => "t.n.Other",
        }).map(|x| x.0);
        let bus_calls_before = bus.borrow().log.len();
        match &op {
            Op::Request(n, flags) => {
                // what the bus will answer if it is asked and the name is not held
                let code = if code != 0 {
                    code
                } else {
                    let dnq = flags & 4 != 0;
                    match rng.below(10) {
                        0..=4 => 1,
                        5..=6 => if dnq { 3 } else { 2 },
                        7 => if dnq { 3 } else { 12 },
                        _ => if dnq { 3 } else { 2 },
                    }
                };
                *next_code.borrow_mut() = code;
                let c = conn.clone();
                let (name, f) = (NAMES[*n], flags_from(*flags));
                let r = run_task(&mut sched, async move { c.request_name_with_flags(name, f).await });
                sched.run_to_quiescence();
                let asked = bus.borrow().log[bus_calls_before..].iter().any(|(_, e)| matches!(e, BusEvent::RequestName(..)));
                ctx.count(if asked { "class:request-reached-the-bus" } else { "class:request-answered-locally" }, 1);
                let expect = match before {
                    Some(Held::Owner) => "AlreadyOwner",
                    Some(Held::Queued) => "InQueue",
                    None => match code {
                        1 => "PrimaryOwner",
                        2 | 12 => "InQueue",
                        _ => "NameTaken",
                    },
                };
                let got = match &r {
                    None => "<pending at quiescence>".to_string(),
                    Some(Ok(RequestNameReply::PrimaryOwner)) => "PrimaryOwner".into(),
                    Some(Ok(RequestNameReply::InQueue)) => "InQueue".into(),
                    Some(Ok(RequestNameReply::AlreadyOwner)) => "AlreadyOwner".into(),
                    Some(Ok(RequestNameReply::Exists)) => "Exists".into(),
                    Some(Err(zbus::Error::NameTaken)) => "NameTaken".into(),
                    Some(Err(e)) => format!("error: {e}"),
                };
                log.push(format!("{} [bus held: {}; bus would answer {code}] -> {got}{}", show(&op), held_str(before), if asked { "" } else { " (answered locally)" }));
                ctx.count("requests_checked", 1);
                if got != expect {
                    let reason = format!("bus-{}-reported-{}", held_str(before), got.split(':').next().unwrap_or("?"));
                    let via = format!("{}{}", if asked { "asked-bus" } else { "answered-locally" }, ctx_of(*n, &last_sig, &requeued));
                    ctx.finding(index, "request-result-disagrees-with-bus", &reason, &via, json!({"history": log, "expected": expect, "got": got}));
                    return;
                }
                if before.is_none() {
                    requeued[*n] = false;
                    last_sig[*n] = "";
                }
            }
            Op::Release(n) => {
                let c = conn.clone();
                let name = NAMES[*n];
                let r = run_task(&mut sched, async move { c.release_name(name).await });
                sched.run_to_quiescence();
                let asked = bus.borrow().log[bus_calls_before..].iter().any(|(_, e)| matches!(e, BusEvent::ReleaseName(..)));
                let got = match &r {
                    None => "<pending at quiescence>".to_string(),
                    Some(Ok(b)) => b.to_string(),
                    Some(Err(e)) => format!("error: {e}"),
                };
                let expect = before.is_some().to_string();
                log.push(format!("{} [bus held: {}] -> {got}{}", show(&op), held_str(before), if asked { "" } else { " (answered locally)" }));
                ctx.count("releases_checked", 1);
                if got != expect {
                    let via = format!("{}{}", if asked { "asked-bus" } else { "answered-locally" }, ctx_of(*n, &last_sig, &requeued));
                    ctx.finding(index, "release-result-disagrees-with-bus", &format!("bus-{}-reported-{}", held_str(before), got.split(':').next().unwrap_or("?")), &via, json!({"history": log, "expected": expect, "got": got}));
                    return;
                }
                requeued[*n] = false;
                last_sig[*n] = "";
                // what the bus holds afterwards must be nothing (a release answered locally with `true` would leave it behind)
                if bus.borrow().held.contains_key(name) {
                    ctx.finding(index, "release-did-not-reach-the-bus", held_str(before), "-", json!({"history": log}));
                    return;
                }
            }
            Op::Grant(n) => {
                let did = bus.borrow_mut().grant(NAMES[*n]);
                sched.run_to_quiescence();
                if did {
                    last_sig[*n] = "driver-NameAcquired";
                    ctx.count("class:driver-NameAcquired", 1);
                    log.push(show(&op));
                }
            }
            Op::Take(n) => {
                let did = bus.borrow_mut().take_away(NAMES[*n]);
                sched.run_to_quiescence();
                if did {
                    last_sig[*n] = "driver-NameLost";
                    if bus.borrow().held.get(NAMES[*n]).map(|x| x.0) == Some(Held::Queued) {
                        requeued[*n] = true;
                    }
                    ctx.count("class:driver-NameLost", 1);
                    log.push(format!("{} [now {}]", show(&op), held_str(bus.borrow().held.get(NAMES[*n]).map(|x| x.0))));
                }
            }
            Op::Forged(n, member) => {
                let (s, u) = {
                    let mut b = bus.borrow_mut();
                    (b.serial(), b.unique.clone())
                };
                // identical to the driver's signal except for the sender, addressed to the connection (unicast: a bus delivers it)
                let m = Msg::signal(s, DRIVER_PATH, DRIVER, member).with_sender(":1.99").with_destination(&u).with_body(vec![Val::S(NAMES[*n].into())]);
                bus.borrow_mut().route_signal(&m);
                sched.run_to_quiescence();
                last_sig[*n] = if *member == "NameLost" { "forged-NameLost" } else { "forged-NameAcquired" };
                ctx.count("class:forged-signal", 1);
                log.push(show(&op));
            }
            Op::Noise(member) => {
                bus.borrow_mut().name_signal(member, "t.n.Other");
                sched.run_to_quiescence();
                log.push(show(&op));
            }
        }
    }
    ctx.distinct(fnv(&log.join(";")) ^ sched.fingerprint());
    if !bus.borrow().parse_errors.is_empty() {
        ctx.finding(index, "bus-could-not-parse-zbus-output", "-", "-", json!({"errors": bus.borrow().parse_errors}));
    }
    ctx.sample(json!({"history": log, "bus_log": bus.borrow().log.iter().filter(|(_, e)| matches!(e, BusEvent::RequestName(..) | BusEvent::ReleaseName(..))).map(|(_, e)| format!("{e:?}")).collect::<Vec<_>>(),
        "schedule": sched.trace_string().chars().take(100).collect::<String>()}));
}

fn directed() -> Vec<Vec<(Op, u32)>> {
    vec![
        // granted, asked again, released, released again
        vec![(Op::Request(0, 0), 1), (Op::Request(0, 0), 1), (Op::Release(0), 0), (Op::Release(0), 0), (Op::Request(0, 4), 3)],
        // queued, then acquired, then asked again
        vec![(Op::Request(1, 0), 2), (Op::Request(1, 0), 2), (Op::Grant(1), 0), (Op::Request(1, 0), 1), (Op::Release(1), 0)],
        // queued and granted right behind the reply
        vec![(Op::Request(1, 1), 12), (Op::Request(1, 1), 1), (Op::Release(1), 0)],
        // replaced as owner while queueing is allowed: the bus keeps the connection in the queue
        vec![(Op::Request(0, 1), 1), (Op::Take(0), 0), (Op::Request(0, 1), 1), (Op::Release(0), 0)],
        vec![(Op::Request(0, 1), 1), (Op::Take(0), 0), (Op::Release(0), 0)],
        vec![(Op::Request(0, 1), 1), (Op::Take(0), 0), (Op::Grant(0), 0), (Op::Release(0), 0)],
        // replaced with do-not-queue: gone
        vec![(Op::Request(0, 5), 1), (Op::Take(0), 0), (Op::Release(0), 0), (Op::Request(0, 5), 3)],
        // forged signals must change nothing
        vec![(Op::Request(0, 1), 1), (Op::Forged(0, "NameLost"), 0), (Op::Release(0), 0)],
        vec![(Op::Request(0, 1), 1), (Op::Forged(0, "NameLost"), 0), (Op::Request(0, 1), 1)],
        vec![(Op::Request(2, 0), 2), (Op::Forged(2, "NameAcquired"), 0), (Op::Request(2, 0), 2), (Op::Release(2), 0)],
        vec![(Op::Request(2, 1), 2), (Op::Forged(2, "NameAcquired"), 0), (Op::Forged(2, "NameLost"), 0), (Op::Request(2, 1), 2)],
    ]
}

// ---------------------------------------------------------------------------------------------------------------
// Class "real-daemon": the same kind of history on a REAL bus (a private dbus-daemon). Ground truth is what the daemon
// itself lists for each name (ListQueuedOwners over an observer connection), read before and after every operation of
// the connection under test; a second library connection plays the other process that takes names away and gives
// them back. Nothing here depends on the scripted bus's model of dbus-daemon.

#[cfg(not(miri))]
mod real {
    use super::{flags_from, held_str};
    use crate::harness::bus::Held;
    use crate::harness::realbus::*;
    use serde_json::json;
    use std::time::Duration;
    use vcommon::Ctx;
    use vref::prng::{fnv, Rng};
    use zbus::blocking::Connection;
    use zbus::fdo::RequestNameReply;

    fn held(observer: &Connection, unique: &str, name: &str) -> Result<Option<Held>, String> {
        let q = queued_owners(observer, name)?;
        Ok(match q.iter().position(|u| u == unique) {
            Some(0) => Some(Held::Owner),
            Some(_) => Some(Held::Queued),
            None => None,
        })
    }

    /// The one answer consistent with what the bus held before and holds after a RequestName of the connection.
    fn request_answer(before: Option<Held>, after: Option<Held>) -> &'static str {
        match (before, after) {
            (Some(Held::Owner), Some(Held::Owner)) => "AlreadyOwner",
            (_, Some(Held::Owner)) => "PrimaryOwner",
            (_, Some(Held::Queued)) => "InQueue",
            (_, None) => "NameTaken",
        }
    }

    fn do_request(a: &Connection, name: &str, flags: u32) -> String {
        match a.request_name_with_flags(name, flags_from(flags)) {
            Ok(RequestNameReply::PrimaryOwner) => "PrimaryOwner".into(),
            Ok(RequestNameReply::InQueue) => "InQueue".into(),
            Ok(RequestNameReply::AlreadyOwner) => "AlreadyOwner".into(),
            Ok(RequestNameReply::Exists) => "NameTaken".into(),
            Err(zbus::Error::NameTaken) => "NameTaken".into(),
            Err(e) => format!("error: {e}"),
        }
    }

    /// Returns Err for environment trouble (INCONCLUSIVE), Ok otherwise.
    pub fn history(ctx: &mut Ctx, index: u64, rng: &mut Rng, daemon: &Daemon, observer: &Connection) -> Result<(), String> {
        ctx.count("evaluations", 1);
        ctx.count("class:real-daemon", 1);
        let a = daemon.connect()?;
        let b = daemon.connect()?;
        let ua = a.unique_name().map(|u| u.to_string()).ok_or("no unique name")?;
        let names: Vec<String> = ["One", "Two"].iter().map(|s| format!("t.n.H{index}.{s}")).collect();
        let len = if ctx.thorough() { 8 + rng.usize_below(30) } else { 5 + rng.usize_below(16) };
        let mut log: Vec<String> = Vec::new();
        let mut requeued = vec![false; names.len()];
        let mut shape = String::new();
        for _ in 0..len {
            let n = rng.usize_below(names.len());
            let name = names[n].as_str();
            let ctx_of = |requeued: &Vec<bool>| if requeued[n] { ":after-replacement-with-queueing" } else { "" };
            let before = held(observer, &ua, name)?;
            match rng.below(100) {
                0..=29 => {
                    let flags = rng.below(8) as u32;
                    let got = do_request(&a, name, flags);
                    let after = held(observer, &ua, name)?;
                    let expect = request_answer(before, after);
                    log.push(format!("A.request({name}, flags={flags:#x}) [bus held for A: {} -> {}] -> {got}", held_str(before), held_str(after)));
                    shape.push_str(&format!("q{n}{flags}{}", held_str(before)));
                    ctx.count("real_requests_checked", 1);
                    if got != expect {
                        // not a verdict yet: an ownership signal of an earlier step may still be on its way through the connection's
                        // tasks. Let everything settle and ask the same again; only a disagreement that persists is reported.
                        std::thread::sleep(Duration::from_secs(1));
                        let before2 = held(observer, &ua, name)?;
                        let got2 = do_request(&a, name, flags);
                        let after2 = held(observer, &ua, name)?;
                        let expect2 = request_answer(before2, after2);
                        log.push(format!("  (settled 1 s, asked again) [bus held for A: {} -> {}] -> {got2}", held_str(before2), held_str(after2)));
                        if got2 != expect2 {
                            let reason = format!("bus-{}-reported-{}", held_str(before2), got2.split(':').next().unwrap_or("?"));
                            ctx.finding(index, "request-result-disagrees-with-bus", &reason, &format!("real-daemon{}", ctx_of(&requeued)), json!({"history": log, "expected": expect2, "got": got2}));
                            return Ok(());
                        }
                        ctx.count("real_transient_disagreements", 1);
                    }
                    if before.is_none() {
                        requeued[n] = false;
                    }
                }
                30..=49 => {
                    let got = match a.release_name(name) {
                        Ok(v) => v.to_string(),
                        Err(e) => format!("error: {e}"),
                    };
                    let after = held(observer, &ua, name)?;
                    let expect = before.is_some().to_string();
                    log.push(format!("A.release({name}) [bus held for A: {} -> {}] -> {got}", held_str(before), held_str(after)));
                    shape.push_str(&format!("r{n}{}", held_str(before)));
                    ctx.count("real_releases_checked", 1);
                    if got != expect {
                        // whether the bus was asked shows in what it holds afterwards
                        let via = if after.is_some() { "answered-locally" } else { "asked-bus" };
                        ctx.finding(index, "release-result-disagrees-with-bus", &format!("bus-{}-reported-{}", held_str(before), got.split(':').next().unwrap_or("?")),
                            &format!("{via}{}", ctx_of(&requeued)), json!({"history": log, "expected": expect, "got": got, "real_daemon": true}));
                        return Ok(());
                    }
                    if after.is_some() {
                        ctx.finding(index, "release-did-not-reach-the-bus", held_str(before), "-", json!({"history": log, "real_daemon": true}));
                        return Ok(());
                    }
                    requeued[n] = false;
                }
                50..=79 => {
                    // the other process asks for the name (possibly replacing A, which the daemon then re-queues unless A said DoNotQueue)
                    let flags = rng.below(8) as u32;
                    let r = b.request_name_with_flags(name, flags_from(flags)).map(|r| format!("{r:?}")).unwrap_or_else(|e| format!("{e}"));
                    ping(&b)?;
                    ping(&a)?;
                    std::thread::sleep(Duration::from_millis(20));
                    let after = held(observer, &ua, name)?;
                    if before == Some(Held::Owner) && after == Some(Held::Queued) {
                        requeued[n] = true;
                        ctx.count("class:real-replaced-and-requeued", 1);
                    }
                    log.push(format!("B.request({name}, flags={flags:#x}) -> {r} [bus holds for A: {} -> {}]", held_str(before), held_str(after)));
                    shape.push_str(&format!("Q{n}{flags}"));
                }
                _ => {
                    let r = b.release_name(name).map(|r| r.to_string()).unwrap_or_else(|e| format!("{e}"));
                    ping(&b)?;
                    ping(&a)?;
                    std::thread::sleep(Duration::from_millis(20));
                    let after = held(observer, &ua, name)?;
                    if before == Some(Held::Queued) && after == Some(Held::Owner) {
                        ctx.count("class:real-queued-name-granted", 1);
                    }
                    log.push(format!("B.release({name}) -> {r} [bus holds for A: {} -> {}]", held_str(before), held_str(after)));
                    shape.push_str(&format!("R{n}"));
                }
            }
        }
        ctx.distinct(fnv(&shape));
        if index % 16 == 0 {
            ctx.sample(json!({"real_daemon_history": log}));
        }
        Ok(())
    }

    pub fn run(ctx: &mut Ctx) {
        let n = ctx.budget(420, 12000);
        let daemon = match Daemon::start("c36") {
            Ok(d) => d,
            Err(e) => {
                ctx.problem(&format!("C36 real-daemon class: {e}"));
                return;
            }
        };
        let observer = match daemon.connect() {
            Ok(c) => c,
            Err(e) => {
                ctx.problem(&format!("C36 real-daemon class: {e}"));
                return;
            }
        };
        let mut with_findings = 0;
        for k in 0..n {
            let i = 3_000_000_000 + k;
            if !ctx.want(i) {
                continue;
            }
            let mut rng = ctx.rng(i);
            let mut trouble = None;
            let before = ctx.findings_reported();
            ctx.guarded(i, "real-daemon", || json!({}), |ctx| {
                if let Err(e) = history(ctx, i, &mut rng, &daemon, &observer) {
                    trouble = Some(e);
                }
            });
            if ctx.findings_reported() > before {
                with_findings += 1;
                // a persistent disagreement costs its whole polling allowance: a few witnesses are enough
                if with_findings >= 4 && !ctx.thorough() {
                    ctx.count("real_class_stopped_after_findings", 1);
                    return;
                }
            }
            if let Some(e) = trouble {
                ctx.problem(&format!("C36 real-daemon history {i}: {e}"));
                return;
            }
        }
    }
}

pub fn run(ctx: &mut Ctx) {
    #[cfg(not(miri))]
    real::run(ctx);
    // `--x-only real-daemon`: only the class on the real bus (the ThreadSanitizer layer: that class is the one with real threads)
    if ctx.args.extra.get("only").map(|s| s == "real-daemon").unwrap_or(false) {
        return;
    }
    for (k, d) in directed().into_iter().enumerate() {
        let i = 2_000_000_000 + k as u64;
        if !ctx.want(i) {
            continue;
        }
        let mut rng = ctx.rng(i);
        ctx.guarded(i, "directed", || json!({"directed": k}), |ctx| history(ctx, i, &mut rng, Some(d)));
        ctx.count("class:directed-history", 1);
    }
    let n = ctx.budget(2500, 100_000);
    for i in 0..n {
        if !ctx.want(i) {
            continue;
        }
        let mut rng = ctx.rng(i);
        ctx.guarded(i, "history", || json!({}), |ctx| history(ctx, i, &mut rng, None));
    }
    let _ = RequestNameFlags::DoNotQueue;
}
