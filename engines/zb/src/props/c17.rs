//! C17 — the client-side handshake succeeds only on a proper server
//! acceptance; fd passing is enabled exactly when the server agreed; bytes and
//! fds sent after the handshake lines start the message stream; no panic.

use crate::harness::sched::Sched;
use crate::harness::util::*;
use crate::harness::wire::{dev_ino, Chunk, Wire};
use crate::props::c14::{fd_files, Got};
use futures_lite::StreamExt;
use serde_json::json;
use std::cell::RefCell;
use std::os::fd::{AsFd, OwnedFd};
use std::rc::Rc;
use vcommon::Ctx;
use vref::msg::*;
use vref::prng::{fnv, Rng};
use vref::val::Val;
use zbus::connection::Builder;
use zbus::{Connection, MessageStream};

const OTHER_GUID: &str = "ffffffffffffffffffffffffffffffff";

fn templates() -> Vec<(&'static str, Vec<u8>)> {
    vec![
        ("OK-valid", format!("OK {GUID}").into_bytes()),
        ("OK-upper", format!("OK {}", GUID.to_uppercase()).into_bytes()),
        ("OK-31hex", format!("OK {}", &GUID[..31]).into_bytes()),
        ("OK-33hex", format!("OK {GUID}0").into_bytes()),
        ("OK-hyphenated", b"OK 01234567-89ab-cdef-0123-456789abcdef".to_vec()),
        ("OK-nonhex", format!("OK {}g", &GUID[..31]).into_bytes()),
        ("OK-noarg", b"OK".to_vec()),
        ("REJECTED", b"REJECTED EXTERNAL ANONYMOUS".to_vec()),
        ("ERROR", b"ERROR nope".to_vec()),
        ("DATA", b"DATA".to_vec()),
        ("AGREE", b"AGREE_UNIX_FD".to_vec()),
        ("unknown", b"WHATEVER x".to_vec()),
        ("non-utf8", vec![0xff, 0xfe, b'O', b'K']),
        ("empty-line", b"".to_vec()),
        ("BEGIN", b"BEGIN".to_vec()),
    ]
}

fn proper_ok(name: &str) -> bool {
    name == "OK-valid" || name == "OK-upper"
}

struct Run {
    /// the last handshake read ended this many bytes into a trailing message
    partial_cut: Option<usize>,
    result: Option<Result<Connection, String>>,
    written: Vec<u8>,
    wire: Wire,
    sched_fp: u64,
}

#[allow(clippy::too_many_arguments)]
fn run_client(rng: &mut Rng, can_fd: bool, reply_bytes: &[u8], trailing: Vec<(Vec<u8>, Vec<OwnedFd>)>, chunks: &[usize], eof: bool, check_stream: bool)
    -> (Run, Vec<Got>, Option<String>, Option<bool>) {
    let wire = Wire::new(rng.next_u64());
    {
        let mut w = wire.lock();
        w.can_fd = can_fd;
        w.max_write = if rng.bool() { usize::MAX } else { 1 + rng.usize_below(9) };
    }
    // handshake replies cut at `chunks`, then the trailing messages: the first one may share
    // the last handshake chunk (that is what makes it "leftover")
    wire.stage(reply_bytes, vec![], chunks);
    // One read during the handshake may return the last handshake line together with
    // several complete messages and, in one batch, the fds of the fd-carrying one that ends
    // the read (the kernel only stops *after* a segment that carried fds).
    let merge_all = rng.chance(1, 3);
    let merge_first = rng.bool();
    let mut fd_seen = false;
    let mut partial_done = false;
    let mut partial_cut: Option<usize> = None;
    for (k, (bytes, fds)) in trailing.into_iter().enumerate() {
        let mut w = wire.lock();
        if (k == 0 && merge_first) || (merge_all && !fd_seen) {
            fd_seen = fd_seen || !fds.is_empty();
            let partial = !partial_done && bytes.len() > 2 && rng.chance(2, 5);
            if let Some(last) = w.staged.back_mut().filter(|l| l.fds.is_empty() || fds.is_empty()) {
                if !fds.is_empty() {
                    last.fd_offset = last.bytes.len();
                }
                if partial {
                    // the read that carries the last handshake line ends INSIDE this message (often inside its fixed
                    // 16-byte header); its fds arrive with its first byte
                    let cut = if rng.bool() { 1 + rng.usize_below(17.min(bytes.len() - 1)) } else { 1 + rng.usize_below(bytes.len() - 1) };
                    last.bytes.extend_from_slice(&bytes[..cut]);
                    last.fds.extend(fds);
                    w.staged.push_back(Chunk { bytes: bytes[cut..].to_vec(), fds: vec![], fd_offset: 0 });
                    partial_done = true;
                    partial_cut = Some(cut);
                    continue;
                }
                last.bytes.extend_from_slice(&bytes);
                last.fds.extend(fds);
                continue;
            }
        }
        // split some messages in two
        if bytes.len() > 20 && rng.bool() {
            let cut = 1 + rng.usize_below(bytes.len() - 1);
            w.staged.push_back(Chunk { bytes: bytes[..cut].to_vec(), fds, fd_offset: 0 });
            w.staged.push_back(Chunk { bytes: bytes[cut..].to_vec(), fds: vec![], fd_offset: 0 });
        } else {
            w.staged.push_back(Chunk { bytes, fds, fd_offset: 0 });
        }
    }
    wire.lock().eof_at_end = eof;
    let mut sched = Sched::new(Rng::new(rng.next_u64()));
    let out: Slot<Result<Connection, String>> = slot();
    let o2 = out.clone();
    let sock = wire.socket();
    let build = sched.spawn("client-build", async move {
        let r = Builder::socket(sock).p2p().internal_executor(false).build().await;
        *o2.borrow_mut() = Some(r.map_err(|e| e.to_string()));
    });
    let w2 = wire.clone();
    let net = sched.add_net(Box::new(move || w2.release_one()));
    let _ = net;
    let w3 = wire.clone();
    sched.add_net(Box::new(move || w3.unblock_write()));
    // run until the build future resolves (or nothing can move)
    sched.run_until_done(build);
    let mut got: Vec<Got> = Vec::new();
    let mut end: Option<String> = None;
    let mut cap: Option<bool> = None;
    let result = out.borrow_mut().take();
    if let (Some(Ok(conn)), true) = (&result, check_stream) {
        // subscribe before any further scheduling so that leftover messages have a receiver
        let gotc: Rc<RefCell<Vec<Got>>> = Rc::new(RefCell::new(Vec::new()));
        let endc: Rc<RefCell<Option<String>>> = Rc::new(RefCell::new(None));
        let mut stream = MessageStream::from(conn);
        sched.add_executor(conn.executor().clone());
        let (g2, e2) = (gotc.clone(), endc.clone());
        sched.spawn("consumer", async move {
            loop {
                match stream.next().await {
                    Some(Ok(m)) => {
                        let d = m.data();
                        g2.borrow_mut().push(Got { bytes: d.bytes().to_vec(), fd_ids: d.fds().iter().map(|f| dev_ino(f.as_fd())).collect(), pos: 0 });
                    }
                    Some(Err(e)) => {
                        *e2.borrow_mut() = Some(e.to_string());
                        break;
                    }
                    None => {
                        *e2.borrow_mut() = Some("<end of stream>".into());
                        break;
                    }
                }
            }
        });
        // fd capability: sending an fd-carrying message is refused with Unsupported iff the capability is off
        let capc: Rc<RefCell<Option<bool>>> = Rc::new(RefCell::new(None));
        let c2 = capc.clone();
        let conn2 = conn.clone();
        sched.spawn("fd-send", async move {
            let f = std::fs::File::open("/dev/null").unwrap();
            let msg = zbus::message::Message::signal("/", "a.b", "C").unwrap().build(&(zbus::zvariant::Fd::from(&f),)).unwrap();
            let r = conn2.send(&msg).await;
            *c2.borrow_mut() = Some(!matches!(r, Err(zbus::Error::Unsupported)));
        });
        sched.run_to_quiescence();
        got = std::mem::take(&mut *gotc.borrow_mut());
        end = endc.borrow_mut().take();
        cap = *capc.borrow();
    } else {
        sched.run_to_quiescence();
    }
    let fp = sched.fingerprint();
    drop(sched);
    (Run { partial_cut, result, written: wire.all_written(), wire, sched_fp: fp }, got, end, cap)
}

/// The expected-GUID clause: a client that connects through an ADDRESS carrying `guid=` must only accept a server whose
/// OK line carries that GUID. Needs a real listening socket (the expected GUID comes from the address), so: a unix
/// listener under the temp dir, a raw server thread, the library's own connect path and executor thread.
fn guid_case(ctx: &mut Ctx, index: u64, rng: &mut Rng) {
    use crate::harness::realsock::raw_server_handshake_with;
    use std::os::unix::net::UnixListener;
    ctx.count("evaluations", 1);
    ctx.count("class:expected-guid", 1);
    let path = std::env::temp_dir().join(format!("zbverif-{}-{}.sock", std::process::id(), index));
    let _ = std::fs::remove_file(&path);
    let listener = match UnixListener::bind(&path) {
        Ok(l) => l,
        Err(e) => {
            ctx.problem(&format!("cannot bind {path:?}: {e}"));
            return;
        }
    };
    let expected: Option<&str> = if rng.chance(3, 4) { Some(GUID) } else { None };
    let (server_guid, valid, label): (String, bool, &str) = match rng.below(8) {
        0 | 1 => (GUID.to_string(), true, "same"),
        2 => (OTHER_GUID.to_string(), true, "other-valid"),
        3 => (GUID[..31].to_string(), false, "31-hex"),
        4 => (format!("{GUID}0"), false, "33-hex"),
        5 => (format!("{}g", &GUID[..31]), false, "non-hex"),
        _ => {
            // one character that is not a hex digit, at any position (first, last and the middle are all drawn often)
            let pos = *rng.pick(&[0usize, 0, 1, 7, 15, 16, 30, 31, 31]);
            let bad = *rng.pick(&['g', 'z', 'G', '+', '-', '_', '.', 'x']);
            let mut cs: Vec<char> = GUID.chars().collect();
            cs[pos] = bad;
            (cs.into_iter().collect(), false, if pos == 0 { "non-hex-first" } else if pos == 31 { "non-hex-last" } else { "non-hex-inside" })
        }
    };
    let sg = server_guid.clone();
    let server = std::thread::spawn(move || {
        let _ = listener.set_nonblocking(false);
        if let Ok((mut s, _)) = listener.accept() {
            let _ = s.set_read_timeout(Some(std::time::Duration::from_secs(60)));
            let _ = raw_server_handshake_with(&mut s, true, &sg);
            // stay around for a moment so that the client's build can finish
            std::thread::sleep(std::time::Duration::from_millis(20));
        }
    });
    let addr = match expected {
        Some(g) => format!("unix:path={},guid={g}", path.display()),
        None => format!("unix:path={}", path.display()),
    };
    let (tx, rx) = std::sync::mpsc::channel();
    let a2 = addr.clone();
    std::thread::spawn(move || {
        let r = zbus::block_on(async { zbus::connection::Builder::address(a2.as_str())?.p2p().build().await });
        let _ = tx.send(r.map(|_| ()).map_err(|e| e.to_string()));
    });
    let result = match rx.recv_timeout(std::time::Duration::from_secs(120)) {
        Ok(r) => r,
        Err(_) => {
            ctx.problem(&format!("C17 expected-guid case {index}: client build did not return within 120 s"));
            let _ = std::fs::remove_file(&path);
            return;
        }
    };
    let _ = server.join();
    let _ = std::fs::remove_file(&path);
    let should = valid && expected.map_or(true, |g| g == server_guid);
    ctx.count(&format!("class:guid-{label}-{}", if expected.is_some() { "expected" } else { "unconstrained" }), 1);
    ctx.distinct(fnv(&format!("guid|{label}|{}", expected.is_some())) ^ index);
    let desc = json!({"address": addr, "server_sent_guid": server_guid, "client": format!("{result:?}")});
    match (should, result.is_ok()) {
        (true, false) => ctx.finding(index, "refuses-proper-server", "expected-guid", label, desc),
        (false, true) => ctx.finding(index, "succeeds-without-proper-ok", if valid { "guid-differs-from-expected" } else { "invalid-guid" }, label, desc),
        _ => {
            if index % 40 == 0 {
                ctx.sample(desc);
            }
        }
    }
}

pub fn run(ctx: &mut Ctx) {
    let t = templates();
    let files = fd_files();
    let n = t.len() as u64;
    let max_len = if ctx.thorough() { 3 } else { 2 };
    let mut g = 0u64;
    let mut total = 0u64;
    for len in 0..=max_len {
        let count = n.pow(len as u32);
        for s in 0..count {
            for can_fd in [true, false] {
                for trailing_kind in 0..3u32 {
                    total += 1;
                    g += 1;
                    if !ctx.mine(g) || !ctx.want(g) {
                        continue;
                    }
                    let mut x = s;
                    let mut idxs = vec![0usize; len];
                    for j in (0..len).rev() {
                        idxs[j] = (x % n) as usize;
                        x /= n;
                    }
                    let names: Vec<&str> = idxs.iter().map(|i| t[*i].0).collect();
                    let mut reply_bytes = Vec::new();
                    for i in &idxs {
                        reply_bytes.extend_from_slice(&t[*i].1);
                        reply_bytes.extend_from_slice(b"\r\n");
                    }
                    let mut rng = ctx.rng(g);
                    // how many reply lines the client consumes: 1 (OK) + 1 if it negotiates fds
                    let consumed = if can_fd { 2 } else { 1 };
                    let proper = names.len() >= consumed
                        && proper_ok(names[0])
                        && (!can_fd || names[1] == "AGREE" || names[1] == "ERROR");
                    // trailing messages only make sense after exactly the consumed lines
                    let mut trailing: Vec<(Vec<u8>, Vec<OwnedFd>)> = Vec::new();
                    let mut sent_msgs: Vec<(Vec<u8>, Vec<(u64, u64)>)> = Vec::new();
                    if names.len() == consumed && trailing_kind > 0 {
                        let agreed = can_fd && names[1] == "AGREE";
                        let nm = if trailing_kind == 1 { 1 } else { 2 + rng.usize_below(2) };
                        for k in 0..nm {
                            let with_fd = agreed && rng.bool();
                            let mut m = Msg::signal(10 + k as u32, "/t", "t.t", "T").with_body(vec![Val::S(format!("trailing-{k}")), Val::U(k as u32)]);
                            let mut fds = Vec::new();
                            if with_fd {
                                m.body.push(Val::H(0));
                                fds.push(rng.pick(&files).as_fd().try_clone_to_owned().unwrap());
                            }
                            let bytes = m.marshal();
                            sent_msgs.push((bytes.clone(), fds.iter().map(|f| dev_ino(f.as_fd())).collect()));
                            trailing.push((bytes, fds));
                        }
                    } else if trailing_kind > 0 {
                        continue;
                    }
                    let chunks: Vec<usize> = match g % 4 {
                        0 => vec![],
                        1 => vec![1],
                        2 => vec![1 + rng.usize_below(reply_bytes.len().max(1))],
                        _ => (0..4).map(|_| 1 + rng.usize_below(9)).collect(),
                    };
                    let note = format!("replies {} fd={can_fd} trailing={}", names.join(">"), sent_msgs.len());
                    ctx.guarded(g, &note, || json!({"replies": names, "can_fd": can_fd}), |ctx| {
                        ctx.count("evaluations", 1);
                        let (run, got, end, cap) = run_client(&mut rng, can_fd, &reply_bytes, trailing, &chunks, true, true);
                        ctx.distinct(run.sched_fp ^ fnv(&names.join(",")) ^ can_fd as u64);
                        if let Some(cut) = run.partial_cut {
                            ctx.count("class:leftover-ends-inside-a-message", 1);
                            if cut < 16 {
                                ctx.count("class:leftover-ends-inside-fixed-header", 1);
                            }
                        }
                        let ok = matches!(run.result, Some(Ok(_)));
                        ctx.count(if ok { "class:lib-success" } else { "class:lib-failure" }, 1);
                        ctx.count(if proper { "class:proper-server" } else { "class:improper-server" }, 1);
                        let desc = json!({"replies": names, "can_fd": can_fd, "chunks": chunks.len(),
                            "library": match &run.result { Some(Ok(_)) => "connected".to_string(), Some(Err(e)) => format!("error: {e}"), None => "pending".into() },
                            "client_wrote": String::from_utf8_lossy(&run.written).to_string(), "trailing_sent": sent_msgs.len(), "trailing_received": got.len(), "stream_end": end, "fd_capability": cap});
                        if g % 211 == 0 {
                            ctx.sample(desc.clone());
                        }
                        let first_is_proper_ok = names.first().map(|x| proper_ok(x)).unwrap_or(false);
                        if ok && !first_is_proper_ok {
                            ctx.finding(g, "succeeds-without-proper-ok", names.first().copied().unwrap_or("no-reply"), "-", desc.clone());
                        }
                        if proper && !ok {
                            ctx.finding(g, "refuses-proper-server", &names[..consumed].join(">"), "-", desc.clone());
                        }
                        if run.result.is_none() {
                            ctx.finding(g, "handshake-pending-at-quiescence", "-", &names.join(">"), desc.clone());
                        }
                        if ok {
                            let agreed = can_fd && names.get(1) == Some(&"AGREE");
                            match cap {
                                Some(c) if c != agreed => ctx.finding(g, "fd-capability-mismatch", if c { "enabled-without-agreement" } else { "disabled-despite-agreement" }, "-", desc.clone()),
                                None => ctx.finding(g, "fd-capability-unobserved", "-", "-", desc.clone()),
                                _ => {}
                            }
                            if proper && names.len() == consumed {
                                ctx.count("class:leftover-checked", 1);
                                ctx.count("leftover_messages_sent", sent_msgs.len() as u64);
                                let gb: Vec<(&Vec<u8>, &Vec<(u64, u64)>)> = got.iter().map(|x| (&x.bytes, &x.fd_ids)).collect();
                                let sb: Vec<(&Vec<u8>, &Vec<(u64, u64)>)> = sent_msgs.iter().map(|x| (&x.0, &x.1)).collect();
                                if gb != sb {
                                    let reason = if got.len() != sent_msgs.len() { "count" } else if got.iter().zip(&sent_msgs).any(|(a, b)| a.bytes != b.0) { "bytes" } else { "fds" };
                                    ctx.finding(g, "leftover-not-delivered", reason, if sent_msgs.iter().any(|m| !m.1.is_empty()) { "with-fds" } else { "without-fds" }, desc.clone());
                                }
                            }
                        }
                    });
                }
            }
        }
    }
    // random leftover scenarios behind a proper handshake
    let m = ctx.budget(3000, 200_000);
    for j in 0..m {
        let i = 1_000_000_000 + j;
        if !ctx.want(i) {
            continue;
        }
        let mut rng = ctx.rng(i);
        let can_fd = rng.chance(3, 4);
        let agree = can_fd && rng.chance(3, 4);
        let mut reply_bytes = format!("OK {GUID}\r\n").into_bytes();
        if can_fd {
            reply_bytes.extend_from_slice(if agree { b"AGREE_UNIX_FD\r\n" } else { b"ERROR no fds\r\n" });
        }
        let nm = rng.usize_below(7);
        let mut trailing: Vec<(Vec<u8>, Vec<OwnedFd>)> = Vec::new();
        let mut sent_msgs: Vec<(Vec<u8>, Vec<(u64, u64)>)> = Vec::new();
        for k in 0..nm {
            let nf = if agree && rng.chance(1, 2) { 1 + rng.usize_below(2) } else { 0 };
            let mut m = Msg::signal(10 + k as u32, "/t", "t.t", "T").with_body(vec![Val::S("x".repeat(rng.usize_below(40))), Val::U(k as u32)]);
            let mut fds = Vec::new();
            for f in 0..nf {
                m.body.push(Val::H(f as u32));
                fds.push(rng.pick(&files).as_fd().try_clone_to_owned().unwrap());
            }
            let bytes = m.marshal();
            sent_msgs.push((bytes.clone(), fds.iter().map(|f| dev_ino(f.as_fd())).collect()));
            trailing.push((bytes, fds));
        }
        let chunks: Vec<usize> = match rng.below(3) {
            0 => vec![],
            1 => vec![1 + rng.usize_below(reply_bytes.len())],
            _ => (0..3).map(|_| 1 + rng.usize_below(20)).collect(),
        };
        let fdpat: String = sent_msgs.iter().map(|m| if m.1.is_empty() { '-' } else { 'F' }).collect();
        let note = format!("leftover n={nm} fds={fdpat}");
        ctx.guarded(i, &note, || json!({"messages": nm, "fd_pattern": fdpat}), |ctx| {
            ctx.count("evaluations", 1);
            ctx.count("class:leftover-random", 1);
            ctx.count("leftover_messages_sent", sent_msgs.len() as u64);
            let (run, got, end, cap) = run_client(&mut rng, can_fd, &reply_bytes, trailing, &chunks, true, true);
            ctx.distinct(run.sched_fp ^ fnv(&fdpat));
            if let Some(cut) = run.partial_cut {
                ctx.count("class:leftover-ends-inside-a-message", 1);
                if cut < 16 {
                    ctx.count("class:leftover-ends-inside-fixed-header", 1);
                }
            }
            let desc = json!({"can_fd": can_fd, "agreed": agree, "fd_pattern": fdpat, "chunks": chunks,
                "library": match &run.result { Some(Ok(_)) => "connected".to_string(), Some(Err(e)) => format!("error: {e}"), None => "pending".into() },
                "trailing_sent": sent_msgs.len(), "trailing_received": got.len(), "stream_end": end, "fd_capability": cap,
                "recv_calls": run.wire.lock().recv_calls});
            if j < 2 {
                ctx.sample(desc.clone());
            }
            if !matches!(run.result, Some(Ok(_))) {
                ctx.finding(i, "refuses-proper-server", if can_fd { if agree { "OK>AGREE" } else { "OK>ERROR" } } else { "OK" }, "leftover", desc);
                return;
            }
            if cap != Some(agree) {
                ctx.finding(i, "fd-capability-mismatch", "-", "leftover", desc.clone());
            }
            let gb: Vec<(&Vec<u8>, &Vec<(u64, u64)>)> = got.iter().map(|x| (&x.bytes, &x.fd_ids)).collect();
            let sb: Vec<(&Vec<u8>, &Vec<(u64, u64)>)> = sent_msgs.iter().map(|x| (&x.0, &x.1)).collect();
            if gb != sb {
                let reason = if got.len() != sent_msgs.len() { "count" } else if got.iter().zip(&sent_msgs).any(|(a, b)| a.bytes != b.0) { "bytes" } else { "fds" };
                // which shape: does a message without fds precede one with fds inside the leftover?
                let shape = if fdpat.contains("-F") || fdpat.starts_with('-') && fdpat.contains('F') { "nofd-before-fd" } else if fdpat.contains('F') { "fd-first" } else { "no-fds" };
                ctx.finding(i, "leftover-not-delivered", reason, shape, desc);
            }
        });
    }
    if ctx.args.shard == 0 {
        ctx.count("exhaustive_cases_total", total);
    }
    // the expected-GUID clause over a real listening socket (not under Miri)
    let mg = ctx.budget(if ctx.args.layer == "miri" { 0 } else { 200 }, 4_000);
    for j in 0..mg {
        let i = 3_000_000_000 + j;
        if !ctx.want(i) {
            continue;
        }
        let mut rng = ctx.rng(i);
        ctx.guarded(i, "expected-guid", || json!({}), |ctx| guid_case(ctx, i, &mut rng));
    }
}
