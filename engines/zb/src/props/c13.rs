//! C13 — valid messages with unknown header fields, flag bits or message types
//! are tolerated: unknown fields/flags ignored, unknown types skipped, and the
//! connection keeps delivering what follows.

use crate::props::c11::zendian;
use crate::props::c14::run_case;
use serde_json::json;
use std::os::fd::OwnedFd;
use vcommon::Ctx;
use vref::dbus::Endian;
use vref::msg::*;
use vref::prng::{fnv, Rng};
use vref::val::Val;
use zbus::message::Message;
use zbus::zvariant::serialized::{Context, Data};

fn payloads() -> Vec<Val> {
    vec![
        Val::Y(1),
        Val::U(7),
        Val::S("x".into()),
        Val::O("/a".into()),
        Val::G("ai".into()),
        Val::A(vref::sig::Sig::Y, vec![Val::Y(1), Val::Y(2)]),
        Val::St(vec![Val::U(1), Val::S("s".into())]),
        Val::V(Box::new(Val::X(-1))),
        Val::B(true),
        Val::D(0x3ff0000000000000),
    ]
}

fn base(serial: u32) -> Msg {
    Msg::signal(serial, "/a/b", "org.x.Y", "Sig").with_sender(":1.7").with_body(vec![Val::S("payload".into()), Val::U(serial)])
}

fn parse_lib(bytes: &[u8], e: Endian) -> Result<Message, String> {
    let data = Data::new(bytes.to_vec(), Context::new_dbus(zendian(e), 0));
    unsafe { Message::from_bytes(data) }.map_err(|e| e.to_string())
}

/// (a) Message::from_bytes on a valid message carrying an oddity.
fn check_parse(ctx: &mut Ctx, index: u64, kind: &str, which: u32, bytes: &[u8], e: Endian, expect_intact: bool) {
    ctx.count("evaluations", 1);
    ctx.count(&format!("class:parse-{kind}"), 1);
    ctx.distinct(fnv(&format!("parse|{kind}|{which}|{}", e.name())));
    // the reference parser must accept it (validates our construction)
    if let Err(err) = parse(bytes, None) {
        // unknown message types are still well-formed for the reference parser
        ctx.finding(index, "harness-invalid-vector", kind, "-", json!({"error": err, "bytes": vref::hex(bytes)}));
        return;
    }
    match parse_lib(bytes, e) {
        Err(err) => {
            ctx.finding(index, "rejects-message-with-unknown", kind, "from_bytes", json!({"kind": kind, "which": which, "endian": e.name(), "error": err, "bytes": vref::hex(bytes)}));
        }
        Ok(m) => {
            if expect_intact {
                let h = m.header();
                let ok = h.path().map(|p| p.as_str()) == Some("/a/b")
                    && h.interface().map(|p| p.as_str()) == Some("org.x.Y")
                    && h.member().map(|p| p.as_str()) == Some("Sig")
                    && h.sender().map(|p| p.as_str()) == Some(":1.7")
                    && m.body().deserialize::<(String, u32)>().map(|b| b.0 == "payload").unwrap_or(false);
                if !ok {
                    ctx.finding(index, "known-fields-disturbed-by-unknown", kind, "from_bytes", json!({"kind": kind, "which": which, "bytes": vref::hex(bytes)}));
                }
                // "ignored" means the known flags of the same byte still read as sent
                let sent = bytes[2];
                let ph = m.primary_header();
                let got = ph.flags();
                let known = [(1u8, zbus::message::Flags::NoReplyExpected), (2, zbus::message::Flags::NoAutoStart), (4, zbus::message::Flags::AllowInteractiveAuth)];
                ctx.count("known_flag_readbacks", 1);
                for (bit, f) in known {
                    if got.contains(f) != (sent & bit != 0) {
                        ctx.finding(index, "known-flags-disturbed-by-unknown", kind, "from_bytes", json!({"kind": kind, "which": which, "flags_byte_sent": sent, "flags_read": format!("{got:?}"), "bytes": vref::hex(bytes)}));
                        break;
                    }
                }
            }
        }
    }
}

/// (b) the odd message between normal ones on a connection.
fn check_stream(ctx: &mut Ctx, index: u64, kind: &str, which: u32, odd: Vec<u8>, rng: &mut Rng) {
    ctx.count("evaluations", 1);
    ctx.count(&format!("class:stream-{kind}"), 1);
    let before: Vec<Vec<u8>> = (0..1 + rng.usize_below(2)).map(|k| base(100 + k as u32).marshal()).collect();
    let after: Vec<Vec<u8>> = (0..1 + rng.usize_below(3)).map(|k| base(200 + k as u32).marshal()).collect();
    let mut sent: Vec<(Vec<u8>, Vec<OwnedFd>)> = Vec::new();
    for b in &before {
        sent.push((b.clone(), vec![]));
    }
    sent.push((odd.clone(), vec![]));
    for a in &after {
        sent.push((a.clone(), vec![]));
    }
    let total: usize = sent.iter().map(|s| s.0.len()).sum();
    let cuts: Vec<usize> = (0..rng.usize_below(6)).map(|_| 1 + rng.usize_below(total - 1)).collect();
    match run_case(rng, &sent, &cuts, (4, 3, 2)) {
        Err(e) => ctx.finding(index, "harness-or-hang", kind, "stream", json!({"error": e})),
        Ok((got, end, fp, notes)) => {
            ctx.distinct(fp ^ fnv(kind) ^ which as u64);
            let got_bytes: Vec<&Vec<u8>> = got.iter().map(|g| &g.bytes).collect();
            // every normal message must be delivered, in order; the odd one may or may not appear
            let mut want: Vec<&Vec<u8>> = before.iter().collect();
            want.extend(after.iter());
            let normal_got: Vec<&Vec<u8>> = got_bytes.iter().filter(|b| ***b != odd).cloned().collect();
            let delivered_after = after.iter().filter(|a| got_bytes.contains(a)).count();
            let detail = json!({"kind": kind, "which": which, "before": before.len(), "after": after.len(), "received": got.len(),
                                "received_after_the_odd_one": delivered_after, "stream_end": end, "sent_lens": sent.iter().map(|x| x.0.len()).collect::<Vec<_>>(), "got_lens": got.iter().map(|g| g.bytes.len()).collect::<Vec<_>>(), "cuts": cuts, "odd_message": vref::hex(&odd), "notes": notes});
            let end_is_eof = matches!(&end, Some(s) if s.contains("failed to receive message") || s.contains("end of stream"));
            if normal_got != want {
                ctx.finding(index, "messages-after-unknown-not-delivered", kind, "stream", detail);
            } else if !end_is_eof {
                ctx.finding(index, "stream-error-caused-by-unknown", kind, "stream", detail);
            }
        }
    }
}

pub fn run(ctx: &mut Ctx) {
    let mut k = 0u64;
    let pl = payloads();
    // every unknown field code, with several payload types
    for code in 10u32..=255 {
        for (pi, p) in pl.iter().enumerate() {
            // all payloads for a few codes, a rotating one for the rest (thorough: all)
            if !(ctx.thorough() || code < 14 || code > 252 || (code as usize + pi) % pl.len() == 0) {
                continue;
            }
            k += 1;
            if !ctx.mine(k) || !ctx.want(k) {
                continue;
            }
            let mut m = base(5);
            m.endian = if (code + pi as u32) % 2 == 0 { Endian::Le } else { Endian::Be };
            // put the unknown field at the start, middle or end of the array
            let pos = (code as usize + pi) % (m.fields.len() + 1);
            m.fields.insert(pos, (code as u8, p.clone()));
            let bytes = m.marshal();
            let e = m.endian;
            let mut rng = ctx.rng(k);
            if k % 29 == 0 {
                ctx.sample(json!({"kind": "unknown-header-field", "code": code, "payload_signature": p.sig().to_sig_string(), "position_in_field_array": pos, "endian": e.name(), "message": vref::hex(&bytes)}));
            }
            let note = format!("unknown-field code={code} payload={}", p.sig());
            ctx.guarded(k, &note, || json!({"code": code}), |ctx| {
                check_parse(ctx, k, "field-code", code, &bytes, e, true);
                check_stream(ctx, k, "field-code", code, bytes.clone(), &mut rng);
            });
        }
    }
    // every unknown flag bit (alone and combined with known ones)
    for bit in 3u32..8 {
        for known in [0u8, 2, 6] {
            k += 1;
            if !ctx.mine(k) || !ctx.want(k) {
                continue;
            }
            let mut m = base(6);
            m.flags = (1u8 << bit) | known;
            let bytes = m.marshal();
            let mut rng = ctx.rng(k);
            if k % 5 == 0 {
                ctx.sample(json!({"kind": "unknown-flag-bit", "flags": m.flags, "message": vref::hex(&bytes)}));
            }
            let note = format!("unknown-flag bit={bit} known={known}");
            ctx.guarded(k, &note, || json!({"bit": bit}), |ctx| {
                check_parse(ctx, k, "flag-bit", bit, &bytes, Endian::Le, true);
                check_stream(ctx, k, "flag-bit", bit, bytes.clone(), &mut rng);
            });
        }
    }
    // every flags byte with at least one unknown bit (all 248): parsed, known fields and known flags read back
    for flags in 8u32..=255 {
        k += 1;
        if !ctx.mine(k) || !ctx.want(k) {
            continue;
        }
        let mut m = base(8);
        m.flags = flags as u8;
        m.endian = if flags % 2 == 0 { Endian::Le } else { Endian::Be };
        let e = m.endian;
        let bytes = m.marshal();
        let note = format!("flags-byte {flags:#04x}");
        ctx.guarded(k, &note, || json!({"flags": flags}), |ctx| check_parse(ctx, k, "flags-byte", flags, &bytes, e, true));
    }
    // every unknown message type
    for t in 5u32..=255 {
        if !(ctx.thorough() || t < 12 || t > 250 || t % 16 == 0) {
            continue;
        }
        k += 1;
        if !ctx.mine(k) || !ctx.want(k) {
            continue;
        }
        let mut m = base(7);
        m.mtype = t as u8;
        let bytes = m.marshal();
        let mut rng = ctx.rng(k);
        if k % 11 == 0 {
            ctx.sample(json!({"kind": "unknown-message-type", "type": t, "message": vref::hex(&bytes)}));
        }
        let note = format!("unknown-type type={t}");
        ctx.guarded(k, &note, || json!({"type": t}), |ctx| {
            // whether from_bytes yields an item is not judged (no representation); the stream must go on
            ctx.count("evaluations", 1);
            ctx.count("class:parse-msg-type-not-judged", 1);
            check_stream(ctx, k, "msg-type", t, bytes.clone(), &mut rng);
        });
    }

}
