//! C21 — match rules select exactly the messages the specification says.
//! C22 — a match rule's string form parses back to the same rule.

use crate::props::c11::zendian;
use serde_json::json;
use vcommon::Ctx;
use vref::matchrule::*;
use vref::msg::*;
use vref::names::*;
use vref::prng::{fnv, Rng};
use vref::val::{gen_object_path, Val};
use zbus::message::{Message, Type};
use zbus::zvariant::serialized::{Context, Data};
use zbus::MatchRule;

const STR_POOL: &[&str] = &["", "x", "y", "hello", "/aa/bb/", "/aa/", "/aa/bb/cc", "/aa/bb", "/", "/aa/b", "com.example.backend1", "com.example.backend1.foo", "com.example.backend10", "com.example"];
const PATH_POOL: &[&str] = &["/", "/aa", "/aa/bb", "/aa/bb/cc", "/aa/b", "/aa/bbb", "/aa/bb_c", "/x"];
const ARGPATH_POOL: &[&str] = &["/aa/bb/", "/aa/", "/", "/aa/bb", "/aa/bb/cc"];

pub fn lib_rule(r: &RefRule) -> zbus::Result<MatchRule<'static>> {
    let mut b = MatchRule::builder();
    if let Some(t) = r.msg_type {
        b = b.msg_type(match t {
            METHOD_CALL => Type::MethodCall,
            METHOD_RETURN => Type::MethodReturn,
            ERROR => Type::Error,
            _ => Type::Signal,
        });
    }
    if let Some(s) = &r.sender {
        b = b.sender(s.clone())?;
    }
    if let Some(s) = &r.interface {
        b = b.interface(s.clone())?;
    }
    if let Some(s) = &r.member {
        b = b.member(s.clone())?;
    }
    if let Some(s) = &r.path {
        b = b.path(s.clone())?;
    }
    if let Some(s) = &r.path_namespace {
        b = b.path_namespace(s.clone())?;
    }
    if let Some(s) = &r.destination {
        b = b.destination(s.clone())?;
    }
    for (i, v) in &r.args {
        b = b.arg(*i, v.clone())?;
    }
    for (i, v) in &r.arg_paths {
        b = b.arg_path(*i, v.clone())?;
    }
    if let Some(s) = &r.arg0ns {
        b = b.arg0ns(s.clone())?;
    }
    Ok(b.build().into_owned())
}

pub fn gen_rule(rng: &mut Rng, hostile_values: bool) -> RefRule {
    let mut r = RefRule::default();
    if rng.chance(2, 3) {
        r.msg_type = Some(1 + rng.below(4) as u8);
    }
    if rng.chance(1, 3) {
        r.sender = Some(if rng.chance(4, 5) { gen_unique_name(rng) } else { gen_well_known_name(rng) });
    }
    if rng.chance(1, 2) {
        r.interface = Some(gen_interface_name(rng));
    }
    if rng.chance(1, 2) {
        r.member = Some(gen_member_name(rng));
    }
    match rng.below(4) {
        0 => r.path = Some(rng.pick(PATH_POOL).to_string()),
        1 => r.path_namespace = Some(rng.pick(PATH_POOL).to_string()),
        2 if rng.bool() => r.path = Some(gen_object_path(rng)),
        _ => {}
    }
    if rng.chance(1, 4) {
        r.destination = Some(gen_unique_name(rng));
    }
    let nargs = if rng.chance(1, 2) { rng.usize_below(3) } else { 0 };
    let mut used: Vec<u8> = Vec::new();
    for _ in 0..nargs {
        let i = if hostile_values { rng.below(64) as u8 } else { rng.below(4) as u8 };
        if used.contains(&i) {
            continue;
        }
        used.push(i);
        let v = if hostile_values { hostile_string(rng) } else { rng.pick(STR_POOL).to_string() };
        r.args.push((i, v));
    }
    if rng.chance(1, 3) {
        let i = if hostile_values { rng.below(64) as u8 } else { rng.below(4) as u8 };
        if !used.contains(&i) {
            used.push(i);
            r.arg_paths.push((i, rng.pick(ARGPATH_POOL).to_string()));
        }
    }
    if rng.chance(1, 5) && !used.contains(&0) {
        r.arg0ns = Some(rng.pick(&["com.example.backend1", "com.example", "com"]).to_string());
    }
    r
}

fn hostile_string(rng: &mut Rng) -> String {
    let n = rng.usize_below(8);
    let mut s = String::new();
    for _ in 0..n {
        let c = match rng.below(14) {
            0 => '\'',
            1 => ',',
            2 => '\\',
            3 => '=',
            4 => ' ',
            5 => 'é',
            6 => '"',
            7 => '日',
            _ => (0x21 + rng.below(0x5e) as u8) as char,
        };
        s.push(c);
    }
    s
}

/// A message satisfying every key of the rule, then possibly turned into a near miss.
fn gen_message(rng: &mut Rng, r: &RefRule) -> (Msg, &'static str) {
    let mtype = r.msg_type.unwrap_or(1 + rng.below(4) as u8);
    let mut m = Msg::new(mtype, 1 + rng.below(1000) as u32);
    let path = r.path.clone().or_else(|| r.path_namespace.as_ref().map(|ns| match rng.below(3) {
        0 => ns.clone(),
        1 => if ns == "/" { "/zz".to_string() } else { format!("{ns}/sub") },
        _ => if ns == "/" { "/a/b".to_string() } else { format!("{ns}/sub/deeper") },
    })).unwrap_or_else(|| rng.pick(PATH_POOL).to_string());
    let iface = r.interface.clone().unwrap_or_else(|| gen_interface_name(rng));
    let member = r.member.clone().unwrap_or_else(|| gen_member_name(rng));
    match mtype {
        METHOD_CALL | SIGNAL => {
            m.fields.push((F_PATH, Val::O(path)));
            m.fields.push((F_INTERFACE, Val::S(iface)));
            m.fields.push((F_MEMBER, Val::S(member)));
        }
        METHOD_RETURN => {
            m.fields.push((F_REPLY_SERIAL, Val::U(5)));
            if r.path.is_some() || r.path_namespace.is_some() {
                m.fields.push((F_PATH, Val::O(path)));
            }
            if r.interface.is_some() {
                m.fields.push((F_INTERFACE, Val::S(iface)));
            }
            if r.member.is_some() {
                m.fields.push((F_MEMBER, Val::S(member)));
            }
        }
        _ => {
            m.fields.push((F_ERROR_NAME, Val::S("e.r.R".into())));
            m.fields.push((F_REPLY_SERIAL, Val::U(5)));
            if r.path.is_some() || r.path_namespace.is_some() {
                m.fields.push((F_PATH, Val::O(path)));
            }
            if r.interface.is_some() {
                m.fields.push((F_INTERFACE, Val::S(iface)));
            }
            if r.member.is_some() {
                m.fields.push((F_MEMBER, Val::S(member)));
            }
        }
    }
    if let Some(s) = &r.sender {
        if s.starts_with(':') {
            m.fields.push((F_SENDER, Val::S(s.clone())));
        } else {
            m.fields.push((F_SENDER, Val::S(gen_unique_name(rng))));
        }
    } else if rng.bool() {
        m.fields.push((F_SENDER, Val::S(gen_unique_name(rng))));
    }
    if let Some(d) = &r.destination {
        m.fields.push((F_DESTINATION, Val::S(d.clone())));
    } else if rng.chance(1, 3) {
        m.fields.push((F_DESTINATION, Val::S(gen_bus_name(rng))));
    }
    // body: satisfy the arg keys
    let maxidx = r.args.iter().map(|a| a.0).chain(r.arg_paths.iter().map(|a| a.0)).max().map(|x| x as usize + 1).unwrap_or(0).max(if r.arg0ns.is_some() { 1 } else { 0 });
    let nbody = maxidx.max(rng.usize_below(4));
    let mut body: Vec<Val> = (0..nbody).map(|_| match rng.below(4) {
        0 => Val::U(7),
        1 => Val::O(rng.pick(PATH_POOL).to_string()),
        _ => Val::S(rng.pick(STR_POOL).to_string()),
    }).collect();
    for (i, v) in &r.args {
        body[*i as usize] = Val::S(v.clone());
    }
    for (i, v) in &r.arg_paths {
        // a value related to the rule's by the prefix rules
        let choice = match rng.below(6) {
            0 => v.clone(),
            1 => format!("{}cc", if v.ends_with('/') { v.clone() } else { format!("{v}/") }),
            2 => "/".to_string(),
            3 => "/aa/".to_string(),
            4 => v.trim_end_matches('/').to_string(),
            _ => format!("{}x", v.trim_end_matches('/')),
        };
        let choice = if choice.is_empty() { "/".to_string() } else { choice };
        body[*i as usize] = if rng.bool() && valid_object_path(choice.as_bytes()) { Val::O(choice) } else { Val::S(choice) };
    }
    if let Some(ns) = &r.arg0ns {
        body[0] = Val::S(match rng.below(4) {
            0 => ns.clone(),
            1 => format!("{ns}.child"),
            2 => format!("{ns}x.y"),
            _ => "other.name".to_string(),
        });
    }
    m.body = body;
    // near misses
    let kind = match rng.below(14) {
        0 => {
            m.mtype = 1 + (m.mtype % 4);
            // keep the message well-formed for its new type
            let need_path = m.mtype == METHOD_CALL || m.mtype == SIGNAL;
            if need_path && m.path().is_none() {
                m.fields.push((F_PATH, Val::O("/".into())));
            }
            if need_path && m.member().is_none() {
                m.fields.push((F_MEMBER, Val::S("M".into())));
            }
            if m.mtype == SIGNAL && m.interface().is_none() {
                m.fields.push((F_INTERFACE, Val::S("i.f".into())));
            }
            if (m.mtype == METHOD_RETURN || m.mtype == ERROR) && m.reply_serial().is_none() {
                m.fields.push((F_REPLY_SERIAL, Val::U(5)));
            }
            if m.mtype == ERROR && m.error_name().is_none() {
                m.fields.push((F_ERROR_NAME, Val::S("e.r.R".into())));
            }
            "other-type"
        }
        1 => {
            if let Some(f) = m.fields.iter_mut().find(|f| f.0 == F_PATH) {
                let p = match &f.1 { Val::O(p) => p.clone(), _ => "/".into() };
                f.1 = Val::O(match rng.below(4) {
                    0 => format!("{}c", if p == "/" { "/a".to_string() } else { p.clone() }), // sibling with the rule's path as a string prefix
                    1 => p.rsplit_once('/').map(|(a, _)| if a.is_empty() { "/".to_string() } else { a.to_string() }).unwrap_or("/".into()),
                    2 => if p == "/" { "/child".to_string() } else { format!("{p}/child") },
                    _ => "/".to_string(),
                });
            }
            "path-near-miss"
        }
        2 => {
            m.fields.retain(|f| f.0 != F_DESTINATION);
            "no-destination"
        }
        3 => {
            m.fields.retain(|f| f.0 != F_SENDER);
            "no-sender"
        }
        4 => {
            if m.mtype == METHOD_CALL {
                m.fields.retain(|f| f.0 != F_INTERFACE);
            }
            "no-interface"
        }
        5 => {
            if !m.body.is_empty() {
                let i = rng.usize_below(m.body.len());
                m.body[i] = match &m.body[i] {
                    Val::S(s) if valid_object_path(s.as_bytes()) => Val::O(s.clone()),
                    Val::S(_) => Val::U(1),
                    Val::O(s) => Val::S(s.clone()),
                    other => other.clone(),
                };
            }
            "arg-retyped"
        }
        6 => {
            if !m.body.is_empty() {
                m.body.pop();
            }
            "arg-missing"
        }
        7 => {
            if !m.body.is_empty() {
                let i = rng.usize_below(m.body.len());
                if let Val::S(s) = &m.body[i] {
                    m.body[i] = Val::S(format!("{s}x"));
                }
            }
            "arg-changed"
        }
        8 => {
            if let Some(f) = m.fields.iter_mut().find(|f| f.0 == F_MEMBER) {
                f.1 = Val::S("Other".into());
            }
            "other-member"
        }
        9 => {
            if let Some(f) = m.fields.iter_mut().find(|f| f.0 == F_DESTINATION) {
                f.1 = Val::S(":9.99".into());
            }
            "other-destination"
        }
        _ => "hit",
    };
    (m, kind)
}

pub fn to_lib_msg(m: &Msg) -> Result<Message, String> {
    let bytes = m.marshal();
    let data = Data::new(bytes, Context::new_dbus(zendian(m.endian), 0));
    unsafe { Message::from_bytes(data) }.map_err(|e| e.to_string())
}

pub fn run_c21(ctx: &mut Ctx) {
    directed_c21(ctx);
    let n = ctx.budget(200_000, 10_000_000);
    for i in 0..n {
        if !ctx.want(i) {
            continue;
        }
        let mut rng = ctx.rng(i);
        let r = gen_rule(&mut rng, false);
        let (m, kind) = gen_message(&mut rng, &r);
        let rs = r.to_rule_string();
        ctx.guarded(i, "match", || json!({"rule": rs, "kind": kind}), |ctx| check_match(ctx, i, &r, &m, kind));
        if i < 3 {
            ctx.sample(json!({"rule": r.to_rule_string(), "message": format!("{:?}", m.fields), "body": m.body.iter().map(|b| b.show()).collect::<Vec<_>>()}));
        }
    }
}

fn key_class(r: &RefRule, m: &Msg) -> &'static str {
    // which single key decides a mismatch (for the finding locator): evaluate each key alone
    let keys: Vec<(&'static str, RefRule)> = vec![
        ("type", RefRule { msg_type: r.msg_type, ..Default::default() }),
        ("sender", RefRule { sender: r.sender.clone(), ..Default::default() }),
        ("interface", RefRule { interface: r.interface.clone(), ..Default::default() }),
        ("member", RefRule { member: r.member.clone(), ..Default::default() }),
        ("path", RefRule { path: r.path.clone(), ..Default::default() }),
        ("path_namespace", RefRule { path_namespace: r.path_namespace.clone(), ..Default::default() }),
        ("destination", RefRule { destination: r.destination.clone(), ..Default::default() }),
        ("argN", RefRule { args: r.args.clone(), ..Default::default() }),
        ("argNpath", RefRule { arg_paths: r.arg_paths.clone(), ..Default::default() }),
        ("arg0namespace", RefRule { arg0ns: r.arg0ns.clone(), ..Default::default() }),
    ];
    for (name, single) in keys {
        if let (Ok(lr), Ok(lm)) = (lib_rule(&single), to_lib_msg(m)) {
            if let (Some(want), Ok(got)) = (matches(&single, m), lr.matches(&lm)) {
                if want != got {
                    return name;
                }
            }
        }
    }
    "combination"
}

fn check_match(ctx: &mut Ctx, index: u64, r: &RefRule, m: &Msg, kind: &str) {
    ctx.count("evaluations", 1);
    ctx.count(&format!("kind:{kind}"), 1);
    let lr = match lib_rule(r) {
        Ok(x) => x,
        Err(e) => {
            let trailing = r.arg_paths.iter().any(|(_, v)| v.len() > 1 && v.ends_with('/'));
            ctx.finding(index, "rule-build-error", if trailing { "argNpath-value-with-trailing-slash" } else { "-" }, "-", json!({"rule": r.to_rule_string(), "error": e.to_string()}));
            return;
        }
    };
    let lm = match to_lib_msg(m) {
        Ok(x) => x,
        Err(e) => {
            ctx.finding(index, "harness-message-rejected", "-", kind, json!({"error": e, "fields": format!("{:?}", m.fields)}));
            return;
        }
    };
    let want = matches(r, m);
    let got = lr.matches(&lm);
    match (want, got) {
        (None, _) => ctx.count("class:undecidable-well-known-name", 1),
        (Some(w), Ok(g)) => {
            ctx.count(if w { "class:expected-match" } else { "class:expected-no-match" }, 1);
            ctx.distinct(fnv(&format!("{}|{kind}|{w}", r.to_rule_string())));
            if w != g {
                let key = key_class(r, m);
                ctx.finding(index, if g { "matches-but-should-not" } else { "should-match-but-does-not" }, key, "-",
                    json!({"rule": r.to_rule_string(), "message_fields": format!("{:?}", m.fields), "body": m.body.iter().map(|b| b.show()).collect::<Vec<_>>(), "kind": kind, "deciding_key": key}));
            }
        }
        (Some(_), Err(e)) => ctx.finding(index, "matches-error", "-", kind, json!({"rule": r.to_rule_string(), "error": e.to_string()})),
    }
}

fn directed_c21(ctx: &mut Ctx) {
    if ctx.args.shard != 0 {
        return;
    }
    // the specification's own examples
    let mut cases: Vec<(RefRule, Msg)> = Vec::new();
    for p in ["/com/example/foo", "/com/example/foo/bar", "/com/example/foobar", "/com/example", "/"] {
        cases.push((RefRule { path_namespace: Some("/com/example/foo".into()), ..Default::default() }, Msg::signal(1, p, "a.b", "C")));
        cases.push((RefRule { path_namespace: Some("/".into()), ..Default::default() }, Msg::signal(1, p, "a.b", "C")));
    }
    for a in ["/", "/aa/", "/aa/bb/", "/aa/bb/cc/", "/aa/bb/cc", "/aa/b", "/aa", "/aa/bb"] {
        for as_path in [false, true] {
            let v = if as_path && valid_object_path(a.as_bytes()) { Val::O(a.into()) } else { Val::S(a.into()) };
            cases.push((RefRule { arg_paths: vec![(0, "/aa/bb/".into())], ..Default::default() }, Msg::signal(1, "/", "a.b", "C").with_body(vec![v])));
        }
    }
    for a in ["com.example.backend1.foo.bar", "com.example.backend1.foo", "com.example.backend1", "com.example.backend2", "com.example.backend10"] {
        cases.push((RefRule { arg0ns: Some("com.example.backend1".into()), ..Default::default() }, Msg::signal(1, "/", "a.b", "C").with_body(vec![Val::S(a.into())])));
    }
    // destination key vs a message without destination
    cases.push((RefRule { destination: Some(":1.5".into()), ..Default::default() }, Msg::signal(1, "/", "a.b", "C")));
    cases.push((RefRule { destination: Some(":1.5".into()), ..Default::default() }, Msg::signal(1, "/", "a.b", "C").with_destination(":1.5")));
    // argN against an object-path argument (strings only)
    cases.push((RefRule { args: vec![(0, "/a".into())], ..Default::default() }, Msg::signal(1, "/", "a.b", "C").with_body(vec![Val::O("/a".into())])));
    for (k, (r, m)) in cases.into_iter().enumerate() {
        let idx = 9_000_000_000 + k as u64;
        if ctx.want(idx) {
            let rs = r.to_rule_string();
            ctx.guarded(idx, "directed-match", || json!({"rule": rs}), |ctx| check_match(ctx, idx, &r, &m, "directed"));
        }
    }
}

// --------------------------------------------------------------------------
// C22

fn lib_to_ref(l: &MatchRule<'_>) -> RefRule {
    let mut r = RefRule::default();
    r.msg_type = l.msg_type().map(|t| match t {
        Type::MethodCall => METHOD_CALL,
        Type::MethodReturn => METHOD_RETURN,
        Type::Error => ERROR,
        Type::Signal => SIGNAL,
    });
    r.sender = l.sender().map(|s| s.to_string());
    r.interface = l.interface().map(|s| s.to_string());
    r.member = l.member().map(|s| s.to_string());
    match l.path_spec() {
        Some(zbus::match_rule::PathSpec::Path(p)) => r.path = Some(p.to_string()),
        Some(zbus::match_rule::PathSpec::PathNamespace(p)) => r.path_namespace = Some(p.to_string()),
        None => {}
    }
    r.destination = l.destination().map(|s| s.to_string());
    r.args = l.args().iter().map(|(i, s)| (*i, s.to_string())).collect();
    r.arg_paths = l.arg_paths().iter().map(|(i, s)| (*i, s.to_string())).collect();
    r.arg0ns = l.arg0ns().map(|s| s.to_string());
    r
}

fn value_class(r: &RefRule) -> &'static str {
    let vals: Vec<&String> = r.args.iter().map(|a| &a.1).collect();
    if vals.iter().any(|v| v.contains('\'')) {
        "apostrophe-in-value"
    } else if vals.iter().any(|v| v.contains(',')) {
        "comma-in-value"
    } else if vals.iter().any(|v| v.contains('\\')) {
        "backslash-in-value"
    } else if vals.iter().any(|v| v.is_empty()) {
        "empty-value"
    } else {
        "plain-values"
    }
}

fn check_roundtrip(ctx: &mut Ctx, index: u64, r: &RefRule) {
    ctx.count("evaluations", 1);
    let class = value_class(r);
    ctx.count(&format!("class:{class}"), 1);
    if *r == RefRule::default() {
        ctx.count("not_judged_empty_rule", 1);
        return;
    }
    let lr = match lib_rule(r) {
        Ok(x) => x,
        Err(e) => {
            let trailing = r.arg_paths.iter().any(|(_, v)| v.len() > 1 && v.ends_with('/'));
            if trailing {
                ctx.count("not_judged_argpath_trailing_slash", 1);
            } else {
                ctx.finding(index, "rule-build-error", "-", class, json!({"rule": r.to_rule_string(), "error": e.to_string()}));
            }
            return;
        }
    };
    // the accessors give back what was put in
    if lib_to_ref(&lr).canonical() != r.canonical() {
        ctx.finding(index, "accessors-differ-from-input", "-", class, json!({"rule": r.to_rule_string(), "library": format!("{:?}", lib_to_ref(&lr))}));
    }
    let text = lr.to_string();
    ctx.distinct(fnv(&text));
    let detail = |x: serde_json::Value| json!({"rule_reference_form": r.to_rule_string(), "library_string": text, "info": x});
    // a specification-conformant parser reads the same rule
    match parse_rule(&text) {
        Ok(p) => {
            if p.canonical() != r.canonical() {
                ctx.finding(index, "string-form-denotes-other-rule", "spec-parser", class, detail(json!({"parsed": format!("{:?}", p)})));
            }
        }
        Err(e) => ctx.finding(index, "string-form-invalid", "spec-parser", class, detail(json!({"error": e}))),
    }
    // zbus reads the same rule
    match MatchRule::try_from(text.as_str()) {
        Ok(l2) => {
            if l2 != lr {
                ctx.finding(index, "string-form-denotes-other-rule", "library-parser", class, detail(json!({"reparsed": l2.to_string()})));
            }
            // print . parse is stable
            let t2 = l2.to_string();
            if let Ok(l3) = MatchRule::try_from(t2.as_str()) {
                if l3 != l2 || l3.to_string() != t2 {
                    ctx.finding(index, "print-parse-not-stable", "-", class, detail(json!({"second": t2})));
                }
            }
        }
        Err(e) => ctx.finding(index, "string-form-rejected-by-library", "library-parser", class, detail(json!({"error": e.to_string()}))),
    }
    // the serialised form (AddMatch body) is the same string
    if let Ok(d) = zbus::zvariant::to_bytes(Context::new_dbus(zbus::zvariant::LE, 0), &lr) {
        let b = d.bytes();
        if b.len() >= 4 {
            let n = u32::from_le_bytes([b[0], b[1], b[2], b[3]]) as usize;
            if b.get(4..4 + n) != Some(text.as_bytes()) {
                ctx.finding(index, "serialized-form-differs", "-", class, detail(json!({})));
            }
        }
    }
    // strings from the reference grammar: if the library accepts them, parse . print . parse is stable
    let refs = r.to_rule_string();
    if let Ok(l) = MatchRule::try_from(refs.as_str()) {
        ctx.count("class:reference-string-accepted", 1);
        let t = l.to_string();
        match MatchRule::try_from(t.as_str()) {
            Ok(l2) if l2 == l => {
                if lib_to_ref(&l).canonical() != r.canonical() {
                    ctx.finding(index, "reference-string-parsed-to-other-rule", "-", class, json!({"reference_string": refs, "library_rule": format!("{:?}", lib_to_ref(&l))}));
                }
            }
            _ => ctx.finding(index, "print-parse-not-stable", "from-reference-string", class, json!({"reference_string": refs, "library_string": t})),
        }
    } else {
        ctx.count("class:reference-string-rejected", 1);
        if class == "plain-values" {
            ctx.finding(index, "reference-string-rejected", "-", class, json!({"reference_string": refs}));
        }
    }
}

pub fn run_c22(ctx: &mut Ctx) {
    if ctx.args.shard == 0 {
        for (k, v) in ["it's", "a,b", "a\\b", "", "a=b", "'", "''", ",", "\\'", "a','b", "x'\\''y"].iter().enumerate() {
            let idx = 9_000_000_000 + k as u64;
            if ctx.want(idx) {
                let r = RefRule { msg_type: Some(SIGNAL), args: vec![(0, v.to_string())], ..Default::default() };
                let rs = r.to_rule_string();
                ctx.guarded(idx, "directed-roundtrip", || json!({"rule": rs}), |ctx| check_roundtrip(ctx, idx, &r));
            }
        }
    }
    let n = ctx.budget(200_000, 10_000_000);
    for i in 0..n {
        if !ctx.want(i) {
            continue;
        }
        let mut rng = ctx.rng(i);
        let hostile = rng.chance(2, 3);
        let r = gen_rule(&mut rng, hostile);
        let rs = r.to_rule_string();
        ctx.guarded(i, "roundtrip", || json!({"rule": rs}), |ctx| check_roundtrip(ctx, i, &r));
        if i < 3 {
            ctx.sample(json!({"rule": r.to_rule_string()}));
        }
    }
}
