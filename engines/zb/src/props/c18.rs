//! C18 — concurrent sends never interleave on the wire: every message arrives
//! whole, fds travel with a message's first bytes only, per-task order holds.

use crate::harness::sched::{Actor, Sched};
use crate::harness::util::*;
use crate::harness::wire::{dev_ino, Wire};
use crate::props::c14::fd_files;
use serde_json::json;
use std::cell::RefCell;
use std::collections::HashMap;
use std::os::fd::AsFd;
use std::rc::Rc;
use vcommon::Ctx;
use vref::msg::{parse, split_stream};
use vref::prng::{fnv, Rng};
use vref::val::Val;
use zbus::message::Message;
use zbus::zvariant::{Fd, Structure, StructureBuilder, Value};

struct SentRec {
    sender: usize,
    seq: usize,
    bytes: Vec<u8>,
    fd_ids: Vec<(u64, u64)>,
}

fn case(ctx: &mut Ctx, index: u64, rng: &mut Rng) {
    ctx.count("evaluations", 1);
    let files = fd_files();
    let wire = Wire::new(rng.next_u64());
    {
        let mut w = wire.lock();
        w.max_write = *rng.pick(&[1usize, 3, 7, 16, 64, 4096, usize::MAX]);
        w.stall_pct = *rng.pick(&[0u64, 20, 50, 80]);
        if ctx.args.layer == "miri" {
            // the interpreter is ~10^4 times slower: one-byte writes of multi-kilobyte messages with 80 % stalls take
            // more than ten minutes per case there (the monitor and release layers run them)
            w.max_write = w.max_write.max(7);
            w.stall_pct = w.stall_pct.min(50);
        }
    }
    let mut sched = Sched::new(Rng::new(rng.next_u64()));
    let bias = *rng.pick(&[(4u64, 3u64, 2u64), (1, 8, 1), (1, 1, 8), (2, 6, 2)]);
    sched.w_ex = bias.0;
    sched.w_h = bias.1;
    sched.w_net = bias.2;
    let conn = match connect_authenticated(&mut sched, &wire) {
        Ok(c) => c,
        Err(e) => {
            ctx.finding(index, "harness-or-hang", "-", "connect", json!({"error": e}));
            return;
        }
    };
    let nsenders = 2 + rng.usize_below(11);
    let per = 1 + rng.usize_below(6);
    let sent: Rc<RefCell<Vec<SentRec>>> = Rc::new(RefCell::new(Vec::new()));
    let errors: Rc<RefCell<Vec<String>>> = Rc::new(RefCell::new(Vec::new()));
    let mut sender_tasks: Vec<usize> = Vec::new();
    let mut total_bytes = 0u64;
    for s in 0..nsenders {
        // pre-build this sender's messages (unique (sender, seq) in the body, random padding, 0-2 fds)
        let mut msgs: Vec<(Message, Vec<(u64, u64)>)> = Vec::new();
        for q in 0..per {
            let pad = match rng.below(6) {
                0 => 0,
                1 => 1 + rng.usize_below(16),
                2 if ctx.args.layer == "miri" => 400 + rng.usize_below(500),
                2 => 4000 + rng.usize_below(5000),
                _ => rng.usize_below(300),
            };
            let nf = if rng.chance(1, 4) { 1 + rng.usize_below(2) } else { 0 };
            let mut b = StructureBuilder::new().add_field(s as u32).add_field(q as u32).add_field("p".repeat(pad));
            let mut ids = Vec::new();
            let mut keep = Vec::new();
            for _ in 0..nf {
                let f = rng.pick(&files);
                ids.push(dev_ino(f.as_fd()));
                keep.push(f.as_fd());
            }
            for f in &keep {
                b = b.append_field(Value::Fd(Fd::from(*f)));
            }
            let body: Structure<'_> = b.build().unwrap();
            let m = Message::signal("/s", "s.s", "S").unwrap().build(&body).unwrap();
            total_bytes += m.data().bytes().len() as u64;
            msgs.push((m, ids));
        }
        let conn2 = conn.clone();
        let sent2 = sent.clone();
        let err2 = errors.clone();
        let t = sched.spawn(&format!("sender-{s}"), async move {
            for (q, (m, ids)) in msgs.into_iter().enumerate() {
                match conn2.send(&m).await {
                    Ok(()) => sent2.borrow_mut().push(SentRec { sender: s, seq: q, bytes: m.data().bytes().to_vec(), fd_ids: ids }),
                    Err(e) => err2.borrow_mut().push(format!("sender {s} seq {q}: {e}")),
                }
            }
        });
        sender_tasks.push(t);
    }
    let w3 = wire.clone();
    let net = sched.add_net(Box::new(move || w3.unblock_write()));
    let _ = net;
    let mut quiescent = sched.run_to_quiescence();
    // The scheduler's step bound is a harness limit, not a verdict: a large workload over a 1-byte, mostly stalling
    // transport legitimately needs more steps. Keep going for as long as the transport keeps being written to; every
    // write call takes at least one byte, so the number of write calls is bounded by the bytes the senders hold.
    let mut last_calls = wire.lock().write_calls;
    while !quiescent && last_calls <= total_bytes + 64 {
        sched.max_steps += 200_000;
        ctx.count("step_bound_extensions", 1);
        quiescent = sched.run_to_quiescence();
        let now_calls = wire.lock().write_calls;
        if now_calls == last_calls {
            break;
        }
        last_calls = now_calls;
    }
    let hist = std::mem::take(&mut sched.hist);
    let fp = sched.fingerprint();
    let all_done = sender_tasks.iter().all(|t| sched.is_done(*t));
    let trace = sched.trace_string();
    let steps_taken = sched.steps;
    drop(sched);
    ctx.distinct(fp);
    let w = wire.lock();
    let desc = json!({"senders": nsenders, "per_sender": per, "max_write": if w.max_write == usize::MAX { 0 } else { w.max_write }, "stall_pct": w.stall_pct,
                      "write_calls": w.write_calls, "stalls": w.write_stalls, "total_bytes": total_bytes, "steps": steps_taken, "trace": trace});
    if !quiescent || !all_done {
        // quiescent with a sender still pending = a lost wake-up / deadlock; not quiescent = no new write call over 200 000 further steps, or more write calls than bytes to send
        ctx.finding(index, "senders-did-not-finish", if quiescent { "pending-at-quiescence" } else { "not-quiescent-after-extended-steps" }, "-", desc.clone());
        return;
    }
    if !errors.borrow().is_empty() {
        ctx.finding(index, "send-error", "-", "-", json!({"errors": errors.borrow().clone(), "case": desc}));
        return;
    }
    // reference framing of the captured byte stream
    let mut stream = Vec::new();
    let mut call_offsets: Vec<usize> = Vec::new(); // stream offset at which each write call starts
    for r in &w.written {
        call_offsets.push(stream.len());
        stream.extend_from_slice(&r.bytes);
    }
    let (frames, consumed) = match split_stream(&stream) {
        Ok(x) => x,
        Err(e) => {
            ctx.finding(index, "wire-not-framable", "-", "-", json!({"error": e, "case": desc}));
            return;
        }
    };
    if consumed != stream.len() {
        ctx.finding(index, "wire-trailing-partial-message", "-", "-", json!({"consumed": consumed, "total": stream.len(), "case": desc}));
        return;
    }
    let sent = sent.borrow();
    let mut by_bytes: HashMap<&[u8], Vec<usize>> = HashMap::new();
    for (k, s) in sent.iter().enumerate() {
        by_bytes.entry(&s.bytes[..]).or_default().push(k);
    }
    let mut seen = vec![0usize; sent.len()];
    let mut last_seq: HashMap<usize, usize> = HashMap::new();
    let mut offset = 0usize;
    let mut mid_message_interleavings = 0u64;
    for f in &frames {
        let start = offset;
        offset += f.len();
        let Some(ks) = by_bytes.get(&f[..]) else {
            let why = match parse(f, None) {
                Ok(p) => format!("well-formed but not one of ours: {:?}", p.msg.body.first()),
                Err(e) => format!("malformed: {e}"),
            };
            ctx.finding(index, "wire-message-not-sent-by-anyone", "-", "-", json!({"why": why, "at_offset": start, "case": desc}));
            return;
        };
        let k = ks[0];
        seen[k] += 1;
        let s = &sent[k];
        // per-sender order
        if let Some(prev) = last_seq.get(&s.sender) {
            if s.seq <= *prev {
                ctx.finding(index, "per-sender-order-violated", "-", "-", json!({"sender": s.sender, "seq": s.seq, "previous": prev, "case": desc}));
            }
        }
        last_seq.insert(s.sender, s.seq);
        // fds: passed in the call that carries offset 0 of this message and in no other call of it
        let first_call = call_offsets.iter().position(|o| *o == start);
        match first_call {
            None => {
                ctx.finding(index, "message-start-not-at-a-write-call", "-", "-", json!({"at_offset": start, "case": desc}));
            }
            Some(c0) => {
                if w.written[c0].fds != s.fd_ids {
                    ctx.finding(index, "fds-not-with-first-bytes", "-", "-", json!({"expected": format!("{:?}", s.fd_ids), "got": format!("{:?}", w.written[c0].fds), "case": desc}));
                }
                let mut c = c0 + 1;
                while c < call_offsets.len() && call_offsets[c] < start + f.len() {
                    if !w.written[c].fds.is_empty() {
                        ctx.finding(index, "fds-repeated-on-later-chunk", "-", "-", json!({"call": c, "case": desc}));
                    }
                    c += 1;
                }
                // evidence: was another sender polled while this message was partially written?
                if c - c0 > 1 {
                    let (t0, t1) = (w.written[c0].step, w.written[c - 1].step);
                    let me = sender_tasks[s.sender];
                    if hist.iter().any(|(t, a)| *t > t0 && *t < t1 && matches!(a, Actor::H(h) if *h != me && sender_tasks.contains(h))) {
                        mid_message_interleavings += 1;
                    }
                }
            }
        }
    }
    for (k, n) in seen.iter().enumerate() {
        if *n != 1 {
            ctx.finding(index, if *n == 0 { "sent-message-missing-on-wire" } else { "sent-message-duplicated-on-wire" }, "-", "-",
                json!({"sender": sent[k].sender, "seq": sent[k].seq, "times": n, "case": desc}));
        }
    }
    ctx.count("messages_checked", frames.len() as u64);
    ctx.count("class:other-sender-polled-mid-message", mid_message_interleavings);
    ctx.count("write_calls", w.write_calls);
    ctx.count("write_stalls", w.write_stalls);
    if index % 500 == 0 {
        ctx.sample(desc);
    }
}

/// The same property over a REAL socketpair with real threads: T OS threads send through one connection whose socket
/// has a small send buffer (partial writes happen in the kernel); a raw peer thread records every `recvmsg` (bytes and
/// fds). Checked offline: the stream frames into exactly the sent messages, once each, per-sender order, and every fd
/// group arrives with a read that covers the first byte of its message. Runs natively, under ASan, TSan and valgrind.
fn real_case(ctx: &mut Ctx, index: u64, rng: &mut Rng) {
    use crate::harness::realsock::*;
    use std::os::fd::AsRawFd;
    use std::os::unix::net::UnixStream;
    ctx.count("evaluations", 1);
    ctx.count("class:real-socketpair-threads", 1);
    let files = fd_files();
    let (a, mut b) = match UnixStream::pair() {
        Ok(x) => x,
        Err(e) => {
            ctx.problem(&format!("socketpair: {e}"));
            return;
        }
    };
    set_sndbuf(&a, *rng.pick(&[2048, 4096, 16384, 212992]));
    let nthreads = 2 + rng.usize_below(7);
    let per = 1 + rng.usize_below(8);
    // pre-build the messages (Message is Send)
    let mut plan: Vec<Vec<(Message, Vec<(u64, u64)>)>> = Vec::new();
    let mut total_bytes = 0usize;
    for s in 0..nthreads {
        let mut msgs = Vec::new();
        for q in 0..per {
            let pad = match rng.below(8) {
                0 => 0,
                1 => 60_000 + rng.usize_below(80_000),
                2 => 4000 + rng.usize_below(5000),
                _ => rng.usize_below(300),
            };
            let nf = if rng.chance(1, 3) { 1 + rng.usize_below(3) } else { 0 };
            let mut bld = StructureBuilder::new().add_field(s as u32).add_field(q as u32).add_field("p".repeat(pad));
            let mut ids = Vec::new();
            let mut keep = Vec::new();
            for _ in 0..nf {
                let f = rng.pick(&files);
                ids.push(dev_ino(f.as_fd()));
                keep.push(f.as_fd());
            }
            for f in &keep {
                bld = bld.append_field(Value::Fd(Fd::from(*f)));
            }
            let body: Structure<'_> = bld.build().unwrap();
            let m = Message::signal("/s", "s.s", "S").unwrap().build(&body).unwrap();
            total_bytes += m.data().bytes().len();
            msgs.push((m, ids));
        }
        plan.push(msgs);
    }
    // raw peer: handshake, then record every read until EOF
    let peer = std::thread::spawn(move || -> Result<Vec<(Vec<u8>, Vec<(u64, u64)>)>, String> {
        let (_, rest) = raw_server_handshake(&mut b, true).map_err(|e| format!("handshake: {e}"))?;
        let mut reads: Vec<(Vec<u8>, Vec<(u64, u64)>)> = Vec::new();
        if !rest.is_empty() {
            reads.push((rest, vec![]));
        }
        let _ = b.set_read_timeout(Some(std::time::Duration::from_secs(120)));
        let mut buf = vec![0u8; 70_000];
        loop {
            match recv_with_fds(b.as_raw_fd(), &mut buf) {
                Ok((0, _)) => break,
                Ok((n, fds)) => reads.push((buf[..n].to_vec(), fds.iter().map(|f| dev_ino(f.as_fd())).collect())),
                Err(e) if e.kind() == std::io::ErrorKind::Interrupted => continue,
                Err(e) => return Err(format!("recvmsg: {e}")),
            }
        }
        Ok(reads)
    });
    let conn = match zbus::block_on(zbus::connection::Builder::unix_stream(a).p2p().build()) {
        Ok(c) => c,
        Err(e) => {
            ctx.finding(index, "harness-or-hang", "-", "real-connect", json!({"error": e.to_string()}));
            return;
        }
    };
    let mut handles = Vec::new();
    let sent_all: std::sync::Arc<std::sync::Mutex<Vec<(usize, usize, Vec<u8>, Vec<(u64, u64)>)>>> = Default::default();
    let errors: std::sync::Arc<std::sync::Mutex<Vec<String>>> = Default::default();
    for (s, msgs) in plan.into_iter().enumerate() {
        let (c, sa, er) = (conn.clone(), sent_all.clone(), errors.clone());
        handles.push(std::thread::spawn(move || {
            for (q, (m, ids)) in msgs.into_iter().enumerate() {
                match zbus::block_on(c.send(&m)) {
                    Ok(()) => sa.lock().unwrap().push((s, q, m.data().bytes().to_vec(), ids)),
                    Err(e) => er.lock().unwrap().push(format!("sender {s} seq {q}: {e}")),
                }
                if q % 2 == 0 {
                    std::thread::yield_now();
                }
            }
        }));
    }
    for h in handles {
        let _ = h.join();
    }
    // closing: the peer's read loop ends at EOF
    let closed = zbus::block_on(async {
        conn.graceful_shutdown().await;
    });
    let _ = closed;
    let reads = match peer.join() {
        Ok(Ok(r)) => r,
        Ok(Err(e)) => {
            if e.contains("recvmsg") && e.contains("timed out") || e.contains("WouldBlock") {
                ctx.problem(&format!("C18 real-socket case {index}: peer read timed out ({e})"));
            } else {
                ctx.finding(index, "harness-or-hang", "-", "real-peer", json!({"error": e}));
            }
            return;
        }
        Err(_) => {
            ctx.finding(index, "harness-or-hang", "-", "real-peer-panicked", json!({}));
            return;
        }
    };
    let desc = json!({"threads": nthreads, "per_thread": per, "total_bytes": total_bytes, "reads": reads.len()});
    let errs = errors.lock().unwrap().clone();
    if !errs.is_empty() {
        ctx.finding(index, "send-error", "-", "real-socketpair", json!({"errors": errs, "case": desc}));
        return;
    }
    let mut stream = Vec::new();
    let mut read_ranges: Vec<(usize, usize)> = Vec::new();
    for (bytes, _) in &reads {
        read_ranges.push((stream.len(), stream.len() + bytes.len()));
        stream.extend_from_slice(bytes);
    }
    let (frames, consumed) = match split_stream(&stream) {
        Ok(x) => x,
        Err(e) => {
            ctx.finding(index, "wire-not-framable", "-", "real-socketpair", json!({"error": e, "case": desc}));
            return;
        }
    };
    if consumed != stream.len() {
        ctx.finding(index, "wire-trailing-partial-message", "-", "real-socketpair", json!({"consumed": consumed, "total": stream.len(), "case": desc}));
        return;
    }
    let sent = sent_all.lock().unwrap();
    let mut by_bytes: HashMap<&[u8], Vec<usize>> = HashMap::new();
    for (k, s) in sent.iter().enumerate() {
        by_bytes.entry(&s.2[..]).or_default().push(k);
    }
    let mut seen = vec![0usize; sent.len()];
    let mut last_seq: HashMap<usize, usize> = HashMap::new();
    let mut starts: Vec<(usize, usize)> = Vec::new(); // (stream offset of a message's first byte, index into sent)
    let mut offset = 0usize;
    for f in &frames {
        let Some(ks) = by_bytes.get(&f[..]) else {
            ctx.finding(index, "wire-message-not-sent-by-anyone", "-", "real-socketpair", json!({"at_offset": offset, "case": desc}));
            return;
        };
        let k = ks[0];
        seen[k] += 1;
        if let Some(prev) = last_seq.get(&sent[k].0) {
            if sent[k].1 <= *prev {
                ctx.finding(index, "per-sender-order-violated", "-", "real-socketpair", json!({"sender": sent[k].0, "seq": sent[k].1, "previous": prev, "case": desc}));
            }
        }
        last_seq.insert(sent[k].0, sent[k].1);
        starts.push((offset, k));
        offset += f.len();
    }
    for (k, n) in seen.iter().enumerate() {
        if *n != 1 {
            ctx.finding(index, if *n == 0 { "sent-message-missing-on-wire" } else { "sent-message-duplicated-on-wire" }, "-", "real-socketpair", json!({"sender": sent[k].0, "seq": sent[k].1, "times": n, "case": desc}));
        }
    }
    // fds: a read delivers exactly the fd groups of the messages whose first byte it covers (the kernel never hands fds
    // to a read that does not consume the byte they were sent with)
    let mut partial = 0u64;
    for (r, (_, fds)) in reads.iter().enumerate() {
        let (lo, hi) = read_ranges[r];
        let mut want: Vec<(u64, u64)> = Vec::new();
        for (st, k) in &starts {
            if *st >= lo && *st < hi {
                want.extend(sent[*k].3.iter().copied());
            }
        }
        if *fds != want {
            ctx.finding(index, "fds-not-with-first-bytes", if fds.len() > want.len() { "extra-fds" } else { "missing-or-other-fds" }, "real-socketpair", json!({"read": r, "expected": format!("{want:?}"), "got": format!("{fds:?}"), "case": desc}));
            return;
        }
        if starts.iter().any(|(st, k)| *st < lo && st + sent[*k].2.len() > lo) {
            partial += 1;
        }
    }
    ctx.count("messages_checked", frames.len() as u64);
    ctx.count("real_reads_starting_inside_a_message", partial);
    ctx.distinct(fnv(&format!("real|{index}|{}", reads.len())));
}

pub fn run(ctx: &mut Ctx) {
    let only_real = ctx.args.extra.get("only").map(|s| s == "real-socket").unwrap_or(false);
    let n = if only_real { 0 } else { ctx.budget(4000, 200_000) };
    for i in 0..n {
        if !ctx.want(i) {
            continue;
        }
        let mut rng = ctx.rng(i);
        ctx.guarded(i, "concurrent-sends", || json!({}), |ctx| case(ctx, i, &mut rng));
    }
    // real socketpair + real threads (not under Miri: it cannot cross the socket calls)
    let m = ctx.budget(if ctx.args.layer == "miri" { 0 } else { 140 }, 6_000);
    for j in 0..m {
        let i = 5_000_000_000 + j;
        if !ctx.want(i) {
            continue;
        }
        let mut rng = ctx.rng(i);
        ctx.guarded(i, "real-socket-threads", || json!({}), |ctx| real_case(ctx, i, &mut rng));
    }
    let _: Option<Val> = None;
}
