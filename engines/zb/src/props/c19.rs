//! C19 — every method call receives its own reply and only its own reply.
//!
//! Callers are harness futures on a real Connection; the peer is scripted
//! (reference codec) and answers in PRNG order with strays, duplicates,
//! signals and errors mixed in; the call table is checked offline.

use crate::harness::peer::RawPeer;
use crate::harness::sched::{Actor, Sched};
use crate::harness::util::*;
use crate::harness::wire::Wire;
use serde_json::json;
use std::cell::RefCell;
use std::collections::HashMap;
use std::rc::Rc;
use vcommon::Ctx;
use vref::msg::*;
use vref::prng::Rng;
use vref::val::Val;

#[derive(Clone, Debug)]
enum Outcome {
    Return { reply_serial: u32, id: u32, tag: u32 },
    Error { name: String },
    OtherErr(String),
    Malformed(String),
}

#[derive(Clone, Debug, PartialEq)]
enum Plan {
    Return(u32),
    Error(String),
    Never,
}

struct PeerState {
    peer: RawPeer,
    /// call serial -> (caller id from the body, no-reply flag)
    calls: HashMap<u32, (u32, bool)>,
    order: Vec<u32>,
    unanswered: Vec<u32>,
    plans: HashMap<u32, Plan>,
    /// inbound stream end offset of the reply to serial
    reply_end: HashMap<u32, usize>,
    answered: Vec<u32>,
    strays: u64,
    duplicates: u64,
    signals: u64,
    rng: Rng,
    never_pct: u64,
}

impl PeerState {
    fn absorb(&mut self) {
        for p in self.peer.pump() {
            if p.msg.mtype == METHOD_CALL {
                let id = match p.msg.body.first() {
                    Some(Val::U(x)) => *x,
                    _ => u32::MAX,
                };
                let noreply = p.msg.flags & FLAG_NO_REPLY != 0;
                self.calls.insert(p.msg.serial, (id, noreply));
                self.order.push(p.msg.serial);
                if !noreply {
                    self.unanswered.push(p.msg.serial);
                }
            }
        }
    }

    /// One peer action: answer a random outstanding call or inject noise. Returns whether anything was staged.
    fn act(&mut self) -> bool {
        self.absorb();
        let chunks: Vec<usize> = match self.rng.below(4) {
            0 => vec![],
            1 => vec![1 + self.rng.usize_below(20)],
            2 => vec![16],
            _ => vec![1 + self.rng.usize_below(5), 40],
        };
        // noise first, sometimes
        match self.rng.below(10) {
            0 => {
                // stray return/error for a serial nobody used
                let bogus = 0x7000_0000 + self.rng.below(1000) as u32;
                let s = self.peer.serial();
                let m = if self.rng.bool() {
                    Msg::method_return(s, bogus).with_body(vec![Val::U(u32::MAX), Val::U(666)])
                } else {
                    Msg::error(s, bogus, "stray.Error").with_body(vec![Val::S("stray".into())])
                };
                self.peer.send(&m, vec![], &chunks);
                self.strays += 1;
                return true;
            }
            1 if !self.answered.is_empty() => {
                // duplicate reply for an already answered serial, with a different tag
                let rs = *self.rng.pick(&self.answered);
                let s = self.peer.serial();
                let id = self.calls.get(&rs).map(|c| c.0).unwrap_or(0);
                let m = Msg::method_return(s, rs).with_body(vec![Val::U(id), Val::U(999_999)]);
                self.peer.send(&m, vec![], &chunks);
                self.duplicates += 1;
                return true;
            }
            2 => {
                let s = self.peer.serial();
                let m = Msg::signal(s, "/noise", "n.n", "Noise").with_body(vec![Val::U(s)]);
                self.peer.send(&m, vec![], &chunks);
                self.signals += 1;
                return true;
            }
            _ => {}
        }
        if self.unanswered.is_empty() {
            return false;
        }
        let k = self.rng.usize_below(self.unanswered.len());
        let rs = self.unanswered.remove(k);
        let (id, _) = self.calls[&rs];
        let plan = if self.rng.chance(self.never_pct, 100) {
            Plan::Never
        } else if self.rng.chance(1, 5) {
            Plan::Error(format!("peer.Error{}", self.rng.below(5)))
        } else {
            Plan::Return(self.rng.next_u32() & 0xffff)
        };
        self.plans.insert(rs, plan.clone());
        let s = self.peer.serial();
        match plan {
            Plan::Never => return true,
            Plan::Return(tag) => {
                let m = Msg::method_return(s, rs).with_body(vec![Val::U(id), Val::U(tag)]);
                let end = self.peer.send(&m, vec![], &chunks);
                self.reply_end.insert(rs, end);
            }
            Plan::Error(name) => {
                let m = Msg::error(s, rs, &name).with_body(vec![Val::S(format!("for {id}"))]);
                let end = self.peer.send(&m, vec![], &chunks);
                self.reply_end.insert(rs, end);
            }
        }
        self.answered.push(rs);
        true
    }
}

fn case(ctx: &mut Ctx, index: u64, rng: &mut Rng) {
    ctx.count("evaluations", 1);
    let wire = Wire::new(rng.next_u64());
    {
        let mut w = wire.lock();
        w.max_write = *rng.pick(&[7usize, 64, usize::MAX, usize::MAX]);
        w.stall_pct = *rng.pick(&[0u64, 0, 30]);
    }
    let mut sched = Sched::new(Rng::new(rng.next_u64()));
    // biases: starve callers (reply processed before the caller is polled again), starve the network, fair
    let bias = *rng.pick(&[(6u64, 1u64, 6u64), (4, 3, 2), (1, 6, 1), (8, 1, 2), (2, 2, 6)]);
    sched.w_ex = bias.0;
    sched.w_h = bias.1;
    sched.w_net = bias.2;
    let conn = match connect_authenticated(&mut sched, &wire) {
        Ok(c) => c,
        Err(e) => {
            ctx.finding(index, "harness-or-hang", "-", "connect", json!({"error": e}));
            return;
        }
    };
    let ncallers = 1 + rng.usize_below(24);
    let never_pct = *rng.pick(&[0u64, 0, 10, 30]);
    let results: Rc<RefCell<HashMap<u32, Outcome>>> = Rc::new(RefCell::new(HashMap::new()));
    let ps = Rc::new(RefCell::new(PeerState {
        peer: RawPeer::new(&wire),
        calls: HashMap::new(),
        order: Vec::new(),
        unanswered: Vec::new(),
        plans: HashMap::new(),
        reply_end: HashMap::new(),
        answered: Vec::new(),
        strays: 0,
        duplicates: 0,
        signals: 0,
        rng: Rng::new(rng.next_u64()),
        never_pct,
    }));
    let mut tasks: HashMap<u32, usize> = HashMap::new();
    let mut noreply_ids: Vec<u32> = Vec::new();
    let proxy_slot: Slot<zbus::Proxy<'static>> = slot();
    // a proxy for no-reply calls
    {
        let conn2 = conn.clone();
        let ps2 = proxy_slot.clone();
        let t = sched.spawn("proxy-build", async move {
            let p = zbus::proxy::Builder::<zbus::Proxy<'static>>::new(&conn2)
                .destination("x.y")
                .unwrap()
                .path("/nr")
                .unwrap()
                .interface("nr.If")
                .unwrap()
                .cache_properties(zbus::proxy::CacheProperties::No)
                .build()
                .await;
            if let Ok(p) = p {
                *ps2.borrow_mut() = Some(p);
            }
        });
        sched.run_until_done(t);
    }
    for c in 0..ncallers {
        let id = c as u32 + 1;
        let conn2 = conn.clone();
        let res2 = results.clone();
        let noreply = rng.chance(1, 8) && proxy_slot.borrow().is_some();
        if noreply {
            noreply_ids.push(id);
            let p = proxy_slot.borrow().as_ref().unwrap().clone();
            let t = sched.spawn(&format!("noreply-{id}"), async move {
                let r = p.call_noreply("NoReply", &(id,)).await;
                res2.borrow_mut().insert(id, match r {
                    Ok(()) => Outcome::Return { reply_serial: 0, id, tag: 0 },
                    Err(e) => Outcome::OtherErr(e.to_string()),
                });
            });
            tasks.insert(id, t);
            continue;
        }
        let t = sched.spawn(&format!("caller-{id}"), async move {
            let r = conn2.call_method(None::<&str>, "/obj", Some("obj.If"), "Call", &(id,)).await;
            let o = match r {
                Ok(m) => match m.body().deserialize::<(u32, u32)>() {
                    Ok((rid, tag)) => Outcome::Return { reply_serial: m.header().reply_serial().map(|x| x.get()).unwrap_or(0), id: rid, tag },
                    Err(e) => Outcome::Malformed(e.to_string()),
                },
                Err(zbus::Error::MethodError(name, _, _)) => Outcome::Error { name: name.to_string() },
                Err(e) => Outcome::OtherErr(e.to_string()),
            };
            res2.borrow_mut().insert(id, o);
        });
        tasks.insert(id, t);
    }
    let w2 = wire.clone();
    let net_release = sched.add_net(Box::new(move || w2.release_one()));
    let w3 = wire.clone();
    sched.add_net(Box::new(move || w3.unblock_write()));
    let ps2 = ps.clone();
    sched.add_net(Box::new(move || ps2.borrow_mut().act()));
    // cancel some callers after a while
    let cancel_n = if rng.chance(1, 3) { rng.usize_below(ncallers.min(4) + 1) } else { 0 };
    let warm = 5 + rng.below(60);
    sched.run_steps(warm);
    let mut cancelled: Vec<u32> = Vec::new();
    // Only calls that are completely on the wire are cancelled (what a user-side timeout on the
    // reply does). Dropping a future in the middle of a partial write is outside the property
    // (it leaves half a message on the wire; noted in DESIGN.md as an observation).
    ps.borrow_mut().absorb();
    let on_wire: Vec<u32> = ps.borrow().calls.values().map(|c| c.0).collect();
    let boundary = {
        let all = wire.all_written();
        matches!(vref::msg::split_stream(&all), Ok((_, used)) if used == all.len())
    };
    for _ in 0..cancel_n {
        let id = 1 + rng.below(ncallers as u64) as u32;
        let _ = boundary;
        if !on_wire.contains(&id) {
            continue;
        }
        if !cancelled.contains(&id) && !sched.is_done(tasks[&id]) && !noreply_ids.contains(&id) {
            sched.cancel(tasks[&id]);
            cancelled.push(id);
        }
    }
    let wp = wire.clone();
    let q1 = sched.run_to_quiescence_while(|| wp.io_progress());
    let hist1 = sched.hist.clone();
    // phase 2: every call the peer decided never to answer is still pending; fail the transport
    let pending_before: Vec<u32> = tasks.iter().filter(|(id, t)| !sched.is_done(**t) && !cancelled.contains(id)).map(|(id, _)| *id).collect();
    wire.fail(if rng.bool() { Some(std::io::ErrorKind::ConnectionReset) } else { None });
    let q2 = sched.run_to_quiescence_while(|| wp.io_progress());
    let still_pending: Vec<u32> = tasks.iter().filter(|(id, t)| !sched.is_done(**t) && !cancelled.contains(id)).map(|(id, _)| *id).collect();
    let fp = sched.fingerprint();
    let trace = sched.trace_string();
    drop(sched);
    ctx.distinct(fp);
    let st = ps.borrow();
    let res = results.borrow();
    let desc = json!({"callers": ncallers, "never_pct": never_pct, "cancelled": cancelled, "strays": st.strays, "duplicates": st.duplicates, "signals": st.signals,
                      "bias": format!("{bias:?}"), "trace": trace});
    if !q1 || !q2 {
        ctx.finding(index, "step-bound-hit", "-", "-", desc.clone());
        return;
    }
    if !st.peer.parse_errors.is_empty() {
        ctx.finding(index, "peer-could-not-parse-zbus-output", "-", "-", json!({"errors": st.peer.parse_errors, "case": desc}));
    }
    // id -> serial from what the peer saw
    let mut serial_of: HashMap<u32, u32> = HashMap::new();
    for (s, (id, _)) in &st.calls {
        if serial_of.insert(*id, *s).is_some() {
            ctx.finding(index, "call-sent-twice", "-", "-", json!({"id": id, "case": desc}));
        }
    }
    let mut out_of_order = 0u64;
    let mut reply_before_poll = 0u64;
    for id in 1..=ncallers as u32 {
        if cancelled.contains(&id) {
            ctx.count("class:cancelled", 1);
            continue;
        }
        let Some(serial) = serial_of.get(&id).cloned() else {
            // the call never reached the wire: must have failed
            match res.get(&id) {
                Some(Outcome::OtherErr(_)) => {}
                other => ctx.finding(index, "call-not-on-wire-yet-not-failed", "-", "-", json!({"id": id, "outcome": format!("{other:?}"), "case": desc})),
            }
            continue;
        };
        if noreply_ids.contains(&id) {
            ctx.count("class:no-reply-expected", 1);
            // completes right after the send, with no inbound traffic needed: it must be done by the end of phase 1
            if pending_before.contains(&id) {
                ctx.finding(index, "no-reply-call-waits", "-", "-", json!({"id": id, "case": desc}));
            }
            if !st.calls[&serial].1 {
                ctx.finding(index, "no-reply-flag-missing-on-wire", "-", "-", json!({"id": id, "case": desc}));
            }
            continue;
        }
        let plan = st.plans.get(&serial);
        let outcome = res.get(&id);
        match (plan, outcome) {
            (Some(Plan::Return(tag)), Some(Outcome::Return { reply_serial, id: rid, tag: rtag })) => {
                ctx.count("class:returned", 1);
                if *reply_serial != serial || *rid != id || rtag != tag {
                    ctx.finding(index, "wrong-reply-delivered", if *reply_serial != serial { "other-serial" } else { "other-body" }, "-",
                        json!({"id": id, "serial": serial, "got_reply_serial": reply_serial, "got_id": rid, "got_tag": rtag, "expected_tag": tag, "case": desc}));
                }
            }
            (Some(Plan::Error(name)), Some(Outcome::Error { name: got })) => {
                ctx.count("class:error-reply", 1);
                if got != name {
                    ctx.finding(index, "wrong-reply-delivered", "other-error", "-", json!({"id": id, "expected": name, "got": got, "case": desc}));
                }
            }
            (Some(Plan::Never) | None, Some(Outcome::OtherErr(_))) => {
                ctx.count("class:failed-on-transport-error", 1);
                if !pending_before.contains(&id) {
                    // it failed before the transport did: only legitimate if it was never answered AND ... no: it must wait
                    ctx.finding(index, "unanswered-call-completed-early", "-", "-", json!({"id": id, "outcome": format!("{outcome:?}"), "case": desc}));
                }
            }
            (Some(Plan::Return(_)) | Some(Plan::Error(_)), Some(Outcome::OtherErr(e))) => {
                // the reply was staged but the transport failed first? only if it was not yet delivered at failure time
                if !pending_before.contains(&id) {
                    ctx.finding(index, "answered-call-failed", "-", "-", json!({"id": id, "error": e, "case": desc}));
                } else {
                    ctx.count("class:reply-lost-to-transport-failure", 1);
                }
            }
            (_, None) => {
                ctx.finding(index, "call-never-completed", if still_pending.contains(&id) { "pending-after-transport-failure" } else { "no-result" }, "-",
                    json!({"id": id, "plan": format!("{plan:?}"), "case": desc}));
            }
            (p, o) => {
                ctx.finding(index, "wrong-reply-delivered", "kind-mismatch", "-", json!({"id": id, "plan": format!("{p:?}"), "outcome": format!("{o:?}"), "case": desc}));
            }
        }
        // evidence classes
        if let Some(end) = st.reply_end.get(&serial) {
            let w = wire.lock();
            let t_written = w.written.iter().rev().find(|r| !r.bytes.is_empty()).map(|_| 0).unwrap_or(0);
            let _ = t_written;
            // delivered time of the reply's last byte
            if let Some((_, t_del)) = w.delivered_at.iter().find(|(b, _)| *b >= *end) {
                let task = tasks[&id];
                // first poll of the caller after the reply was fully delivered
                let first_poll_after = hist1.iter().find(|(t, a)| *t > *t_del && *a == Actor::H(task)).map(|(t, _)| *t);
                let ex_between = hist1.iter().filter(|(t, a)| *t > *t_del && first_poll_after.map_or(true, |p| *t < p) && matches!(a, Actor::Ex(_))).count();
                // was the caller's previous poll before the delivery (i.e. it had not looked since)?
                if ex_between >= 1 {
                    reply_before_poll += 1;
                }
            }
        }
    }
    // replies answered out of call order
    let mut pos: HashMap<u32, usize> = HashMap::new();
    for (k, s) in st.order.iter().enumerate() {
        pos.insert(*s, k);
    }
    for w in st.answered.windows(2) {
        if pos.get(&w[1]) < pos.get(&w[0]) {
            out_of_order += 1;
        }
    }
    ctx.count("class:reply-processed-before-caller-polled", reply_before_poll);
    ctx.count("class:out-of-order-replies", out_of_order);
    ctx.count("class:stray-replies", st.strays);
    ctx.count("class:duplicate-replies", st.duplicates);
    ctx.count("class:interleaved-signals", st.signals);
    ctx.count("calls_checked", ncallers as u64);
    if index % 300 == 0 {
        ctx.sample(desc);
    }
    let _ = net_release;
}

/// The configured method timeout: real time (the library's timer lives in the async-io reactor thread), so this class
/// alternates scheduler steps with short sleeps. Verdicts: a call answered in time succeeds; an unanswered call fails with
/// a timed-out error NOT EARLIER than the timeout (timers never fire early) and within 300x the timeout; a reply that
/// arrives after its call timed out disturbs nothing; the connection keeps working.
fn timeout_case(ctx: &mut Ctx, index: u64, rng: &mut Rng) {
    use std::time::{Duration, Instant};
    ctx.count("evaluations", 1);
    ctx.count("class:method-timeout", 1);
    let wire = Wire::new(rng.next_u64());
    let mut sched = Sched::new(Rng::new(rng.next_u64()));
    let tmo = Duration::from_millis(*rng.pick(&[40u64, 60, 100]));
    let out: Slot<zbus::Result<zbus::Connection>> = slot();
    let o2 = out.clone();
    let sock = wire.socket();
    let t = sched.spawn("build", async move {
        let r = async { zbus::connection::Builder::authenticated_socket(sock, zbus::Guid::try_from(GUID).unwrap())?.p2p().internal_executor(false).method_timeout(tmo).build().await }.await;
        *o2.borrow_mut() = Some(r);
    });
    sched.run_until_done(t);
    let conn = match out.borrow_mut().take() {
        Some(Ok(c)) => c,
        other => {
            ctx.finding(index, "harness-or-hang", "-", "connect", json!({"error": format!("{:?}", other.map(|r| r.map(|_| ())))}));
            return;
        }
    };
    sched.add_executor(conn.executor().clone());
    let w2 = wire.clone();
    sched.add_net(Box::new(move || w2.release_one()));
    let mut peer = RawPeer::new(&wire);
    let n = 2 + rng.usize_below(5);
    // which calls the peer answers in time / late / never
    let fates: Vec<u8> = (0..n).map(|_| rng.below(3) as u8).collect();
    let results: Rc<RefCell<Vec<Option<(Result<u32, String>, Duration)>>>> = Rc::new(RefCell::new(vec![None; n]));
    let start = Instant::now();
    for k in 0..n {
        let (c, r) = (conn.clone(), results.clone());
        sched.spawn(&format!("caller-{k}"), async move {
            let t0 = Instant::now();
            let res = c.call_method(None::<&str>, "/t", Some("t.T"), "M", &(k as u32,)).await;
            let v = match res {
                Ok(m) => m.body().deserialize::<u32>().map_err(|e| format!("body: {e}")),
                Err(zbus::Error::InputOutput(e)) if e.kind() == std::io::ErrorKind::TimedOut => Err("timed-out".to_string()),
                Err(e) => Err(format!("other: {e}")),
            };
            r.borrow_mut()[k] = Some((v, t0.elapsed()));
        });
    }
    sched.run_to_quiescence();
    // the peer sees the calls; answer the in-time ones now
    let calls = peer.pump();
    let mut serial_of: HashMap<u32, u32> = HashMap::new();
    for c in &calls {
        if let Some(Val::U(k)) = c.msg.body.first() {
            serial_of.insert(*k, c.msg.serial);
        }
    }
    if serial_of.len() != n {
        ctx.finding(index, "calls-not-sent", "-", "method-timeout", json!({"sent": serial_of.len(), "expected": n}));
        return;
    }
    for k in 0..n {
        if fates[k] == 0 {
            let s = peer.serial();
            peer.send(&Msg::method_return(s, serial_of[&(k as u32)]).with_body(vec![Val::U(1000 + k as u32)]), vec![], &[]);
        }
    }
    // real time passes: alternate scheduling and short sleeps until every caller is done (bounded at 300x the timeout)
    let bound = tmo * 300;
    loop {
        sched.run_to_quiescence();
        if results.borrow().iter().all(|r| r.is_some()) {
            break;
        }
        if start.elapsed() > bound + Duration::from_secs(5) {
            break;
        }
        std::thread::sleep(Duration::from_millis(3));
    }
    let desc = json!({"timeout_ms": tmo.as_millis() as u64, "fates(0=answered,1=late,2=never)": fates, "results": results.borrow().iter().map(|r| format!("{r:?}")).collect::<Vec<_>>()});
    for k in 0..n {
        ctx.count("calls_checked", 1);
        let r = results.borrow()[k].clone();
        match (fates[k], r) {
            (0, Some((Ok(v), _))) if v == 1000 + k as u32 => {}
            (0, other) => {
                ctx.finding(index, "answered-call-did-not-succeed", "-", "method-timeout", json!({"call": k, "result": format!("{other:?}"), "case": desc}));
                return;
            }
            (_, None) => {
                ctx.finding(index, "unanswered-call-still-pending-300x-after-the-timeout", "-", "method-timeout", json!({"call": k, "case": desc}));
                return;
            }
            (_, Some((Err(e), took))) if e == "timed-out" => {
                ctx.count("class:timed-out-call", 1);
                if took + Duration::from_millis(2) < tmo {
                    ctx.finding(index, "timeout-fired-early", "-", "method-timeout", json!({"call": k, "took_ms": took.as_millis() as u64, "case": desc}));
                    return;
                }
            }
            (_, Some(other)) => {
                ctx.finding(index, "unanswered-call-completed-otherwise", "-", "method-timeout", json!({"call": k, "result": format!("{other:?}"), "case": desc}));
                return;
            }
        }
    }
    // late replies for calls that already timed out, then a fresh call that is answered: nothing may be disturbed
    for k in 0..n {
        if fates[k] == 1 {
            let s = peer.serial();
            peer.send(&Msg::method_return(s, serial_of[&(k as u32)]).with_body(vec![Val::U(1000 + k as u32)]), vec![], &[]);
            ctx.count("class:late-reply-after-timeout", 1);
        }
    }
    sched.run_to_quiescence();
    let fresh: Slot<Result<u32, String>> = slot();
    let (f2, c2) = (fresh.clone(), conn.clone());
    sched.spawn("fresh-caller", async move {
        let r = c2.call_method(None::<&str>, "/t", Some("t.T"), "M", &(777u32,)).await;
        *f2.borrow_mut() = Some(r.map_err(|e| e.to_string()).and_then(|m| m.body().deserialize::<u32>().map_err(|e| e.to_string())));
    });
    sched.run_to_quiescence();
    if let Some(c) = peer.pump().iter().find(|c| c.msg.body.first() == Some(&Val::U(777))) {
        let s = peer.serial();
        peer.send(&Msg::method_return(s, c.msg.serial).with_body(vec![Val::U(4242)]), vec![], &[]);
    }
    sched.run_to_quiescence();
    let fr = fresh.borrow().clone();
    if fr != Some(Ok(4242)) {
        ctx.finding(index, "call-after-timeouts-did-not-succeed", "-", "method-timeout", json!({"result": format!("{fr:?}"), "case": desc}));
        return;
    }
    ctx.distinct(sched.fingerprint() ^ index);
    ctx.sample(desc);
}

// ---------------------------------------------------------------------------------------------------------------
// Class "real-daemon": several OS threads of one connection call a service on another connection through a PRIVATE real
// dbus-daemon, all at once, each call carrying a unique number that the service echoes back (as a return or inside an
// error, after a delay that shuffles the reply order). Every caller must get exactly the answer to its own call. The
// service is the library's own object server (its handlers run concurrently), so both ends are real.

#[cfg(not(miri))]
mod real {
    use crate::harness::realbus::*;
    use serde_json::json;
    use std::time::Duration;
    use vcommon::Ctx;
    use vref::prng::{fnv, Rng};

    struct Echo;

    #[zbus::interface(name = "t.Echo")]
    impl Echo {
        /// Answers with the number it was given; the delay (taken from the number) makes replies overtake each other.
        async fn echo(&self, n: u64) -> u64 {
            let d = (n >> 56) & 0x7;
            if d > 0 {
                async_io_sleep(Duration::from_micros(150 * d)).await;
            }
            n
        }

        async fn fail(&self, n: u64) -> zbus::fdo::Result<u64> {
            let d = (n >> 56) & 0x3;
            if d > 0 {
                async_io_sleep(Duration::from_micros(200 * d)).await;
            }
            Err(zbus::fdo::Error::Failed(format!("no:{n}")))
        }
    }

    /// A timer that needs no particular runtime: a helper thread completes the future.
    async fn async_io_sleep(d: Duration) {
        let (tx, rx) = one_shot();
        std::thread::spawn(move || {
            std::thread::sleep(d);
            tx();
        });
        rx.await;
    }

    /// A one-shot (closure to fire, future to await) built on event-listener.
    fn one_shot() -> (Box<dyn FnOnce() + Send>, std::pin::Pin<Box<dyn std::future::Future<Output = ()> + Send>>) {
        let ev = std::sync::Arc::new(event_listener::Event::new());
        let flag = std::sync::Arc::new(std::sync::atomic::AtomicBool::new(false));
        let (e2, f2) = (ev.clone(), flag.clone());
        let fire = Box::new(move || {
            f2.store(true, std::sync::atomic::Ordering::SeqCst);
            e2.notify(usize::MAX);
        });
        let wait = Box::pin(async move {
            loop {
                if flag.load(std::sync::atomic::Ordering::SeqCst) {
                    return;
                }
                let l = ev.listen();
                if flag.load(std::sync::atomic::Ordering::SeqCst) {
                    return;
                }
                l.await;
            }
        });
        (fire, wait)
    }

    pub fn history(ctx: &mut Ctx, index: u64, rng: &mut Rng, daemon: &Daemon) -> Result<(), String> {
        ctx.count("evaluations", 1);
        ctx.count("class:real-daemon", 1);
        let service = zbus::blocking::connection::Builder::address(daemon.address.as_str())
            .and_then(|b| b.serve_at("/e", Echo))
            .and_then(|b| b.build())
            .map_err(|e| format!("cannot start the echo service on the private bus: {e}"))?;
        let dest = service.unique_name().map(|u| u.to_string()).ok_or("no unique name")?;
        let a = daemon.connect()?;
        let threads = 2 + rng.usize_below(7);
        let per = if ctx.thorough() { 20 + rng.usize_below(80) } else { 10 + rng.usize_below(30) };
        let mut joins = Vec::new();
        for t in 0..threads {
            let conn = a.clone();
            let dest = dest.clone();
            let mut trng = Rng::new(rng.next_u64());
            joins.push(std::thread::spawn(move || {
                // (what was asked, what came back)
                let mut out: Vec<(u64, bool, Result<u64, String>)> = Vec::new();
                for k in 0..per {
                    let n: u64 = (trng.below(8) << 56) | ((t as u64) << 32) | k as u64;
                    let fail = trng.chance(1, 4);
                    let r = conn.call_method(Some(dest.as_str()), "/e", Some("t.Echo"), if fail { "Fail" } else { "Echo" }, &(n,));
                    let got = match r {
                        Ok(m) => m.body().deserialize::<u64>().map_err(|e| format!("body: {e}")),
                        Err(zbus::Error::MethodError(name, text, _)) => Err(format!("{}:{}", name.as_str(), text.unwrap_or_default())),
                        Err(e) => Err(format!("other: {e}")),
                    };
                    out.push((n, fail, got));
                }
                out
            }));
        }
        let (tx, rx) = std::sync::mpsc::channel();
        std::thread::spawn(move || {
            let out: Vec<_> = joins.into_iter().map(|j| j.join()).collect();
            let _ = tx.send(out);
        });
        let out = rx.recv_timeout(Duration::from_secs(180)).map_err(|_| format!("C19 real-daemon history {index}: {threads} callers x {per} calls did not finish within 180 s"))?;
        for (t, j) in out.into_iter().enumerate() {
            let calls = match j {
                Ok(c) => c,
                Err(e) => std::panic::resume_unwind(e),
            };
            for (n, fail, got) in calls {
                ctx.count("real_calls_checked", 1);
                let ok = match (&got, fail) {
                    (Ok(v), false) => *v == n,
                    (Err(e), true) => *e == format!("org.freedesktop.DBus.Error.Failed:no:{n}"),
                    _ => false,
                };
                if !ok {
                    ctx.finding(index, "wrong-reply-delivered", if fail { "error-call" } else { "echo-call" }, "real-daemon",
                        json!({"thread": t, "asked": n, "asked_for_error": fail, "got": format!("{got:?}"), "threads": threads, "calls_per_thread": per}));
                    return Ok(());
                }
            }
        }
        ctx.distinct(fnv(&format!("real|{threads}|{per}")) ^ index);
        if index % 16 == 0 {
            ctx.sample(json!({"real_daemon_calls": {"threads": threads, "calls_per_thread": per}}));
        }
        Ok(())
    }

    pub fn run(ctx: &mut Ctx) {
        let n = ctx.budget(200, 6000);
        let daemon = match Daemon::start("c19") {
            Ok(d) => d,
            Err(e) => {
                ctx.problem(&format!("C19 real-daemon class: {e}"));
                return;
            }
        };
        for k in 0..n {
            let i = 3_000_000_000 + k;
            if !ctx.want(i) {
                continue;
            }
            let mut rng = ctx.rng(i);
            let mut trouble = None;
            ctx.guarded(i, "real-daemon", || json!({}), |ctx| {
                if let Err(e) = history(ctx, i, &mut rng, &daemon) {
                    trouble = Some(e);
                }
            });
            if let Some(e) = trouble {
                ctx.problem(&format!("C19 real-daemon history {i}: {e}"));
                return;
            }
        }
    }
}

pub fn run(ctx: &mut Ctx) {
    #[cfg(not(miri))]
    real::run(ctx);
    // `--x-only real-daemon`: only the class on the real bus (the ThreadSanitizer layer)
    if ctx.args.extra.get("only").map(|s| s == "real-daemon").unwrap_or(false) {
        return;
    }
    let n = ctx.budget(3000, 150_000);
    for i in 0..n {
        if !ctx.want(i) {
            continue;
        }
        let mut rng = ctx.rng(i);
        ctx.guarded(i, "calls", || json!({}), |ctx| case(ctx, i, &mut rng));
    }
    // method timeout (real time; not under Miri, which has no reactor thread to speak of)
    let m = ctx.budget(if ctx.args.layer == "miri" { 0 } else { 120 }, 3_000);
    for j in 0..m {
        let i = 6_000_000_000 + j;
        if !ctx.want(i) {
            continue;
        }
        let mut rng = ctx.rng(i);
        ctx.guarded(i, "method-timeout", || json!({}), |ctx| timeout_case(ctx, i, &mut rng));
    }
}
