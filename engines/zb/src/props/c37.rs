//! C37 — bus match registrations mirror the live signal subscriptions.
//!
//! Histories of creating / cloning / dropping message streams, proxies and
//! proxy signal streams on a bus connection against the scripted bus, which
//! records AddMatch / RemoveMatch and — like a real bus — only delivers
//! broadcast signals that a registered rule admits. Checked at every quiescent
//! point: the registered multiset has no duplicates, nothing unknown was
//! removed, it equals the connection's own subscription table (cfg hook), the
//! harness's own rules are registered exactly while a handle lives, nothing is
//! left when every handle is gone; and every live handle still receives exactly
//! the signals it is entitled to.

use crate::harness::bus::*;
use crate::harness::sched::Sched;
use crate::harness::util::*;
use crate::harness::wire::Wire;
use futures_lite::StreamExt;
use serde_json::json;
use std::cell::{Cell, RefCell};
use std::collections::BTreeMap;
use std::rc::Rc;
use vcommon::Ctx;
use vref::matchrule::{matches, parse_rule};
use vref::msg::*;
use vref::prng::{fnv, Rng};
use vref::val::Val;
use zbus::{AsyncDrop, MessageStream};

const RULES: &[&str] = &[
    "type='signal',interface='t.If'",
    "type='signal',interface='t.If',member='Sig'",
    "type='signal',sender=':1.5',path='/p'",
    "type='signal',interface='t.Other'",
    // the rule a proxy signal stream for (:1.5, /p, t.If, Sig) uses: a MessageStream and a SignalStream share it
    "type='signal',sender=':1.5',path='/p',interface='t.If',member='Sig'",
];

const DESTS: &[&str] = &[":1.5", "t.svc.A", "t.svc.B"];

#[derive(Clone, Debug, PartialEq)]
enum Kind {
    Stream { rule: usize },
    Proxy { dest: usize, cache: bool },
    Sig { proxy: usize, member: Option<&'static str> },
}

#[derive(Clone, Copy, PartialEq, Debug)]
enum DropMode {
    Sync,
    Async,
    CloneThenDropOriginal,
}

struct H {
    kind: Kind,
    /// 0 creating, 1 live, 2 dropped, 3 creation failed, 4 ended by itself
    state: Rc<Cell<u8>>,
    cmd: Rc<Cell<u8>>,
    received: Rc<RefCell<Vec<u32>>>,
    task: Option<usize>,
    mode: DropMode,
    proxy: Slot<zbus::Proxy<'static>>,
    dropped: bool,
}

fn canon(rule: &str) -> String {
    parse_rule(rule).map(|r| r.canonical().to_rule_string()).unwrap_or_else(|_| format!("<unparsable>{rule}"))
}

fn case(ctx: &mut Ctx, index: u64, rng: &mut Rng) {
    ctx.count("evaluations", 1);
    let wire = Wire::new(rng.next_u64());
    let mut sched = Sched::new(Rng::new(rng.next_u64()));
    let bias = *rng.pick(&[(4u64, 3u64, 2u64), (6, 1, 6), (1, 6, 1), (2, 2, 6), (8, 2, 1), (1, 1, 1)]);
    sched.w_ex = bias.0;
    sched.w_h = bias.1;
    sched.w_net = bias.2;
    let bus: SharedBus = Rc::new(RefCell::new(FakeBus::new(&wire)));
    if rng.bool() {
        bus.borrow_mut().chunking = vec![1 + rng.usize_below(60)];
    }
    bus.borrow_mut().owners.insert("t.svc.A".into(), ":1.7".into());
    // failure injection: some AddMatch calls are refused
    let refuse_now: Rc<Cell<bool>> = Rc::new(Cell::new(false));
    let rn = refuse_now.clone();
    bus.borrow_mut().refuse_add_match = Box::new(move |_| rn.get());
    let conn = match connect_bus(&mut sched, &wire, &bus) {
        Ok(c) => c,
        Err(e) => {
            ctx.finding(index, "harness-or-hang", "-", "connect", json!({"error": e}));
            return;
        }
    };
    // the services answer what proxies ask them (property cache priming)
    let b3 = bus.clone();
    sched.add_net(Box::new(move || {
        let mut b = b3.borrow_mut();
        if b.inbox.is_empty() {
            return false;
        }
        let calls: Vec<_> = b.inbox.drain(..).collect();
        for c in calls {
            let dest = c.msg.destination().unwrap_or("").to_string();
            let from = if dest.starts_with(':') { dest.clone() } else { b.owners.get(&dest).cloned().unwrap_or_default() };
            if from.is_empty() {
                b.reply_err(c.msg.serial, "org.freedesktop.DBus.Error.ServiceUnknown", "no such name");
            } else if c.msg.member() == Some("GetAll") {
                b.reply_from(&from, c.msg.serial, vec![Val::Dict(vref::sig::Sig::S, vref::sig::Sig::V, vec![])]);
            } else {
                let s = b.serial();
                let u = b.unique.clone();
                b.force_send(&Msg::error(s, c.msg.serial, "org.freedesktop.DBus.Error.UnknownMethod").with_sender(&from).with_destination(&u).with_body(vec![Val::S("no".into())]));
            }
        }
        true
    }));
    sched.run_to_quiescence();
    let rounds = if ctx.thorough() { 5 + rng.usize_below(12) } else { 3 + rng.usize_below(7) };
    let mut hs: Vec<H> = Vec::new();
    let mut ops_log: Vec<String> = Vec::new();
    let mut next_id = 1u32;
    let mut log_seen = bus.borrow().log.len();
    let with_refusals = rng.chance(1, 4);
    for round in 0..=rounds {
        let last = round == rounds;
        // ---- phase A: creations and drops, concurrently
        refuse_now.set(with_refusals && rng.chance(1, 3));
        if refuse_now.get() {
            ops_log.push(format!("r{round}: the bus refuses AddMatch in this round"));
        }
        let live: Vec<usize> = (0..hs.len()).filter(|k| hs[*k].state.get() == 1 && !hs[*k].dropped).collect();
        for k in live {
            if last || rng.chance(1, 3) {
                // a proxy goes only after... no: any order is allowed; signal streams keep working without their proxy handle
                hs[k].dropped = true;
                match &hs[k].kind {
                    Kind::Proxy { .. } => {
                        let p = hs[k].proxy.borrow_mut().take();
                        drop(p);
                        hs[k].state.set(2);
                    }
                    _ => {
                        hs[k].cmd.set(1);
                        if let Some(t) = hs[k].task {
                            sched.wake(t);
                        }
                    }
                }
                ops_log.push(format!("r{round}: drop h{k} {:?} ({:?})", hs[k].kind, hs[k].mode));
            }
        }
        let ncreate = if last { 0 } else { rng.usize_below(4) };
        for _ in 0..ncreate {
            let k = hs.len();
            let live_proxies: Vec<usize> = (0..hs.len()).filter(|j| matches!(hs[*j].kind, Kind::Proxy { .. }) && hs[*j].state.get() == 1 && !hs[*j].dropped).collect();
            let r = rng.below(10);
            let kind = if r < 4 {
                Kind::Stream { rule: rng.usize_below(RULES.len()) }
            } else if r < 7 || live_proxies.is_empty() {
                Kind::Proxy { dest: rng.usize_below(DESTS.len()), cache: rng.chance(1, 3) }
            } else {
                Kind::Sig { proxy: *rng.pick(&live_proxies), member: if rng.chance(3, 4) { Some("Sig") } else { None } }
            };
            let mode = match rng.below(4) {
                0 => DropMode::Async,
                1 => DropMode::CloneThenDropOriginal,
                _ => DropMode::Sync,
            };
            let state = Rc::new(Cell::new(0u8));
            let cmd = Rc::new(Cell::new(0u8));
            let received = Rc::new(RefCell::new(Vec::new()));
            let pslot: Slot<zbus::Proxy<'static>> = slot();
            let (s2, c2, r2, p2) = (state.clone(), cmd.clone(), received.clone(), pslot.clone());
            let conn2 = conn.clone();
            let task = match kind.clone() {
                Kind::Stream { rule } => Some(sched.spawn(&format!("h{k}"), async move {
                    let mut stream = match MessageStream::for_match_rule(RULES[rule], &conn2, Some(64)).await {
                        Ok(s) => s,
                        Err(_) => {
                            s2.set(3);
                            return;
                        }
                    };
                    if mode == DropMode::CloneThenDropOriginal {
                        let clone = stream.clone();
                        drop(stream);
                        stream = clone;
                    }
                    s2.set(1);
                    loop {
                        let next = std::future::poll_fn(|cx| {
                            if c2.get() == 1 {
                                return std::task::Poll::Ready(None);
                            }
                            match std::pin::Pin::new(&mut stream).poll_next(cx) {
                                std::task::Poll::Ready(x) => std::task::Poll::Ready(Some(x)),
                                std::task::Poll::Pending => std::task::Poll::Pending,
                            }
                        })
                        .await;
                        match next {
                            None => break,
                            Some(Some(Ok(m))) => {
                                let id = m.body().deserialize::<(u32,)>().map(|b| b.0).unwrap_or(0);
                                r2.borrow_mut().push(id);
                            }
                            Some(Some(Err(_))) | Some(None) => {
                                s2.set(4);
                                return;
                            }
                        }
                    }
                    match mode {
                        DropMode::Async => stream.async_drop().await,
                        _ => drop(stream),
                    }
                    s2.set(2);
                })),
                Kind::Proxy { dest, cache } => Some(sched.spawn(&format!("h{k}"), async move {
                    let b = zbus::proxy::Builder::<zbus::Proxy<'static>>::new(&conn2).destination(DESTS[dest]).unwrap().path("/p").unwrap().interface("t.If").unwrap();
                    let b = b.cache_properties(if cache { zbus::proxy::CacheProperties::Yes } else { zbus::proxy::CacheProperties::No });
                    match b.build().await {
                        Ok(p) => {
                            *p2.borrow_mut() = Some(p);
                            s2.set(1);
                        }
                        Err(_) => s2.set(3),
                    }
                })),
                Kind::Sig { proxy, member } => {
                    let px = hs[proxy].proxy.borrow().clone();
                    match px {
                        None => None,
                        Some(px) => Some(sched.spawn(&format!("h{k}"), async move {
                            let r = match member {
                                Some(m) => px.receive_signal(m).await,
                                None => px.receive_all_signals().await,
                            };
                            drop(px);
                            let mut stream = match r {
                                Ok(s) => s,
                                Err(_) => {
                                    s2.set(3);
                                    return;
                                }
                            };
                            s2.set(1);
                            loop {
                                let next = std::future::poll_fn(|cx| {
                                    if c2.get() == 1 {
                                        return std::task::Poll::Ready(None);
                                    }
                                    match std::pin::Pin::new(&mut stream).poll_next(cx) {
                                        std::task::Poll::Ready(x) => std::task::Poll::Ready(Some(x)),
                                        std::task::Poll::Pending => std::task::Poll::Pending,
                                    }
                                })
                                .await;
                                match next {
                                    None => break,
                                    Some(Some(m)) => {
                                        let id = m.body().deserialize::<(u32,)>().map(|b| b.0).unwrap_or(0);
                                        r2.borrow_mut().push(id);
                                    }
                                    Some(None) => {
                                        s2.set(4);
                                        return;
                                    }
                                }
                            }
                            match mode {
                                DropMode::Async => stream.async_drop().await,
                                _ => drop(stream),
                            }
                            s2.set(2);
                        })),
                    }
                }
            };
            if task.is_none() {
                continue;
            }
            ops_log.push(format!("r{round}: create h{k} {kind:?} ({mode:?})"));
            hs.push(H { kind, state, cmd, received, task, mode, proxy: pslot, dropped: false });
        }
        let q = sched.run_to_quiescence_while(|| wire.io_progress());
        refuse_now.set(false);
        if !q {
            ctx.finding(index, "no-quiescence", "-", "-", describe(&ops_log, round, &hs, &bus, json!({})));
            return;
        }
        for (k, h) in hs.iter().enumerate() {
            if h.state.get() == 0 {
                ctx.finding(index, "creation-pending-at-quiescence", kind_name(&h.kind), "-", describe(&ops_log, round, &hs, &bus, json!({"handle": k, "trace": sched.trace_string()})));
                return;
            }
            if h.dropped && h.state.get() == 1 {
                ctx.finding(index, "drop-pending-at-quiescence", kind_name(&h.kind), &format!("{:?}", h.mode), describe(&ops_log, round, &hs, &bus, json!({"handle": k})));
                return;
            }
            if h.state.get() == 4 {
                ctx.finding(index, "stream-ended-by-itself", kind_name(&h.kind), "-", describe(&ops_log, round, &hs, &bus, json!({"handle": k})));
                return;
            }
            // priming the property cache of a service nobody owns fails: a legitimate creation failure (it must still leave
            // nothing registered, which the invariants below check)
            let ownerless_cached_proxy = matches!(&h.kind, Kind::Proxy { dest, cache: true } if !DESTS[*dest].starts_with(':'));
            if h.state.get() == 3 && !with_refusals && !ownerless_cached_proxy {
                ctx.finding(index, "creation-failed", kind_name(&h.kind), "-", describe(&ops_log, round, &hs, &bus, json!({"handle": k})));
                return;
            }
        }
        // ---- registration invariants at the quiescent point
        ctx.count("quiescent_points_checked", 1);
        let registered = bus.borrow().registered();
        for w in registered.windows(2) {
            if w[0] == w[1] {
                ctx.finding(index, "rule-registered-twice", "-", "-", describe(&ops_log, round, &hs, &bus, json!({"rule": w[0]})));
                return;
            }
        }
        let new_events: Vec<BusEvent> = bus.borrow().log[log_seen..].iter().map(|(_, e)| e.clone()).collect();
        log_seen = bus.borrow().log.len();
        for e in &new_events {
            match e {
                BusEvent::RemoveUnknownMatch(r) => {
                    ctx.finding(index, "remove-of-a-rule-that-is-not-registered", "-", "-", describe(&ops_log, round, &hs, &bus, json!({"rule": r})));
                    return;
                }
                BusEvent::AddMatch(_) => ctx.count("add_match_calls", 1),
                BusEvent::RemoveMatch(_) => ctx.count("remove_match_calls", 1),
                BusEvent::AddMatchRefused(_) => ctx.count("add_match_refused", 1),
                _ => {}
            }
        }
        // the connection's own table (hook), signal rules only
        let snap: Slot<Vec<(String, u64, bool)>> = slot();
        let s3 = snap.clone();
        let conn3 = conn.clone();
        let t = sched.spawn("snapshot", async move {
            *s3.borrow_mut() = Some(conn3.verif_subscriptions().await);
        });
        sched.run_until_done(t);
        let taken = snap.borrow_mut().take();
        let table: BTreeMap<String, u64> = match taken {
            Some(v) => v.into_iter().filter(|(r, _, _)| !r.contains("type='method_call'")).map(|(r, n, _)| (canon(&r), n)).collect(),
            None => {
                ctx.finding(index, "snapshot-pending", "-", "-", describe(&ops_log, round, &hs, &bus, json!({})));
                return;
            }
        };
        if let Some((r, _)) = table.iter().find(|(_, n)| **n == 0) {
            ctx.finding(index, "subscription-entry-with-zero-subscribers", "-", "-", describe(&ops_log, round, &hs, &bus, json!({"rule": r})));
            return;
        }
        let table_rules: Vec<String> = table.keys().cloned().collect();
        if table_rules != registered {
            let only_bus: Vec<&String> = registered.iter().filter(|r| !table.contains_key(*r)).collect();
            let only_conn: Vec<&String> = table_rules.iter().filter(|r| !registered.contains(r)).collect();
            let reason = if !only_bus.is_empty() { "registered-on-bus-without-subscription" } else { "subscription-without-bus-registration" };
            ctx.finding(index, "bus-registrations-differ-from-subscriptions", reason, "-", describe(&ops_log, round, &hs, &bus, json!({"only_on_bus": only_bus, "only_in_connection": only_conn})));
            return;
        }
        // the harness's own rules: registered exactly while a handle lives; count = handles
        for (ri, rule) in RULES.iter().enumerate() {
            let mut users = hs.iter().filter(|h| h.state.get() == 1 && h.kind == Kind::Stream { rule: ri }).count() as u64;
            if ri == 4 {
                users += hs.iter().filter(|h| h.state.get() == 1 && matches!(&h.kind, Kind::Sig { proxy, member: Some("Sig") } if hs[*proxy].kind.clone() == (Kind::Proxy { dest: 0, cache: false }) || hs[*proxy].kind.clone() == (Kind::Proxy { dest: 0, cache: true }))).count() as u64;
            }
            let c = canon(rule);
            let reg = registered.contains(&c);
            if (users > 0) != reg {
                let reason = if reg { "rule-still-registered-without-subscribers" } else { "rule-of-a-live-stream-not-registered" };
                ctx.finding(index, "known-rule-registration-wrong", reason, "-", describe(&ops_log, round, &hs, &bus, json!({"rule": rule, "live_handles": users})));
                return;
            }
            if reg && table.get(&c).copied() != Some(users) {
                ctx.finding(index, "subscriber-count-wrong", if table.get(&c).copied().unwrap_or(0) > users { "count-too-high" } else { "count-too-low" }, "-", describe(&ops_log, round, &hs, &bus, json!({"rule": rule, "live_handles": users, "count": table.get(&c)})));
                return;
            }
        }
        let any_live = hs.iter().any(|h| h.state.get() == 1);
        if !any_live && !registered.is_empty() {
            ctx.finding(index, "rules-left-registered-after-all-handles-are-gone", "-", "-", describe(&ops_log, round, &hs, &bus, json!({})));
            return;
        }
        if !any_live {
            ctx.count("class:point-with-no-handles", 1);
        }
        if last {
            break;
        }
        // ---- phase B: ownership changes and signals, routed by the bus according to the registered rules
        if rng.chance(1, 3) {
            let name = *rng.pick(&["t.svc.A", "t.svc.B"]);
            let cur = bus.borrow().owners.get(name).cloned();
            let new = match cur.as_deref() {
                None => Some(*rng.pick(&[":1.7", ":1.8"])),
                Some(":1.7") => if rng.bool() { Some(":1.8") } else { None },
                _ => if rng.bool() { Some(":1.7") } else { None },
            };
            bus.borrow_mut().name_owner_changed(name, new);
            ops_log.push(format!("r{round}: owner of {name} becomes {new:?}"));
            sched.run_to_quiescence();
            ctx.count("owner_changes", 1);
        }
        let nm = rng.usize_below(7);
        let before: Vec<usize> = hs.iter().map(|h| h.received.borrow().len()).collect();
        let mut expected: Vec<Vec<u32>> = vec![Vec::new(); hs.len()];
        for _ in 0..nm {
            let sender = *rng.pick(&[":1.5", ":1.5", ":1.7", ":1.8", ":1.9"]);
            let path = *rng.pick(&["/p", "/p", "/x"]);
            let iface = *rng.pick(&["t.If", "t.If", "t.Other"]);
            let member = *rng.pick(&["Sig", "Sig", "Tick"]);
            let id = next_id;
            next_id += 1;
            let s = bus.borrow_mut().serial();
            let m = Msg::signal(s, path, iface, member).with_sender(sender).with_body(vec![Val::U(id)]);
            let delivered = bus.borrow_mut().route_signal(&m);
            ctx.count(if delivered { "signals_delivered_by_bus" } else { "signals_suppressed_by_bus" }, 1);
            for (k, h) in hs.iter().enumerate() {
                if h.state.get() != 1 {
                    continue;
                }
                let want = match &h.kind {
                    Kind::Stream { rule } => matches(&parse_rule(RULES[*rule]).unwrap(), &m) == Some(true),
                    Kind::Sig { proxy, member: want_member } => {
                        let dest = match &hs[*proxy].kind {
                            Kind::Proxy { dest, .. } => DESTS[*dest],
                            _ => "",
                        };
                        let owner = if dest.starts_with(':') { Some(dest.to_string()) } else { bus.borrow().owners.get(dest).cloned() };
                        path == "/p" && iface == "t.If" && want_member.map_or(true, |w| w == member) && owner.as_deref() == Some(sender)
                    }
                    Kind::Proxy { .. } => false,
                };
                if want {
                    expected[k].push(id);
                }
            }
        }
        sched.run_to_quiescence();
        for (k, h) in hs.iter().enumerate() {
            if h.state.get() != 1 {
                continue;
            }
            let got: Vec<u32> = h.received.borrow()[before[k]..].to_vec();
            ctx.count("live_handle_rounds_checked", 1);
            ctx.count("signals_expected_at_handles", expected[k].len() as u64);
            if got != expected[k] {
                let reason = if got.len() < expected[k].len() { "signal-missed" } else if got.len() > expected[k].len() { "unexpected-signal" } else { "other-signals" };
                ctx.finding(index, "live-handle-delivery-wrong", reason, kind_name(&h.kind), describe(&ops_log, round, &hs, &bus, json!({"handle": k, "expected": expected[k], "got": got})));
                return;
            }
        }
    }
    ctx.distinct(sched.fingerprint() ^ fnv(&ops_log.join(";")));
    ctx.count("handles_created", hs.len() as u64);
    for h in &hs {
        ctx.count(&format!("class:handle-{}", kind_name(&h.kind)), 1);
    }
    if !bus.borrow().parse_errors.is_empty() {
        ctx.finding(index, "bus-could-not-parse-zbus-output", "-", "-", json!({"errors": bus.borrow().parse_errors}));
    }
    ctx.sample(json!({"ops": ops_log, "bus_log": bus.borrow().log.iter().filter(|(_, e)| matches!(e, BusEvent::AddMatch(_) | BusEvent::RemoveMatch(_))).map(|(_, e)| format!("{e:?}")).take(30).collect::<Vec<_>>(),
        "schedule": sched.trace_string().chars().take(100).collect::<String>()}));
}

fn describe(ops_log: &[String], round: usize, hs: &[H], bus: &SharedBus, extra: serde_json::Value) -> serde_json::Value {
    json!({"ops": ops_log, "round": round, "registered_on_bus": bus.borrow().registered(), "info": extra,
           "handles": hs.iter().enumerate().map(|(k, h)| format!("h{k} {:?} state={} received={:?}", h.kind, h.state.get(), h.received.borrow())).collect::<Vec<_>>(),
           "bus_log": bus.borrow().log.iter().filter(|(_, e)| matches!(e, BusEvent::AddMatch(_) | BusEvent::RemoveMatch(_) | BusEvent::RemoveUnknownMatch(_) | BusEvent::AddMatchRefused(_))).map(|(_, e)| format!("{e:?}")).collect::<Vec<_>>()})
}

fn kind_name(k: &Kind) -> &'static str {
    match k {
        Kind::Stream { .. } => "message-stream",
        Kind::Proxy { .. } => "proxy",
        Kind::Sig { .. } => "signal-stream",
    }
}

// ---------------------------------------------------------------------------------------------------------------
// Class "real-daemon": the same kind of history on a REAL bus (a private dbus-daemon). What is registered is what the
// daemon itself reports for the connection (org.freedesktop.DBus.Debug.Stats.GetAllMatchRules, asked over an observer
// connection); it must converge to the connection's own subscription table after every step, contain the harness's
// stream rules exactly while a handle lives, and be empty when every handle is gone.

#[cfg(not(miri))]
mod real {
    use super::canon;
    use crate::harness::realbus::*;
    use serde_json::json;
    use std::collections::BTreeMap;
    use std::time::Duration;
    use vcommon::Ctx;
    use vref::prng::{fnv, Rng};
    use zbus::blocking::Connection;
    use zbus::proxy::CacheProperties;
    use zbus::{AsyncDrop, MessageStream};

    enum Handle {
        /// `origin`: clones of one stream share its registration
        Stream { rule: usize, origin: u32, s: MessageStream },
        Proxy { p: zbus::Proxy<'static> },
        Signal { s: zbus::proxy::SignalStream<'static> },
    }

    fn multiset(rules: impl IntoIterator<Item = String>) -> BTreeMap<String, usize> {
        let mut m = BTreeMap::new();
        for r in rules {
            *m.entry(canon(&r)).or_insert(0) += 1;
        }
        m
    }

    pub fn history(ctx: &mut Ctx, index: u64, rng: &mut Rng, daemon: &Daemon, observer: &Connection) -> Result<(), String> {
        ctx.count("evaluations", 1);
        ctx.count("class:real-daemon", 1);
        let a = daemon.connect()?;
        let b = daemon.connect()?;
        let ua = a.unique_name().map(|u| u.to_string()).ok_or("no unique name")?;
        let ub = b.unique_name().map(|u| u.to_string()).ok_or("no unique name")?;
        let owned = format!("t.svc.H{index}.Owned");
        let unowned = format!("t.svc.H{index}.Nobody");
        b.request_name(owned.as_str()).map_err(|e| format!("helper cannot take a name: {e}"))?;
        let stream_rules: Vec<String> = vec![
            format!("type='signal',interface='t.If{index}'"),
            format!("type='signal',interface='t.If{index}',member='Sig'"),
            format!("type='signal',sender='{ub}',path='/q'"),
            format!("type='signal',path_namespace='/ns{index}',arg0='x'"),
        ];
        let conn = a.inner().clone();
        let mut handles: Vec<Handle> = Vec::new();
        let mut log: Vec<String> = Vec::new();
        let mut shape = String::new();
        let mut next_origin = 0u32;
        let rounds = if ctx.thorough() { 5 + rng.usize_below(12) } else { 3 + rng.usize_below(6) };
        for round in 0..=rounds {
            let last = round == rounds;
            // ---- drops
            let mut k = 0;
            while k < handles.len() {
                if last || rng.chance(1, 3) {
                    let h = handles.remove(k);
                    let how = rng.below(2);
                    match h {
                        Handle::Stream { rule, s, .. } => {
                            if how == 0 {
                                drop(s);
                                log.push(format!("r{round}: drop stream {rule}"));
                            } else {
                                zbus::block_on(s.async_drop());
                                log.push(format!("r{round}: async_drop stream {rule}"));
                            }
                            shape.push_str(&format!("d{rule}{how}"));
                        }
                        Handle::Proxy { p } => {
                            drop(p);
                            log.push(format!("r{round}: drop proxy"));
                            shape.push('P');
                        }
                        Handle::Signal { s } => {
                            if how == 0 {
                                drop(s);
                                log.push(format!("r{round}: drop signal stream"));
                            } else {
                                zbus::block_on(s.async_drop());
                                log.push(format!("r{round}: async_drop signal stream"));
                            }
                            shape.push_str(&format!("s{how}"));
                        }
                    }
                } else {
                    k += 1;
                }
            }
            // ---- creations
            let creations = if last { 0 } else { rng.usize_below(4) };
            for _ in 0..creations {
                match rng.below(10) {
                    0..=3 => {
                        let rule = rng.usize_below(stream_rules.len());
                        let text = stream_rules[rule].clone();
                        let c = conn.clone();
                        let r = zbus::block_on(async move { MessageStream::for_match_rule(text.as_str(), &c, None).await });
                        match r {
                            Ok(s) => {
                                next_origin += 1;
                                handles.push(Handle::Stream { rule, origin: next_origin, s });
                                log.push(format!("r{round}: stream {rule}"));
                                shape.push_str(&format!("c{rule}"));
                                ctx.count("real_streams_created", 1);
                            }
                            Err(e) => return Err(format!("for_match_rule failed on the real bus: {e}")),
                        }
                    }
                    4 => {
                        let live: Vec<usize> = handles.iter().enumerate().filter(|(_, h)| matches!(h, Handle::Stream { .. })).map(|(i, _)| i).collect();
                        if let Some(&i) = live.first() {
                            if let Handle::Stream { rule, origin, s } = &handles[i] {
                                let (rule, origin, s2) = (*rule, *origin, s.clone());
                                handles.push(Handle::Stream { rule, origin, s: s2 });
                                log.push(format!("r{round}: clone of stream {rule}"));
                                shape.push_str(&format!("k{rule}"));
                            }
                        }
                    }
                    _ => {
                        // a proxy and one or two signal streams on it (two: created concurrently)
                        let which = rng.below(3);
                        let dest = match which {
                            0 => ub.clone(),
                            1 => owned.clone(),
                            _ => unowned.clone(),
                        };
                        let cache = if rng.bool() { CacheProperties::No } else { CacheProperties::Lazily };
                        let c = conn.clone();
                        let two = rng.bool();
                        let keep_proxy = rng.bool();
                        let r = zbus::block_on(async move {
                            let p: zbus::Proxy<'static> = zbus::proxy::Builder::new(&c).destination(dest)?.path("/p")?.interface("t.If")?.cache_properties(cache).build().await?;
                            let streams = if two {
                                let (x, y) = futures_util::future::join(p.receive_signal("Sig"), p.receive_signal("Other")).await;
                                vec![x?, y?]
                            } else {
                                vec![p.receive_signal("Sig").await?]
                            };
                            Ok::<_, zbus::Error>((p, streams))
                        });
                        match r {
                            Ok((p, streams)) => {
                                log.push(format!("r{round}: proxy to {} + {} signal stream(s){}", ["unique", "owned", "unowned"][which as usize], streams.len(), if keep_proxy { "" } else { ", proxy dropped at once" }));
                                shape.push_str(&format!("x{which}{}{}", streams.len(), keep_proxy as u8));
                                for s in streams {
                                    handles.push(Handle::Signal { s });
                                    ctx.count("real_signal_streams_created", 1);
                                }
                                if keep_proxy {
                                    handles.push(Handle::Proxy { p });
                                }
                            }
                            Err(e) => return Err(format!("proxy / receive_signal failed on the real bus: {e}")),
                        }
                    }
                }
            }
            // ---- a burst from several OS threads at once (true parallelism in the registration bookkeeping): each thread creates and
            // drops streams over the same two rules; what a thread still holds at the end joins the live handles
            if !last && rng.chance(1, 4) {
                let threads = 2 + rng.usize_below(3);
                let mut joins = Vec::new();
                for t in 0..threads {
                    let c = conn.clone();
                    let rules = stream_rules.clone();
                    let mut trng = Rng::new(rng.next_u64());
                    joins.push(std::thread::spawn(move || {
                        let mut kept: Vec<(usize, MessageStream)> = Vec::new();
                        let mut problems = Vec::new();
                        for _ in 0..4 + trng.usize_below(6) {
                            let rule = trng.usize_below(2);
                            let text = rules[rule].clone();
                            let c2 = c.clone();
                            match zbus::block_on(async move { MessageStream::for_match_rule(text.as_str(), &c2, None).await }) {
                                Ok(s) => kept.push((rule, s)),
                                Err(e) => problems.push(format!("thread {t}: {e}")),
                            }
                            if trng.chance(2, 3) && !kept.is_empty() {
                                let k = trng.usize_below(kept.len());
                                let (_, s) = kept.remove(k);
                                if trng.bool() {
                                    drop(s);
                                } else {
                                    zbus::block_on(s.async_drop());
                                }
                            }
                        }
                        while kept.len() > 1 {
                            kept.pop();
                        }
                        (kept, problems)
                    }));
                }
                let mut kept_total = 0;
                for j in joins {
                    match j.join() {
                        Ok((kept, problems)) => {
                            if let Some(p) = problems.first() {
                                return Err(format!("for_match_rule failed on the real bus in a burst: {p}"));
                            }
                            for (rule, s) in kept {
                                next_origin += 1;
                                handles.push(Handle::Stream { rule, origin: next_origin, s });
                                kept_total += 1;
                            }
                        }
                        // a panic inside the library on a burst thread is the library's: let the case guard report it
                        Err(e) => std::panic::resume_unwind(e),
                    }
                }
                ctx.count("real_parallel_bursts", 1);
                log.push(format!("r{round}: burst of {threads} threads creating/dropping streams over rules 0 and 1; {kept_total} kept"));
                shape.push_str(&format!("B{threads}{kept_total}"));
            }
            // ---- the quiescent point: what the daemon holds must converge to the connection's own table
            // independently created streams with a live handle (a clone shares its original's registration)
            let mut origins: std::collections::BTreeSet<(usize, u32)> = Default::default();
            for h in &handles {
                if let Handle::Stream { rule, origin, .. } = h {
                    origins.insert((*rule, *origin));
                }
            }
            let mut want_streams: BTreeMap<String, usize> = BTreeMap::new();
            for (rule, _) in &origins {
                *want_streams.entry(canon(&stream_rules[*rule])).or_insert(0) += 1;
            }
            // a live proxy keeps its destination's NameOwnerChanged rule, a live signal stream its own rule (and its proxy)
            let any_signal = handles.iter().any(|h| !matches!(h, Handle::Stream { .. }));
            let check = |observer: &Connection| -> Result<Option<(String, serde_json::Value)>, String> {
                let at_bus = multiset(all_match_rules(observer)?.remove(&ua).unwrap_or_default());
                let c = conn.clone();
                let table = zbus::block_on(async move { c.verif_subscriptions().await });
                let own = multiset(table.iter().map(|(r, _, _)| r.clone()));
                let detail = json!({"at_the_bus": at_bus, "connection_table": table, "live_stream_rules": want_streams});
                if let Some((r, n)) = at_bus.iter().find(|(_, n)| **n > 1) {
                    return Ok(Some((format!("registered-{n}-times"), json!({"rule": r, "state": detail}))));
                }
                if at_bus != own {
                    return Ok(Some(("bus-differs-from-subscription-table".into(), detail)));
                }
                for (r, n) in &want_streams {
                    match table.iter().find(|(t, _, _)| canon(t) == *r) {
                        None => return Ok(Some(("live-stream-rule-not-registered".into(), json!({"rule": r, "state": detail})))),
                        Some((_, count, _)) if *count as usize != *n => return Ok(Some(("count-differs-from-live-handles".into(), json!({"rule": r, "handles": n, "state": detail})))),
                        _ => {}
                    }
                }
                for r in stream_rules.iter().map(|r| canon(r)) {
                    if !want_streams.contains_key(&r) && at_bus.contains_key(&r) {
                        return Ok(Some(("rule-outlives-its-handles".into(), json!({"rule": r, "state": detail}))));
                    }
                }
                if !any_signal && want_streams.is_empty() && !at_bus.is_empty() {
                    return Ok(Some(("left-registered-with-no-handles".into(), detail)));
                }
                Ok(None)
            };
            // removals after a plain drop are sent by a background task: poll (generously) until the state is right;
            // only a state that stays wrong is reported
            let mut last_wrong = None;
            let mut trouble = None;
            let ok = poll_until(Duration::from_secs(45), || match check(observer) {
                Ok(None) => Some(()),
                Ok(Some(w)) => {
                    last_wrong = Some(w);
                    None
                }
                Err(e) => {
                    trouble = Some(e);
                    Some(())
                }
            });
            if let Some(e) = trouble {
                return Err(e);
            }
            ctx.count("real_quiescent_points_checked", 1);
            if handles.is_empty() {
                ctx.count("class:real-point-with-no-handles", 1);
            }
            if ok.is_none() {
                let (why, detail) = last_wrong.unwrap_or(("?".into(), json!({})));
                ctx.finding(index, "registrations-differ-on-a-real-bus", &why, if last { "after-all-dropped" } else { "mid-history" }, json!({"history": log, "state_after_45s": detail}));
                return Ok(());
            }
        }
        ctx.distinct(fnv(&shape));
        if index % 16 == 0 {
            ctx.sample(json!({"real_daemon_history": log}));
        }
        Ok(())
    }

    pub fn run(ctx: &mut Ctx) {
        let n = ctx.budget(420, 12000);
        let daemon = match Daemon::start("c37") {
            Ok(d) => d,
            Err(e) => {
                ctx.problem(&format!("C37 real-daemon class: {e}"));
                return;
            }
        };
        let observer = match daemon.connect() {
            Ok(c) => c,
            Err(e) => {
                ctx.problem(&format!("C37 real-daemon class: {e}"));
                return;
            }
        };
        let mut with_findings = 0;
        for k in 0..n {
            let i = 3_000_000_000 + k;
            if !ctx.want(i) {
                continue;
            }
            let mut rng = ctx.rng(i);
            let mut trouble = None;
            let before = ctx.findings_reported();
            ctx.guarded(i, "real-daemon", || json!({}), |ctx| {
                if let Err(e) = history(ctx, i, &mut rng, &daemon, &observer) {
                    trouble = Some(e);
                }
            });
            if ctx.findings_reported() > before {
                with_findings += 1;
                // a persistent disagreement costs its whole polling allowance: a few witnesses are enough
                if with_findings >= 4 && !ctx.thorough() {
                    ctx.count("real_class_stopped_after_findings", 1);
                    return;
                }
            }
            if let Some(e) = trouble {
                ctx.problem(&format!("C37 real-daemon history {i}: {e}"));
                return;
            }
        }
    }
}

pub fn run(ctx: &mut Ctx) {
    #[cfg(not(miri))]
    real::run(ctx);
    // `--x-only real-daemon`: only the class on the real bus (the ThreadSanitizer layer: that class is the one with real threads)
    if ctx.args.extra.get("only").map(|s| s == "real-daemon").unwrap_or(false) {
        return;
    }
    let n = ctx.budget(2500, 100_000);
    for i in 0..n {
        if !ctx.want(i) {
            continue;
        }
        let mut rng = ctx.rng(i);
        ctx.guarded(i, "history", || json!({}), |ctx| case(ctx, i, &mut rng));
    }
}
