//! C38 — transport failures end pending work with errors, never hangs.
//!
//! Fault enumeration: one scripted session (3 pending calls, 2 streams, 6
//! inbound messages, 4 outbound sends); EOF or ECONNRESET injected at EVERY
//! inbound byte offset and at every write call, under several schedules.

use crate::harness::peer::RawPeer;
use crate::harness::sched::Sched;
use crate::harness::util::*;
use crate::harness::wire::Wire;
use futures_lite::StreamExt;
use serde_json::json;
use std::cell::RefCell;
use std::collections::HashMap;
use std::rc::Rc;
use vcommon::Ctx;
use vref::msg::*;
use vref::prng::{fnv, Rng};
use vref::val::Val;
use zbus::MessageStream;

#[derive(Clone, Copy, Debug, PartialEq)]
pub enum Fault {
    None,
    ReadAt(usize, bool), // offset, reset?
    WriteAt(u64, bool),  // call index, reset?
}

#[derive(Clone, Debug)]
enum Item {
    Signal(&'static str, &'static str, u32),
    ReplyTo(u32, u32),
    ErrorTo(u32),
}

const SCRIPT: &[(u8, &str, &str, u32)] = &[];

fn script() -> Vec<Item> {
    let _ = SCRIPT;
    vec![
        Item::Signal("s.A", "One", 1),
        Item::ReplyTo(1, 111),
        Item::Signal("s.B", "Two", 2),
        Item::ErrorTo(2),
        Item::Signal("s.A", "Three", 3),
        Item::Signal("s.C", "Four", 4),
    ]
}

#[derive(Debug, Default)]
pub struct SessionResult {
    /// per call id: Some(Ok(tag)) / Some(Err(text)); None = still pending at quiescence
    calls: HashMap<u32, Result<u32, String>>,
    calls_pending: Vec<u32>,
    unfiltered: Vec<u32>,
    unfiltered_end: Option<String>,
    filtered: Vec<u32>,
    filtered_end: Option<String>,
    sends: HashMap<u32, Result<(), String>>,
    sends_pending: Vec<u32>,
    late_call: Option<Result<(), String>>,
    late_stream: Option<Result<(), String>>,
    /// inbound item end offsets
    item_ends: Vec<usize>,
    total_inbound: usize,
    write_calls: u64,
    quiescent: bool,
    fingerprint: u64,
    trace: String,
    /// which calls reached the peer completely
    calls_seen: Vec<u32>,
}

pub fn session(fault: Fault, seed: u64) -> SessionResult {
    let mut rng = Rng::new(seed);
    let wire = Wire::new(rng.next_u64());
    {
        let mut w = wire.lock();
        w.max_write = *rng.pick(&[usize::MAX, 64, 17]);
        match fault {
            Fault::ReadAt(off, reset) => {
                w.read_limit = Some(off);
                w.read_error = if reset { Some(std::io::ErrorKind::ConnectionReset) } else { None };
            }
            Fault::WriteAt(idx, reset) => {
                w.write_error_at_call = Some((idx, if reset { std::io::ErrorKind::ConnectionReset } else { std::io::ErrorKind::BrokenPipe }));
            }
            Fault::None => {}
        }
    }
    let mut sched = Sched::new(Rng::new(rng.next_u64()));
    let bias = *rng.pick(&[(4u64, 3u64, 2u64), (6, 1, 6), (1, 6, 1), (2, 2, 6)]);
    sched.w_ex = bias.0;
    sched.w_h = bias.1;
    sched.w_net = bias.2;
    let mut res = SessionResult::default();
    let conn = match connect_authenticated(&mut sched, &wire) {
        Ok(c) => c,
        Err(e) => {
            res.trace = format!("connect failed: {e}");
            return res;
        }
    };
    // streams first (so that every inbound message has a receiver)
    let unf: Rc<RefCell<(Vec<u32>, Option<String>)>> = Rc::new(RefCell::new((Vec::new(), None)));
    let fil: Rc<RefCell<(Vec<u32>, Option<String>)>> = Rc::new(RefCell::new((Vec::new(), None)));
    {
        let mut s1 = MessageStream::from(&conn);
        let u2 = unf.clone();
        sched.spawn("unfiltered", async move {
            loop {
                match s1.next().await {
                    Some(Ok(m)) => {
                        if m.message_type() == zbus::message::Type::Signal {
                            let id = m.body().deserialize::<(u32, String)>().map(|b| b.0).unwrap_or(0);
                            u2.borrow_mut().0.push(id);
                        }
                    }
                    Some(Err(e)) => {
                        u2.borrow_mut().1 = Some(format!("error: {e}"));
                        break;
                    }
                    None => {
                        u2.borrow_mut().1 = Some("end".into());
                        break;
                    }
                }
            }
        });
        let conn2 = conn.clone();
        let f2 = fil.clone();
        sched.spawn("filtered", async move {
            let mut s2 = match MessageStream::for_match_rule("type='signal',interface='s.A'", &conn2, None).await {
                Ok(s) => s,
                Err(e) => {
                    f2.borrow_mut().1 = Some(format!("create-error: {e}"));
                    return;
                }
            };
            loop {
                match s2.next().await {
                    Some(Ok(m)) => {
                        let id = m.body().deserialize::<(u32, String)>().map(|b| b.0).unwrap_or(0);
                        f2.borrow_mut().0.push(id);
                    }
                    Some(Err(e)) => {
                        f2.borrow_mut().1 = Some(format!("error: {e}"));
                        break;
                    }
                    None => {
                        f2.borrow_mut().1 = Some("end".into());
                        break;
                    }
                }
            }
        });
    }
    // let the filtered stream finish subscribing before traffic starts (no fault can hit yet: nothing is staged)
    sched.run_to_quiescence();
    // three callers, four senders
    let calls: Rc<RefCell<HashMap<u32, Result<u32, String>>>> = Rc::new(RefCell::new(HashMap::new()));
    let mut call_tasks = Vec::new();
    for id in 1..=3u32 {
        let c2 = conn.clone();
        let r2 = calls.clone();
        call_tasks.push((id, sched.spawn(&format!("caller-{id}"), async move {
            let r = c2.call_method(None::<&str>, "/o", Some("o.If"), "M", &(id,)).await;
            let o = match r {
                Ok(m) => m.body().deserialize::<(u32,)>().map(|b| b.0).map_err(|e| format!("bad body {e}")),
                Err(e) => Err(e.to_string()),
            };
            r2.borrow_mut().insert(id, o);
        })));
    }
    let sends: Rc<RefCell<HashMap<u32, Result<(), String>>>> = Rc::new(RefCell::new(HashMap::new()));
    let mut send_tasks = Vec::new();
    for id in 1..=4u32 {
        let c2 = conn.clone();
        let s2 = sends.clone();
        send_tasks.push((id, sched.spawn(&format!("sender-{id}"), async move {
            let r = c2.emit_signal(None::<&str>, "/out", "out.If", "Sig", &(id, "x".repeat(40 * id as usize))).await;
            s2.borrow_mut().insert(id, r.map_err(|e| e.to_string()));
        })));
    }
    // the peer: stages the script items in order; replies wait until the call was seen
    struct P {
        peer: RawPeer,
        items: Vec<Item>,
        next: usize,
        serial_of: HashMap<u32, u32>,
        ends: Vec<usize>,
    }
    let p = Rc::new(RefCell::new(P { peer: RawPeer::new(&wire), items: script(), next: 0, serial_of: HashMap::new(), ends: Vec::new() }));
    let p2 = p.clone();
    sched.add_net(Box::new(move || {
        let mut p = p2.borrow_mut();
        for m in p.peer.pump() {
            if m.msg.mtype == METHOD_CALL {
                if let Some(Val::U(id)) = m.msg.body.first() {
                    let s = m.msg.serial;
                    p.serial_of.insert(*id, s);
                }
            }
        }
        if p.next >= p.items.len() {
            return false;
        }
        let item = p.items[p.next].clone();
        let s = p.peer.serial();
        let msg = match item {
            Item::Signal(i, m, id) => Msg::signal(s, "/sig", i, m).with_body(vec![Val::U(id), Val::S("padding-to-have-a-body-worth-cutting".into())]),
            Item::ReplyTo(call, tag) => match p.serial_of.get(&call) {
                Some(cs) => Msg::method_return(s, *cs).with_body(vec![Val::U(tag)]),
                None => return false,
            },
            Item::ErrorTo(call) => match p.serial_of.get(&call) {
                Some(cs) => Msg::error(s, *cs, "peer.Failed").with_body(vec![Val::S("no".into())]),
                None => return false,
            },
        };
        let end = p.peer.send(&msg, vec![], &[]);
        p.ends.push(end);
        p.next += 1;
        true
    }));
    let w2 = wire.clone();
    sched.add_net(Box::new(move || w2.release_one()));
    let w3 = wire.clone();
    sched.add_net(Box::new(move || w3.unblock_write()));
    let q1 = sched.run_to_quiescence();
    // With no fault (or a fault position the session never reached), end the session with EOF now.
    if !wire.lock().failed {
        wire.fail(None);
    }
    let q2 = sched.run_to_quiescence();
    // afterwards: new calls and subscriptions must fail promptly (before quiescence)
    let late_call: Slot<Result<(), String>> = slot();
    let late_stream: Slot<Result<(), String>> = slot();
    {
        let c2 = conn.clone();
        let l2 = late_call.clone();
        sched.spawn("late-call", async move {
            let r = c2.call_method(None::<&str>, "/o", Some("o.If"), "Late", &()).await;
            *l2.borrow_mut() = Some(r.map(|_| ()).map_err(|e| e.to_string()));
        });
        let c3 = conn.clone();
        let l3 = late_stream.clone();
        sched.spawn("late-stream", async move {
            let r = MessageStream::for_match_rule("type='signal',interface='late.If'", &c3, None).await;
            *l3.borrow_mut() = Some(r.map(|_| ()).map_err(|e| e.to_string()));
        });
    }
    let q3 = sched.run_to_quiescence();
    res.quiescent = q1 && q2 && q3;
    res.calls = calls.borrow().clone();
    res.calls_pending = call_tasks.iter().filter(|(_, t)| !sched.is_done(*t)).map(|(id, _)| *id).collect();
    res.sends = sends.borrow().clone();
    res.sends_pending = send_tasks.iter().filter(|(_, t)| !sched.is_done(*t)).map(|(id, _)| *id).collect();
    res.unfiltered = unf.borrow().0.clone();
    res.unfiltered_end = unf.borrow().1.clone();
    res.filtered = fil.borrow().0.clone();
    res.filtered_end = fil.borrow().1.clone();
    res.late_call = late_call.borrow_mut().take();
    res.late_stream = late_stream.borrow_mut().take();
    let pp = p.borrow();
    res.item_ends = pp.ends.clone();
    res.total_inbound = pp.peer.staged_bytes;
    res.calls_seen = pp.serial_of.keys().cloned().collect();
    res.write_calls = wire.lock().write_calls;
    res.fingerprint = sched.fingerprint();
    res.trace = sched.trace_string();
    res
}

fn judge(ctx: &mut Ctx, index: u64, fault: Fault, r: &SessionResult, ends: &[usize]) {
    let (pos_class, kind) = match fault {
        Fault::None => ("no-fault".to_string(), "eof-at-end"),
        Fault::ReadAt(off, reset) => {
            // classify the position relative to the message it falls in
            let mut start = 0;
            let mut cls = "after-last-message".to_string();
            for e in ends {
                if off == start {
                    cls = "between-messages".into();
                    break;
                }
                if off < *e {
                    let rel = off - start;
                    cls = if rel < 16 { "mid-fixed-header".into() } else if rel < 72 { "mid-header-fields".into() } else { "mid-body".into() };
                    break;
                }
                start = *e;
            }
            (cls, if reset { "read-reset" } else { "read-eof" })
        }
        Fault::WriteAt(_, reset) => ("write-call".to_string(), if reset { "write-reset" } else { "write-broken-pipe" }),
    };
    ctx.count(&format!("class:{pos_class}"), 1);
    let detail = |x: serde_json::Value| json!({"fault": format!("{fault:?}"), "position": pos_class, "calls": format!("{:?}", r.calls), "calls_pending": r.calls_pending,
        "unfiltered": r.unfiltered, "unfiltered_end": r.unfiltered_end, "filtered": r.filtered, "filtered_end": r.filtered_end,
        "sends": format!("{:?}", r.sends), "sends_pending": r.sends_pending, "late_call": format!("{:?}", r.late_call), "late_stream": format!("{:?}", r.late_stream), "trace": r.trace, "info": x});
    if index % 397 == 3 {
        // an explored fault case written out for the evidence file
        let mut d = detail(json!({}));
        if let serde_json::Value::Object(m) = &mut d {
            let t: String = r.trace.chars().take(160).collect();
            m.insert("trace".into(), json!(t));
            m.insert("kind".into(), json!(kind));
        }
        ctx.sample(d);
    }
    if !r.quiescent {
        ctx.finding(index, "step-bound-hit", kind, &pos_class, detail(json!({})));
        return;
    }
    // (1) every pending call completes
    for id in &r.calls_pending {
        ctx.finding(index, "pending-call-never-completed", kind, &pos_class, detail(json!({"call": id})));
    }
    for id in &r.sends_pending {
        ctx.finding(index, "send-never-completed", kind, &pos_class, detail(json!({"send": id})));
    }
    // which inbound items were delivered completely before the fault
    let delivered_upto = match fault {
        Fault::ReadAt(off, _) => off,
        _ => usize::MAX,
    };
    let complete: Vec<bool> = (0..6).map(|k| r.item_ends.get(k).map_or(false, |e| *e <= delivered_upto)).collect();
    if let Fault::ReadAt(..) | Fault::None = fault {
        // call 1: reply is item 1; call 2: error is item 3; call 3: never answered
        match r.calls.get(&1) {
            Some(Ok(111)) if complete[1] => {}
            Some(Ok(t)) => ctx.finding(index, "call-got-a-reply-it-should-not-have", kind, &pos_class, detail(json!({"call": 1, "tag": t}))),
            Some(Err(_)) if !complete[1] => {}
            Some(Err(e)) => ctx.finding(index, "completely-received-reply-lost", kind, &pos_class, detail(json!({"call": 1, "error": e}))),
            None => {}
        }
        match r.calls.get(&2) {
            Some(Err(e)) if complete[3] && e.contains("peer.Failed") => {}
            Some(Err(e)) if complete[3] => ctx.finding(index, "completely-received-reply-lost", kind, &pos_class, detail(json!({"call": 2, "error": e}))),
            Some(Err(_)) => {}
            Some(Ok(t)) => ctx.finding(index, "call-got-a-reply-it-should-not-have", kind, &pos_class, detail(json!({"call": 2, "tag": t}))),
            None => {}
        }
        if let Some(Ok(t)) = r.calls.get(&3) {
            ctx.finding(index, "call-got-a-reply-it-should-not-have", kind, &pos_class, detail(json!({"call": 3, "tag": t})));
        }
        // (2) streams: exactly the completely received matching signals, in order, then an error/end
        let want_unf: Vec<u32> = [(0usize, 1u32), (2, 2), (4, 3), (5, 4)].iter().filter(|(k, _)| complete[*k]).map(|(_, id)| *id).collect();
        let want_fil: Vec<u32> = [(0usize, 1u32), (4, 3)].iter().filter(|(k, _)| complete[*k]).map(|(_, id)| *id).collect();
        if r.unfiltered != want_unf {
            ctx.finding(index, "stream-history-differs", "unfiltered", &pos_class, detail(json!({"expected": want_unf})));
        }
        if r.filtered != want_fil {
            ctx.finding(index, "stream-history-differs", "filtered", &pos_class, detail(json!({"expected": want_fil})));
        }
    }
    if r.unfiltered_end.is_none() {
        ctx.finding(index, "stream-did-not-end", "unfiltered", &pos_class, detail(json!({})));
    }
    if r.filtered_end.is_none() {
        ctx.finding(index, "stream-did-not-end", "filtered", &pos_class, detail(json!({})));
    }
    // (3) later calls and subscriptions fail promptly
    match &r.late_call {
        Some(Err(_)) => {}
        Some(Ok(())) => ctx.finding(index, "late-call-succeeded", kind, &pos_class, detail(json!({}))),
        None => ctx.finding(index, "late-call-hangs", kind, &pos_class, detail(json!({}))),
    }
    match &r.late_stream {
        Some(Err(_)) => {}
        Some(Ok(())) => ctx.finding(index, "late-subscription-succeeded", kind, &pos_class, detail(json!({}))),
        None => ctx.finding(index, "late-subscription-hangs", kind, &pos_class, detail(json!({}))),
    }
}

/// Class "backlog at the failure": a stream that is BEHIND by its whole queue capacity (or one short of / one beyond it) when the transport
/// fails must still hand out every message that was received before the failure, in order, and only then the error / the end.
fn backlog_case(ctx: &mut Ctx, index: u64, rng: &mut Rng) {
    use crate::props::c24::run_task;
    ctx.count("evaluations", 1);
    ctx.count("class:backlog-at-failure", 1);
    let wire = Wire::new(rng.next_u64());
    let mut sched = Sched::new(Rng::new(rng.next_u64()));
    let bias = *rng.pick(&[(4u64, 3u64, 2u64), (6, 1, 6), (1, 6, 1), (2, 2, 6)]);
    sched.w_ex = bias.0;
    sched.w_h = bias.1;
    sched.w_net = bias.2;
    let conn = match connect_authenticated(&mut sched, &wire) {
        Ok(c) => c,
        Err(e) => {
            ctx.finding(index, "harness-or-hang", "-", "connect", json!({"error": e}));
            return;
        }
    };
    let w2 = wire.clone();
    sched.add_net(Box::new(move || w2.release_one()));
    let cap = *rng.pick(&[1usize, 2, 3, 5, 8]);
    let k = match rng.below(4) {
        0 if cap > 1 => cap - 1,
        1 => cap + 1,
        _ => cap,
    };
    let c2 = conn.clone();
    let stream = run_task(&mut sched, async move { MessageStream::for_match_rule("type='signal',interface='b.I'", &c2, Some(cap)).await });
    let mut stream = match stream {
        Some(Ok(s)) => s,
        other => {
            ctx.finding(index, "harness-or-hang", "-", "stream", json!({"result": format!("{:?}", other.map(|r| r.map(|_| ())))}));
            return;
        }
    };
    let mut bytes = Vec::new();
    for j in 0..k {
        bytes.extend_from_slice(&Msg::signal(100 + j as u32, "/b", "b.I", "S").with_sender(":1.9").with_body(vec![Val::U(j as u32)]).marshal());
    }
    let chunks: Vec<usize> = if rng.bool() { vec![] } else { vec![1 + rng.usize_below(40)] };
    wire.stage(&bytes, vec![], &chunks);
    // everything arrives and is queued behind the un-polled stream; then the transport fails
    sched.run_to_quiescence();
    let reset = rng.bool();
    if reset {
        wire.fail(Some(std::io::ErrorKind::ConnectionReset));
    } else {
        wire.set_eof();
    }
    sched.run_to_quiescence();
    // only now does the consumer look
    let out = run_task(&mut sched, async move {
        let mut got: Vec<u32> = Vec::new();
        let end;
        loop {
            match stream.next().await {
                Some(Ok(m)) => got.push(m.body().deserialize::<u32>().unwrap_or(u32::MAX)),
                Some(Err(e)) => {
                    end = format!("error: {e}");
                    break;
                }
                None => {
                    end = "end".to_string();
                    break;
                }
            }
        }
        (got, end)
    });
    ctx.distinct(sched.fingerprint() ^ fnv(&format!("backlog|{cap}|{k}|{reset}")));
    let want: Vec<u32> = (0..k as u32).collect();
    let relation = if k < cap { "one-short-of-full" } else if k == cap { "exactly-full" } else { "one-beyond-full" };
    ctx.count(&format!("class:backlog-{relation}"), 1);
    match out {
        None => ctx.finding(index, "stream-did-not-end", "backlog", relation, json!({"capacity": cap, "queued": k, "reset": reset, "trace": sched.trace_string()})),
        Some((got, end)) => {
            if got != want {
                ctx.finding(index, "received-messages-lost-at-failure", relation, if reset { "reset" } else { "eof" },
                    json!({"capacity": cap, "sent_and_received_before_the_failure": want, "stream_yielded": got, "then": end}));
            } else if index % 50 == 0 {
                ctx.sample(json!({"backlog_case": {"capacity": cap, "queued": k, "failure": if reset { "reset" } else { "eof" }, "stream_yielded": got, "then": end}}));
            }
        }
    }
}

pub fn run(ctx: &mut Ctx) {
    let nb = ctx.budget(1400, 40_000);
    for j in 0..nb {
        let i = 7_000_000_000 + j;
        if !ctx.want(i) {
            continue;
        }
        let mut rng = ctx.rng(i);
        ctx.guarded(i, "backlog-at-failure", || json!({}), |ctx| backlog_case(ctx, i, &mut rng));
    }
    // dry run: learn the inbound stream length, item boundaries and the number of write calls
    let dry = session(Fault::None, 42);
    let b = dry.total_inbound;
    let ends = dry.item_ends.clone();
    let wcalls = dry.write_calls.max(8) + 4;
    if ctx.args.shard == 0 {
        ctx.count("inbound_bytes", b as u64);
        ctx.count("fault_positions_total", (2 * (b as u64 + 1) + 2 * wcalls) as u64);
        if ends.len() != 6 {
            ctx.finding(0, "harness-dry-run-incomplete", "-", "-", json!({"items_staged": ends.len(), "trace": dry.trace}));
        }
        ctx.guarded(0, "no-fault", || json!({}), |ctx| {
            ctx.count("evaluations", 1);
            judge(ctx, 0, Fault::None, &dry, &ends);
        });
        ctx.sample(json!({"inbound_bytes": b, "item_ends": ends, "write_calls_without_fault": dry.write_calls}));
    }
    let schedules = if ctx.thorough() { 8 } else { 2 };
    let mut g = 0u64;
    let mut faults: Vec<Fault> = Vec::new();
    for off in 0..=b {
        faults.push(Fault::ReadAt(off, false));
        faults.push(Fault::ReadAt(off, true));
    }
    for w in 1..=wcalls {
        faults.push(Fault::WriteAt(w, false));
        faults.push(Fault::WriteAt(w, true));
    }
    for f in faults {
        for s in 0..schedules {
            g += 1;
            if !ctx.mine(g) || !ctx.want(g) {
                continue;
            }
            let seed = ctx.args.seed.wrapping_mul(1_000_003) ^ g.wrapping_mul(0x9E37) ^ s;
            let note = format!("fault {f:?} sched={s}");
            ctx.guarded(g, &note, || json!({"fault": format!("{f:?}")}), |ctx| {
                ctx.count("evaluations", 1);
                let r = session(f, seed);
                ctx.distinct(fnv(&format!("{f:?}")) ^ r.fingerprint);
                let e = if r.item_ends.len() == 6 { r.item_ends.clone() } else { ends.clone() };
                judge(ctx, g, f, &r, &e);
            });
        }
    }
}
