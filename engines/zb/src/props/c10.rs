//! C10 — names, object paths and GUIDs are validated exactly per the spec,
//! through every construction path.

use serde_json::json;
use vcommon::Ctx;
use vref::names as r;
use vref::prng::fnv;
use zbus::names::{BusName, ErrorName, InterfaceName, MemberName, PropertyName, UniqueName, WellKnownName};
use zbus::zvariant::serialized::{Context, Data};
use zbus::zvariant::{ObjectPath, Value, LE};
use zbus::Guid;

const ALPHABET: &[&str] = &["a", "Z", "0", "_", "-", ".", ":", "/", "é", "\0"];

fn leak(s: &str) -> &'static str {
    Box::leak(s.to_string().into_boxed_str())
}

/// D-Bus marshalling of a string at offset 0 (for the Deserialize path).
fn wire(s: &str) -> Vec<u8> {
    let mut b = (s.len() as u32).to_le_bytes().to_vec();
    b.extend_from_slice(s.as_bytes());
    b.push(0);
    b
}

macro_rules! check_type {
    ($ctx:expr, $index:expr, $s:expr, $deep:expr, $name:expr, $t:ty, $reference:expr, $static_ctor:expr) => {{
        let s: &str = $s;
        let want: bool = $reference;
        let ctx: &mut Ctx = $ctx;
        ctx.count("evaluations", 1);
        let show = if s.len() > 60 { format!("{}…(len {})", &s.chars().take(40).collect::<String>(), s.len()) } else { s.to_string() };
        let mut report = |path: &str, got: bool| {
            if got != want {
                let class = if got { "accepts-invalid" } else { "rejects-valid" };
                ctx.finding($index, class, $name, path, json!({"type": $name, "input": show, "path": path, "reference_accepts": want}));
            }
        };
        report("try_from-str", <$t>::try_from(s).is_ok());
        report("try_from-string", <$t>::try_from(s.to_string()).is_ok());
        if $deep {
            // from_static_str (leaks; sampled)
            let f: fn(&'static str) -> bool = $static_ctor;
            report("from_static_str", f(leak(s)));
            // from a dynamic value (for ObjectPath a Value::ObjectPath already holds a path: not a validation path)
            if $name != "ObjectPath" {
                report("try_from-value", <$t>::try_from(Value::from(s.to_string())).is_ok());
            }
            // serde Deserialize through D-Bus bytes (only UTF-8 without nul can be put on the wire as a valid string)
            if !s.contains('\0') {
                let bytes = wire(s);
                let data = Data::new(&bytes[..], Context::new_dbus(LE, 0));
                report("deserialize", data.deserialize::<$t>().is_ok());
            }
        }
    }};
}

fn check_all(ctx: &mut Ctx, index: u64, s: &str, deep: bool) {
    let b = s.as_bytes();
    check_type!(ctx, index, s, deep, "InterfaceName", InterfaceName<'_>, r::valid_interface_name(b), |x| InterfaceName::from_static_str(x).is_ok());
    check_type!(ctx, index, s, deep, "ErrorName", ErrorName<'_>, r::valid_error_name(b), |x| ErrorName::from_static_str(x).is_ok());
    check_type!(ctx, index, s, deep, "MemberName", MemberName<'_>, r::valid_member_name(b), |x| MemberName::from_static_str(x).is_ok());
    check_type!(ctx, index, s, deep, "PropertyName", PropertyName<'_>, r::valid_property_name(b), |x| PropertyName::from_static_str(x).is_ok());
    // documented exception: the bus driver's own name is accepted as a unique name
    check_type!(ctx, index, s, deep, "UniqueName", UniqueName<'_>, r::valid_unique_name(b) || s == "org.freedesktop.DBus", |x| UniqueName::from_static_str(x).is_ok());
    check_type!(ctx, index, s, deep, "WellKnownName", WellKnownName<'_>, r::valid_well_known_name(b), |x| WellKnownName::from_static_str(x).is_ok());
    check_type!(ctx, index, s, deep, "BusName", BusName<'_>, r::valid_bus_name(b), |x| BusName::from_static_str(x).is_ok());
    check_type!(ctx, index, s, deep, "ObjectPath", ObjectPath<'_>, r::valid_object_path(b), |x| ObjectPath::from_static_str(x).is_ok());
    // GUID: exactly 32 hex digits
    {
        ctx.count("evaluations", 1);
        let want = r::valid_guid(b);
        let mut paths: Vec<(&str, bool)> = vec![("try_from-str", Guid::try_from(s).is_ok()), ("from_str", s.parse::<Guid<'static>>().is_ok())];
        if deep {
            paths.push(("from_static_str", Guid::from_static_str(leak(s)).is_ok()));
            if !s.contains('\0') {
                let bytes = wire(s);
                let data = Data::new(&bytes[..], Context::new_dbus(LE, 0));
                paths.push(("deserialize", data.deserialize::<Guid<'_>>().is_ok()));
            }
        }
        for (path, got) in paths {
            if got != want {
                let class = if got { "accepts-invalid" } else { "rejects-valid" };
                let shape = guid_shape(s);
                ctx.finding(index, class, "Guid", &format!("{path}:{shape}"), json!({"type": "Guid", "input": s, "path": path, "reference_accepts": want}));
            }
        }
    }
}

fn guid_shape(s: &str) -> &'static str {
    if s.starts_with("urn:uuid:") {
        "urn"
    } else if s.starts_with('{') {
        "braced"
    } else if s.contains('-') {
        "hyphenated"
    } else {
        "other"
    }
}

/// One explored case written out for the evidence file: the input and what the reference recognisers say
/// (the implementation agreed on every path, or a finding was reported).
fn sample_of(s: &str, deep: bool) -> serde_json::Value {
    let b = s.as_bytes();
    json!({
        "input": s.escape_default().to_string(),
        "all_construction_paths": deep,
        "reference_accepts": {
            "InterfaceName": r::valid_interface_name(b), "ErrorName": r::valid_error_name(b), "MemberName": r::valid_member_name(b),
            "PropertyName": r::valid_property_name(b), "UniqueName": r::valid_unique_name(b), "WellKnownName": r::valid_well_known_name(b),
            "BusName": r::valid_bus_name(b), "ObjectPath": r::valid_object_path(b), "Guid": r::valid_guid(b),
        },
    })
}

pub fn run(ctx: &mut Ctx) {
    // exhaustive strings over the alphabet
    let max_len = if ctx.thorough() { 7 } else { 5 };
    let k = ALPHABET.len() as u64;
    let mut global = 0u64;
    let mut total = 0u64;
    for len in 0..=max_len {
        let count = k.pow(len as u32);
        total += count;
        for n in 0..count {
            let g = global + n;
            if !ctx.mine(g) || !ctx.want(g) {
                continue;
            }
            let mut x = n;
            let mut parts = vec![""; len];
            for j in (0..len).rev() {
                parts[j] = ALPHABET[(x % k) as usize];
                x /= k;
            }
            let s: String = parts.concat();
            if g % 4096 == 0 {
                ctx.journal(g, "enum");
            }
            // the expensive construction paths on a sample (and on all short strings)
            let deep = len <= 3 || g % 37 == 0;
            check_all(ctx, g, &s, deep);
            ctx.distinct(fnv(&s));
            if len >= 3 && g % 1009 == 0 {
                ctx.sample(sample_of(&s, deep));
            }
        }
        global += count;
    }
    if ctx.args.shard == 0 {
        ctx.count("exhaustive_strings_total", total);
        ctx.count("exhaustive_max_len", max_len as u64);
    }
    // limit constructions and UUID-shaped GUIDs
    if ctx.args.shard == 0 {
        let mut fam: Vec<String> = Vec::new();
        for n in [254usize, 255, 256, 257] {
            fam.push(format!("a.{}", "b".repeat(n - 2)));
            fam.push(format!(":1.{}", "2".repeat(n - 3)));
            fam.push("m".repeat(n));
            fam.push(format!("/{}", "p".repeat(n - 1)));
            fam.push(format!("{}.x", "a.".repeat((n - 2) / 2)));
        }
        let hex32 = "0123456789abcdefABCDEF0123456789";
        fam.push(hex32.to_string());
        fam.push(hex32[..31].to_string());
        fam.push(format!("{hex32}0"));
        fam.push("01234567-89ab-cdef-ABCD-EF0123456789".into());
        fam.push("{01234567-89ab-cdef-ABCD-EF0123456789}".into());
        fam.push("urn:uuid:01234567-89ab-cdef-ABCD-EF0123456789".into());
        fam.push("0123456789abcdefABCDEF012345678g".into());
        fam.push("org.freedesktop.DBus".into());
        fam.push("org.freedesktop.DBus.Local".into());
        for (j, s) in fam.iter().enumerate() {
            let idx = 9_000_000_000 + j as u64;
            if ctx.want(idx) {
                let s2 = s.clone();
                ctx.guarded(idx, "boundary", || json!({"input_len": s2.len()}), |ctx| check_all(ctx, idx, &s2, true));
                ctx.count("boundary_strings", 1);
            }
        }
        if let Some(last) = fam.last() {
            ctx.sample(sample_of(last, true));
        }
    }
    // every ASCII byte (and one two-byte character) substituted for, and inserted before, every position of one
    // valid specimen per type: characters outside the small exhaustive alphabet (`+`, space, `g`, `x`, …) at every position,
    // through every construction path
    let specimens: &[&str] = &["0123456789abcdefABCDEF0123456789", "a.b_c.D9", "a-b.c-d", ":1.42", "/a/b_9", "Member_9"];
    let mut idx = 9_100_000_000u64;
    for sp in specimens {
        let chars: Vec<char> = sp.chars().collect();
        for pos in 0..=chars.len() {
            for c in (0u8..128).map(|b| b as char).chain(std::iter::once('é')) {
                for insert in [false, true] {
                    idx += 1;
                    if pos == chars.len() && !insert {
                        continue;
                    }
                    if !ctx.mine(idx) || !ctx.want(idx) {
                        continue;
                    }
                    // (the interpreter is ~10^4 times slower: a sample of the family)
                    if cfg!(miri) && idx % 97 != 0 {
                        continue;
                    }
                    let mut v = chars.clone();
                    if insert {
                        v.insert(pos, c);
                    } else {
                        v[pos] = c;
                    }
                    let s: String = v.into_iter().collect();
                    check_all(ctx, idx, &s, true);
                    ctx.distinct(fnv(&s));
                    ctx.count("substituted_specimens", 1);
                    if idx % 499 == 0 {
                        ctx.sample(sample_of(&s, true));
                    }
                }
            }
        }
    }
}
