//! C29 — interfaces that disable task spawning handle calls in arrival order;
//! with spawning enabled every call still gets its reply.
//!
//! Handlers log `start id`, park on a harness gate, yield a few times and log
//! `end id`. The harness opens the gates in an order chosen to provoke
//! reordering (later calls first). Verdicts are taken at scheduler quiescence.

use crate::harness::peer::RawPeer;
use crate::harness::sched::Sched;
use crate::harness::util::*;
use crate::harness::wire::Wire;
use crate::props::c24::run_task;
use crate::props::c39::{open_gate, wait_gate, Gates, SharedGates};
use serde_json::json;
use std::sync::{Arc, Mutex};
use std::task::Poll;
use vcommon::Ctx;
use vref::msg::*;
use vref::prng::{fnv, Rng};
use vref::val::Val;

async fn yield_times(n: u32) {
    for _ in 0..n {
        let mut yielded = false;
        std::future::poll_fn(|cx| {
            if yielded {
                Poll::Ready(())
            } else {
                yielded = true;
                cx.waker().wake_by_ref();
                Poll::Pending
            }
        })
        .await;
    }
}

async fn body(gates: &SharedGates, tag: &str, id: u32, yields: u32) -> u32 {
    gates.lock().unwrap().log.push(format!("start {tag} {id}"));
    yield_times(yields / 2).await;
    wait_gate(gates.clone(), id).await;
    yield_times(yields - yields / 2).await;
    gates.lock().unwrap().log.push(format!("end {tag} {id}"));
    id
}

pub struct Seq {
    gates: SharedGates,
    n: u32,
}

#[zbus::interface(name = "t.Seq", spawn = false)]
impl Seq {
    async fn work(&self, id: u32, yields: u32) -> u32 {
        body(&self.gates, "seq", id, yields).await
    }
    async fn work_mut(&mut self, id: u32, yields: u32) -> u32 {
        self.n += 1;
        body(&self.gates, "seq", id, yields).await
    }
    /// does not wait on anything
    fn quick(&self, id: u32) -> u32 {
        let mut g = self.gates.lock().unwrap();
        g.log.push(format!("start seq {id}"));
        g.log.push(format!("end seq {id}"));
        id
    }
}

pub struct Par {
    gates: SharedGates,
}

#[zbus::interface(name = "t.Par")]
impl Par {
    async fn work(&self, id: u32, yields: u32) -> u32 {
        body(&self.gates, "par", id, yields).await
    }
}

fn case(ctx: &mut Ctx, index: u64, rng: &mut Rng) {
    ctx.count("evaluations", 1);
    let wire = Wire::new(rng.next_u64());
    let mut sched = Sched::new(Rng::new(rng.next_u64()));
    let bias = *rng.pick(&[(4u64, 3u64, 2u64), (6, 1, 6), (1, 6, 1), (2, 2, 6), (1, 1, 1), (8, 1, 1)]);
    sched.w_ex = bias.0;
    sched.w_h = bias.1;
    sched.w_net = bias.2;
    let conn = match connect_authenticated(&mut sched, &wire) {
        Ok(c) => c,
        Err(e) => {
            ctx.finding(index, "harness-or-hang", "-", "connect", json!({"error": e}));
            return;
        }
    };
    let w2 = wire.clone();
    sched.add_net(Box::new(move || w2.release_one()));
    let gates: SharedGates = Arc::new(Mutex::new(Gates::default()));
    let (g1, g2, g3, c2) = (gates.clone(), gates.clone(), gates.clone(), conn.clone());
    let ok = run_task(&mut sched, async move {
        let os = c2.object_server();
        os.at("/seq", Seq { gates: g1, n: 0 }).await.is_ok() && os.at("/par", Par { gates: g2 }).await.is_ok() && os.at("/seq2", Seq { gates: g3, n: 0 }).await.is_ok()
    });
    if ok != Some(true) {
        ctx.finding(index, "setup-did-not-complete", "-", "-", json!({}));
        return;
    }
    sched.run_to_quiescence();
    let mut peer = RawPeer::new(&wire);
    // in a quarter of the cases the APPLICATION holds the sequential interface exclusively (InterfaceRef::get_mut) while the burst
    // arrives and releases it at some point of the gate order: calls must wait for it and still run in arrival order
    let held = rng.chance(1, 4);
    if held {
        let (c3, g4) = (conn.clone(), gates.clone());
        sched.spawn("holder", async move {
            if let Ok(iref) = c3.object_server().interface::<_, Seq>("/seq").await {
                let mut guard = iref.get_mut().await;
                guard.n += 1;
                wait_gate(g4, 9999).await;
                drop(guard);
            }
        });
        sched.run_to_quiescence();
        ctx.count("class:interface-held-exclusively-by-the-application", 1);
    }
    // the burst
    let n = 2 + rng.usize_below(if ctx.thorough() { 10 } else { 7 });
    let par_share = *rng.pick(&[0u64, 0, 30, 50]);
    #[derive(Clone)]
    struct Call {
        id: u32,
        serial: u32,
        target: &'static str, // "seq", "par", "seq2"
        gated: bool,
        noreply: bool,
    }
    let mut calls: Vec<Call> = Vec::new();
    let mut stream: Vec<u8> = Vec::new();
    for k in 0..n {
        let id = 1 + k as u32;
        let target = if rng.below(100) < par_share { "par" } else if rng.chance(1, 8) { "seq2" } else { "seq" };
        let serial = peer.serial();
        let yields = rng.below(5) as u32;
        let quick = target != "par" && rng.chance(1, 6);
        let noreply = rng.chance(1, 10);
        let (path, iface) = match target {
            "par" => ("/par", "t.Par"),
            "seq2" => ("/seq2", "t.Seq"),
            _ => ("/seq", "t.Seq"),
        };
        let mut m = if quick {
            Msg::method_call(serial, path, Some(iface), "Quick").with_body(vec![Val::U(id)])
        } else {
            let member = if target != "par" && rng.chance(1, 4) { "WorkMut" } else { "Work" };
            Msg::method_call(serial, path, Some(iface), member).with_body(vec![Val::U(id), Val::U(yields)])
        };
        if noreply {
            m = m.with_flags(1);
        }
        stream.extend_from_slice(&m.marshal());
        calls.push(Call { id, serial, target, gated: !quick, noreply });
    }
    // delivered in arbitrary chunks: several calls can arrive in one read, or one call in many
    let chunks: Vec<usize> = match rng.below(4) {
        0 => vec![],
        1 => vec![1 + rng.usize_below(16)],
        2 => vec![stream.len() / 2 + 1],
        _ => (0..6).map(|_| 1 + rng.usize_below(200)).collect(),
    };
    wire.stage(&stream, vec![], &chunks);
    // gate order: provoke reordering by opening later calls first (sometimes fully reversed, sometimes random),
    // with scheduler activity in between
    let mut order: Vec<u32> = calls.iter().filter(|c| c.gated).map(|c| c.id).collect();
    match rng.below(3) {
        0 => order.reverse(),
        1 => rng.shuffle(&mut order),
        _ => {
            // everything except the first sequential call, then that one last
            if let Some(first) = calls.iter().find(|c| c.gated && c.target == "seq").map(|c| c.id) {
                order.retain(|x| *x != first);
                rng.shuffle(&mut order);
                order.push(first);
            }
        }
    }
    if held {
        let at = rng.usize_below(order.len() + 1);
        order.insert(at, 9999);
    }
    // some gates are opened before the calls even arrive
    let pre = rng.usize_below(order.len() + 1).min(if rng.bool() { 0 } else { order.len() });
    for id in order.iter().take(pre) {
        open_gate(&gates, *id);
    }
    for id in order.iter().skip(pre) {
        if rng.bool() {
            sched.run_to_quiescence();
        } else {
            sched.run_steps(rng.below(30));
        }
        open_gate(&gates, *id);
    }
    let q = sched.run_to_quiescence();
    let log = gates.lock().unwrap().log.clone();
    let replies = peer.pump();
    ctx.distinct(sched.fingerprint() ^ fnv(&format!("{order:?}")));
    let desc = |extra: serde_json::Value| {
        json!({"calls": calls.iter().map(|c| format!("{}#{}{}{}", c.target, c.id, if c.gated { "" } else { "(quick)" }, if c.noreply { "(noreply)" } else { "" })).collect::<Vec<_>>(),
               "gate_order": order, "gates_open_before_arrival": pre, "log": log, "quiescent": q, "info": extra, "trace": sched.trace_string()})
    };
    // no-spawn interfaces: strictly sequential, in arrival order (per registered interface instance)
    for target in ["seq", "seq2"] {
        let expect: Vec<String> = calls.iter().filter(|c| c.target == target).flat_map(|c| vec![format!("start seq {}", c.id), format!("end seq {}", c.id)]).collect();
        let ids: Vec<u32> = calls.iter().filter(|c| c.target == target).map(|c| c.id).collect();
        let got: Vec<String> = log.iter().filter(|l| l.contains(" seq ") && ids.iter().any(|i| l.ends_with(&format!(" {i}")))).cloned().collect();
        ctx.count("sequential_calls_checked", ids.len() as u64);
        if got != expect {
            // classify
            let started: Vec<&String> = got.iter().filter(|l| l.starts_with("start")).collect();
            let want_started: Vec<&String> = expect.iter().filter(|l| l.starts_with("start")).collect();
            let reason = if got.len() < expect.len() && expect.starts_with(&got) {
                "calls-not-all-executed"
            } else if started != want_started {
                "started-out-of-arrival-order"
            } else {
                "call-started-before-previous-ended"
            };
            ctx.finding(index, "no-spawn-order-violated", reason, "-", desc(json!({"instance": target, "expected": expect, "observed": got})));
            return;
        }
    }
    // exactly one reply per call (none for no-reply calls), spawn or not
    let mut overlap = false;
    {
        let mut open = 0;
        for l in log.iter().filter(|l| l.contains(" par ")) {
            if l.starts_with("start") {
                open += 1;
                if open > 1 {
                    overlap = true;
                }
            } else {
                open -= 1;
            }
        }
    }
    if overlap {
        ctx.count("class:spawned-handlers-overlapped", 1);
    }
    if calls.iter().filter(|c| c.target != "par").count() >= 2 {
        ctx.count("class:burst-with-2+-sequential-calls", 1);
    }
    for c in &calls {
        let rs: Vec<_> = replies.iter().filter(|r| r.msg.reply_serial() == Some(c.serial)).collect();
        ctx.count("calls_checked", 1);
        let want = if c.noreply { 0 } else { 1 };
        if rs.len() != want {
            let class = if c.target == "par" { "spawned-call-reply-count" } else { "sequential-call-reply-count" };
            ctx.finding(index, class, &format!("expected-{want}-got-{}", rs.len().min(2)), "-", desc(json!({"call": c.id})));
            return;
        }
        if let Some(r) = rs.first() {
            if r.msg.mtype != METHOD_RETURN || r.msg.body.first() != Some(&Val::U(c.id)) {
                ctx.finding(index, "wrong-reply", "-", "-", desc(json!({"call": c.id, "reply_type": r.msg.mtype, "error": r.msg.error_name(), "body": r.msg.body.iter().map(|b| b.show()).collect::<Vec<_>>()})));
                return;
            }
        }
    }
    if !peer.parse_errors.is_empty() {
        ctx.finding(index, "peer-could-not-parse-zbus-output", "-", "-", json!({"errors": peer.parse_errors}));
    }
    ctx.sample(desc(json!({"replies": replies.len()})));
}

/// While the first sequential call is parked, nothing behind it may start, whatever gates are open.
fn parked_case(ctx: &mut Ctx, index: u64, rng: &mut Rng) {
    ctx.count("evaluations", 1);
    ctx.count("class:head-of-line-parked", 1);
    let wire = Wire::new(rng.next_u64());
    let mut sched = Sched::new(Rng::new(rng.next_u64()));
    let conn = match connect_authenticated(&mut sched, &wire) {
        Ok(c) => c,
        Err(e) => {
            ctx.finding(index, "harness-or-hang", "-", "connect", json!({"error": e}));
            return;
        }
    };
    let w2 = wire.clone();
    sched.add_net(Box::new(move || w2.release_one()));
    let gates: SharedGates = Arc::new(Mutex::new(Gates::default()));
    let (g1, c2) = (gates.clone(), conn.clone());
    let ok = run_task(&mut sched, async move { c2.object_server().at("/seq", Seq { gates: g1, n: 0 }).await.is_ok() });
    if ok != Some(true) {
        ctx.finding(index, "setup-did-not-complete", "-", "-", json!({}));
        return;
    }
    sched.run_to_quiescence();
    let mut peer = RawPeer::new(&wire);
    let n = 2 + rng.usize_below(5);
    let mut serials = Vec::new();
    for id in 1..=n as u32 {
        let s = peer.serial();
        let member = if rng.chance(1, 3) { "WorkMut" } else { "Work" };
        peer.send(&Msg::method_call(s, "/seq", Some("t.Seq"), member).with_body(vec![Val::U(id), Val::U(rng.below(4) as u32)]), vec![], &[]);
        serials.push((id, s));
    }
    // every gate but the first is open
    for id in 2..=n as u32 {
        open_gate(&gates, id);
    }
    sched.run_to_quiescence();
    let log = gates.lock().unwrap().log.clone();
    ctx.distinct(sched.fingerprint() ^ n as u64);
    ctx.count("sequential_calls_checked", n as u64);
    if log != vec!["start seq 1".to_string()] {
        ctx.finding(index, "no-spawn-order-violated", "later-call-ran-while-first-was-parked", "-", json!({"log": log, "calls": n, "trace": sched.trace_string()}));
        return;
    }
    if !peer.pump().is_empty() {
        ctx.finding(index, "reply-before-handler-finished", "-", "-", json!({"log": log}));
        return;
    }
    open_gate(&gates, 1);
    sched.run_to_quiescence();
    let log = gates.lock().unwrap().log.clone();
    let expect: Vec<String> = (1..=n as u32).flat_map(|i| vec![format!("start seq {i}"), format!("end seq {i}")]).collect();
    if log != expect {
        ctx.finding(index, "no-spawn-order-violated", "after-release", "-", json!({"log": log, "expected": expect}));
        return;
    }
    let replies = peer.pump();
    let order: Vec<u32> = replies.iter().filter_map(|r| r.msg.reply_serial()).collect();
    let want: Vec<u32> = serials.iter().map(|(_, s)| *s).collect();
    ctx.count("calls_checked", n as u64);
    if order != want {
        ctx.finding(index, "sequential-call-reply-count", "replies-missing-or-reordered", "-", json!({"reply_serials": order, "call_serials": want}));
    }
}

pub fn run(ctx: &mut Ctx) {
    let n = ctx.budget(4000, 200_000);
    for i in 0..n {
        if !ctx.want(i) {
            continue;
        }
        let mut rng = ctx.rng(i);
        if i % 5 == 4 {
            ctx.guarded(i, "parked", || json!({}), |ctx| parked_case(ctx, i, &mut rng));
        } else {
            ctx.guarded(i, "burst", || json!({}), |ctx| case(ctx, i, &mut rng));
        }
    }
}
