//! C11 — built messages parse back to the same header and body, and their
//! bytes follow the D-Bus message format.

use crate::conv::*;
use crate::msggen::*;
use serde_json::json;
use std::num::NonZeroU32;
use std::os::fd::{AsFd, AsRawFd, OwnedFd};
use vcommon::Ctx;
use vref::dbus::Endian;
use vref::msg::*;
use vref::prng::fnv;
use vref::val::Val;
use zbus::message::{Flags, Message, Type};
use zbus::zvariant::serialized::{Context, Data};
use zbus::zvariant::{Structure, Value};

pub fn fd_pool() -> Vec<OwnedFd> {
    ["/dev/null", "/dev/zero", "/dev/full", "/dev/urandom"]
        .iter()
        .map(|p| OwnedFd::from(std::fs::File::open(p).expect("open fd pool file")))
        .collect()
}

pub fn zendian(e: Endian) -> zbus::zvariant::Endian {
    match e {
        Endian::Le => zbus::zvariant::Endian::Little,
        Endian::Be => zbus::zvariant::Endian::Big,
    }
}

/// Build `m` through the library's Builder. Fd values refer to `pool`.
pub fn lib_build(m: &Msg, pool: &[OwnedFd]) -> zbus::Result<Message> {
    lib_build_via(m, pool, false)
}

/// `via_header`: first build a donor message with the same header fields but ANOTHER body (a string and two fds), then
/// start from `Builder::from(donor.header())`: signature and fd count of the result must be the new body's.
pub fn lib_build_via(m: &Msg, pool: &[OwnedFd], via_header: bool) -> zbus::Result<Message> {
    let fds: Vec<_> = pool.iter().map(|f| f.as_fd()).collect();
    if via_header && pool.len() >= 2 {
        let mut donor = m.clone();
        donor.body = vec![Val::S("donor".into()), Val::H(0), Val::H(1)];
        let d = lib_build_via(&donor, pool, false)?;
        let b = zbus::message::Builder::from(d.header());
        return finish(b, m, &fds);
    }
    let mut b = match m.mtype {
        METHOD_CALL => Message::method_call(m.path().unwrap(), m.member().unwrap())?,
        SIGNAL => Message::signal(m.path().unwrap(), m.interface().unwrap(), m.member().unwrap())?,
        METHOD_RETURN | ERROR => {
            // method_return()/error() take the header of the call being answered
            let call = Message::method_call("/", "X")?
                .serial(NonZeroU32::new(m.reply_serial().unwrap()).unwrap())
                .build(&())?;
            let hdr = call.header();
            if m.mtype == METHOD_RETURN {
                Message::method_return(&hdr)?
            } else {
                Message::error(&hdr, m.error_name().unwrap())?
            }
        }
        _ => unreachable!(),
    };
    if m.mtype == METHOD_CALL {
        if let Some(i) = m.interface() {
            b = b.interface(i)?;
        }
    }
    if let Some(d) = m.destination() {
        b = b.destination(d)?;
    }
    if let Some(s) = m.sender() {
        b = b.sender(s)?;
    }
    b = b.serial(NonZeroU32::new(m.serial).unwrap()).endian(zendian(m.endian));
    for (bit, flag) in [(1u8, Flags::NoReplyExpected), (2, Flags::NoAutoStart), (4, Flags::AllowInteractiveAuth)] {
        if m.flags & bit != 0 {
            b = b.with_flags(flag)?;
        }
    }
    finish(b, m, &fds)
}

fn finish(b: zbus::message::Builder<'_>, m: &Msg, fds: &[std::os::fd::BorrowedFd<'_>]) -> zbus::Result<Message> {
    let fds = fds.to_vec();
    match m.body.len() {
        0 => b.build(&()),
        1 if !matches!(m.body[0], Val::St(_)) => {
            // a single non-struct argument: serialise it as its own type
            let z = to_zvalue(&m.body[0], &fds);
            match &z {
                Value::U8(x) => b.build(x),
                Value::Bool(x) => b.build(x),
                Value::I16(x) => b.build(x),
                Value::U16(x) => b.build(x),
                Value::I32(x) => b.build(x),
                Value::U32(x) => b.build(x),
                Value::I64(x) => b.build(x),
                Value::U64(x) => b.build(x),
                Value::F64(x) => b.build(x),
                Value::Str(x) => b.build(x),
                Value::Signature(x) => b.build(x),
                Value::ObjectPath(x) => b.build(x),
                Value::Value(x) => b.build(&**x),
                Value::Array(x) => b.build(x),
                Value::Fd(x) => b.build(x),
                _ => {
                    let s = Structure::try_from(to_zvalue(&Val::St(m.body.clone()), &fds)).unwrap();
                    b.build(&s)
                }
            }
        }
        _ => {
            let s = Structure::try_from(to_zvalue(&Val::St(m.body.clone()), &fds)).unwrap();
            b.build(&s)
        }
    }
}

fn sorted_fields(m: &Msg) -> Vec<(u8, Val)> {
    let mut f = m.fields.clone();
    f.sort_by_key(|x| x.0);
    f
}

pub fn run(ctx: &mut Ctx) {
    let pool = fd_pool();
    let pool_ids: Vec<(u64, u64)> = pool.iter().map(|f| dev_ino(f.as_fd())).collect();
    let n = ctx.budget(20_000, 2_000_000);
    for i in 0..n {
        if !ctx.want(i) {
            continue;
        }
        let mut rng = ctx.rng(i);
        let big = rng.chance(1, 30);
        let allow_fd = rng.chance(1, 5);
        let m = gen_msg(&mut rng, &MsgOpts { allow_fd, max_body_args: 4, big });
        let note = format!("build type={} body={}", m.mtype, m.body_sig_string());
        let shown = format!("{:?}", m.fields);
        ctx.guarded(i, &note, || json!({"fields": shown, "body_sig": m.body_sig_string()}), |ctx| check(ctx, i, &m, &pool, &pool_ids));
        if i < 2 {
            ctx.sample(json!({"type": m.mtype, "flags": m.flags, "endian": m.endian.name(), "fields": format!("{:?}", m.fields), "body": m.body.iter().map(|b| b.show()).collect::<Vec<_>>()}));
        }
    }
}

pub fn dev_ino(fd: std::os::fd::BorrowedFd<'_>) -> (u64, u64) {
    use std::os::unix::fs::MetadataExt;
    let f = std::fs::File::from(fd.try_clone_to_owned().expect("dup"));
    let m = f.metadata().expect("fstat");
    (m.dev(), m.ino())
}

fn map_fd(v: &Val, attached: &[(u64, u64)], pool: &[(u64, u64)]) -> Val {
    match v {
        Val::H(i) => Val::H(
            attached.get(*i as usize).and_then(|id| pool.iter().position(|p| p == id)).map(|j| j as u32).unwrap_or(u32::MAX),
        ),
        Val::V(x) => Val::V(Box::new(map_fd(x, attached, pool))),
        Val::A(e, xs) => Val::A(e.clone(), xs.iter().map(|x| map_fd(x, attached, pool)).collect()),
        Val::Dict(k, vv, es) => Val::Dict(k.clone(), vv.clone(), es.iter().map(|(a, b)| (map_fd(a, attached, pool), map_fd(b, attached, pool))).collect()),
        Val::St(fs) => Val::St(fs.iter().map(|x| map_fd(x, attached, pool)).collect()),
        other => other.clone(),
    }
}

fn check(ctx: &mut Ctx, index: u64, m: &Msg, pool: &[OwnedFd], pool_ids: &[(u64, u64)]) {
    ctx.count("evaluations", 1);
    ctx.count(&format!("type:{}", m.mtype), 1);
    let mut fieldset: Vec<u8> = m.fields.iter().map(|f| f.0).collect();
    fieldset.sort();
    ctx.distinct(fnv(&format!("{}|{}|{:?}|{}|{}", m.mtype, m.flags, fieldset, m.endian.name(), m.body_sig_string())));
    let loc = format!("type{}", m.mtype);
    let detail = |x: serde_json::Value| json!({"type": m.mtype, "flags": m.flags, "endian": m.endian.name(), "fields": format!("{:?}", m.fields),
        "body": m.body.iter().map(|b| b.show()).collect::<Vec<_>>(), "info": x});
    let via_header = index % 4 == 3;
    if via_header {
        ctx.count("class:rebuilt-from-a-header", 1);
    }
    let loc = if via_header { format!("{loc}:rebuilt-from-header") } else { loc };
    let msg = match lib_build_via(m, pool, via_header) {
        Ok(x) => x,
        Err(e) => {
            ctx.finding(index, "build-error", "-", &loc, detail(json!({"error": e.to_string()})));
            return;
        }
    };
    let data = msg.data();
    let bytes = data.bytes().to_vec();
    let attached: Vec<(u64, u64)> = data.fds().iter().map(|f| dev_ino(f.as_fd())).collect();
    // (1) the bytes are a well-formed message per the reference parser
    let parsed = match parse(&bytes, Some(attached.len() as u32)) {
        Ok(p) => p,
        Err(e) => {
            ctx.finding(index, "bytes-not-a-valid-message", &e.split(':').next().unwrap_or("?").to_string(), &loc, detail(json!({"parse_error": e, "bytes": vref::hex(&bytes)})));
            return;
        }
    };
    let p = &parsed.msg;
    let mut diffs: Vec<String> = Vec::new();
    if p.endian != m.endian {
        diffs.push("endian".into());
    }
    if p.mtype != m.mtype {
        diffs.push("type".into());
    }
    if p.flags != m.flags {
        diffs.push(format!("flags {} != {}", p.flags, m.flags));
    }
    if p.version != 1 {
        diffs.push("version".into());
    }
    if p.serial != m.serial {
        diffs.push("serial".into());
    }
    // requested fields (SIGNATURE and UNIX_FDS are derived)
    let want: Vec<(u8, Val)> = sorted_fields(m);
    let got: Vec<(u8, Val)> = sorted_fields(p).into_iter().filter(|(c, _)| *c != F_SIGNATURE && *c != F_UNIX_FDS).collect();
    if want != got {
        diffs.push(format!("fields {:?} != {:?}", got, want));
    }
    let nfd_mentions: usize = m.body.iter().map(|b| b.count_fds()).sum();
    // body signature printed without outer parentheses
    if p.signature() != m.body_sig_string() {
        diffs.push(format!("signature field {:?} != {:?}", p.signature(), m.body_sig_string()));
    }
    // UNIX_FDS == attached, and as many as needed
    let declared_fds = p.field_u32(F_UNIX_FDS).unwrap_or(0) as usize;
    if declared_fds != attached.len() {
        diffs.push(format!("UNIX_FDS {} != attached {}", declared_fds, attached.len()));
    }
    if (nfd_mentions == 0) != attached.is_empty() {
        diffs.push(format!("fd mentions {} but attached {}", nfd_mentions, attached.len()));
    }
    if parsed.body_offset % 8 != 0 {
        diffs.push("body offset not a multiple of 8".into());
    }
    // body value (fd indices mapped to files; dict order free)
    let got_body: Vec<Val> = p.body.iter().map(|b| sort_dicts(&map_fd(b, &attached, pool_ids))).collect();
    let want_body: Vec<Val> = m.body.iter().map(sort_dicts).collect();
    if got_body != want_body {
        diffs.push("body value differs".into());
    }
    // body bytes are the reference marshalling of what they denote
    if vref::dbus::marshal_seq(&p.body, m.endian, 0) != parsed.body_bytes {
        diffs.push("body bytes are not the reference marshalling".into());
    }
    for d in &diffs {
        let reason = d.split(' ').next().unwrap_or("?");
        ctx.finding(index, "built-message-differs", reason, &loc, detail(json!({"difference": d, "bytes": vref::hex(&bytes[..bytes.len().min(400)])})));
    }
    // (2) re-parse with the library
    let ctxt = Context::new_dbus(zendian(m.endian), 0);
    let owned_fds: Vec<OwnedFd> = data.fds().iter().map(|f| f.as_fd().try_clone_to_owned().unwrap()).collect();
    let raws: Vec<i32> = owned_fds.iter().map(|f| f.as_raw_fd()).collect();
    let redata = Data::new_fds(bytes.clone(), ctxt, owned_fds);
    let re = match unsafe { Message::from_bytes(redata) } {
        Ok(x) => x,
        Err(e) => {
            ctx.finding(index, "reparse-error", "-", &loc, detail(json!({"error": e.to_string(), "bytes": vref::hex(&bytes[..bytes.len().min(400)])})));
            return;
        }
    };
    let h = re.header();
    let ph = re.primary_header();
    let mut rd: Vec<String> = Vec::new();
    let t = match m.mtype {
        1 => Type::MethodCall,
        2 => Type::MethodReturn,
        3 => Type::Error,
        _ => Type::Signal,
    };
    if re.message_type() != t || h.message_type() != t {
        rd.push("type".into());
    }
    if ph.serial_num().get() != m.serial {
        rd.push("serial".into());
    }
    if ph.flags().bits() != m.flags {
        rd.push("flags".into());
    }
    if ph.body_len() as usize != parsed.body_bytes.len() {
        rd.push("body_len".into());
    }
    if h.path().map(|x| x.as_str()) != m.path() {
        rd.push("path".into());
    }
    if h.interface().map(|x| x.as_str()) != m.interface() {
        rd.push("interface".into());
    }
    if h.member().map(|x| x.as_str()) != m.member() {
        rd.push("member".into());
    }
    if h.error_name().map(|x| x.as_str()) != m.error_name() {
        rd.push("error_name".into());
    }
    if h.reply_serial().map(|x| x.get()) != m.reply_serial() {
        rd.push("reply_serial".into());
    }
    if h.destination().map(|x| x.as_str()) != m.destination() {
        rd.push("destination".into());
    }
    if h.sender().map(|x| x.as_str()) != m.sender() {
        rd.push("sender".into());
    }
    if h.unix_fds().unwrap_or(0) as usize != attached.len() {
        rd.push("unix_fds".into());
    }
    let body = re.body();
    // The library's Signature cannot tell one struct argument "(iu)" from two arguments "iu"
    // (documented outer parentheses): both spellings are accepted for a single struct argument.
    let single_struct = m.body.len() == 1 && matches!(m.body[0], Val::St(_));
    let lib_sig = body.signature().to_string_no_parens();
    let sig_ok = lib_sig == m.body_sig_string() || (single_struct && format!("({lib_sig})") == m.body_sig_string());
    if !sig_ok {
        rd.push(format!("body_signature {} != {}", lib_sig, m.body_sig_string()));
    }
    if body.len() != parsed.body_bytes.len() {
        rd.push("body.len".into());
    }
    // body value through the library
    if m.body.len() >= 2 || (m.body.len() == 1 && matches!(m.body[0], Val::St(_))) {
        match body.deserialize::<Structure<'_>>() {
            Ok(s) => {
                let v = from_zvalue(&Value::Structure(s), &raws);
                let attached2: Vec<(u64, u64)> = attached.clone();
                let got = match v {
                    Val::St(fs) => fs.iter().map(|b| sort_dicts(&map_fd(b, &attached2, pool_ids))).collect::<Vec<_>>(),
                    _ => vec![],
                };
                let want_lib: Vec<Val> = if single_struct {
                    match &want_body[0] {
                        Val::St(fs) => fs.clone(),
                        _ => unreachable!(),
                    }
                } else {
                    want_body.clone()
                };
                if got != want_lib {
                    rd.push("body value (library decode)".into());
                }
                ctx.count("class:body-decoded-by-library", 1);
            }
            Err(e) => rd.push(format!("body-decode-error {e}")),
        }
    } else if m.body.len() == 1 {
        if let Val::S(s) = &m.body[0] {
            match body.deserialize::<&str>() {
                Ok(x) if x == s => {}
                other => rd.push(format!("body-str {:?}", other)),
            }
        }
    } else if !body.is_empty() {
        rd.push("empty body has bytes".into());
    }
    for d in rd {
        let reason = d.split(' ').next().unwrap_or("?").to_string();
        ctx.finding(index, "reparse-differs", &reason, &loc, detail(json!({"difference": d})));
    }
}
