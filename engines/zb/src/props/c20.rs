//! C20 — message streams deliver every matching message once, in order, while
//! subscribed; equal rules share one subscription that lives until the last
//! stream goes.
//!
//! Histories are organised in rounds separated by quiescence: within a round
//! stream creations/drops race with incoming messages under the seeded
//! scheduler; a stream that was live through a whole round must receive every
//! matching message of that round, messages of its creation/drop round are
//! optional, anything else is forbidden.

use crate::harness::peer::RawPeer;
use crate::harness::sched::Sched;
use crate::harness::util::*;
use crate::harness::wire::Wire;
use futures_lite::StreamExt;
use serde_json::json;
use std::cell::{Cell, RefCell};
use std::rc::Rc;
use vcommon::Ctx;
use vref::msg::*;
use vref::prng::{fnv, Rng};
use vref::val::Val;
use zbus::{AsyncDrop, MessageStream};

const RULES: &[(&str, Option<&str>, Option<&str>)] = &[
    ("type='signal',interface='r.A'", Some("r.A"), None),
    ("type='signal',interface='r.B'", Some("r.B"), None),
    ("type='signal',interface='r.A',member='M1'", Some("r.A"), Some("M1")),
    ("type='signal'", None, None),
    ("type='signal',member='M2'", None, Some("M2")),
];

fn rule_matches(r: usize, iface: &str, member: &str) -> bool {
    let (_, i, m) = RULES[r];
    i.map_or(true, |x| x == iface) && m.map_or(true, |x| x == member)
}

#[derive(Clone, Copy, PartialEq, Debug)]
enum DropMode {
    Sync,
    Async,
    CloneThenDropOriginal,
}

struct StreamRec {
    rule: usize,
    cap: usize,
    created_round: usize,
    drop_round: Option<usize>,
    drop_mode: DropMode,
    /// 0 = keep consuming, 1 = drop now
    cmd: Rc<Cell<u8>>,
    received: Rc<RefCell<Vec<u32>>>,
    state: Rc<Cell<u8>>, // 0 creating, 1 live, 2 dropped, 3 create failed, 4 ended with error
    task: usize,
    cloned: bool,
}

fn case(ctx: &mut Ctx, index: u64, rng: &mut Rng) {
    ctx.count("evaluations", 1);
    let wire = Wire::new(rng.next_u64());
    let mut sched = Sched::new(Rng::new(rng.next_u64()));
    let bias = *rng.pick(&[(4u64, 3u64, 2u64), (6, 1, 6), (1, 6, 1), (2, 2, 6), (8, 2, 1)]);
    sched.w_ex = bias.0;
    sched.w_h = bias.1;
    sched.w_net = bias.2;
    let conn = match connect_authenticated(&mut sched, &wire) {
        Ok(c) => c,
        Err(e) => {
            ctx.finding(index, "harness-or-hang", "-", "connect", json!({"error": e}));
            return;
        }
    };
    let w2 = wire.clone();
    sched.add_net(Box::new(move || w2.release_one()));
    let mut peer = RawPeer::new(&wire);
    let rounds = 3 + rng.usize_below(6);
    let allow_clone = rng.chance(1, 4);
    let mut streams: Vec<StreamRec> = Vec::new();
    // messages: (id, round, iface, member)
    let mut msgs: Vec<(u32, usize, &'static str, &'static str)> = Vec::new();
    let mut next_id = 1u32;
    let mut snapshots: Vec<(usize, Vec<(String, u64, bool)>)> = Vec::new();
    let mut ops_log: Vec<String> = Vec::new();
    for round in 0..rounds {
        // --- drops
        let live: Vec<usize> = (0..streams.len()).filter(|k| streams[*k].state.get() == 1 && streams[*k].drop_round.is_none()).collect();
        for k in live {
            if rng.chance(1, 4) {
                streams[k].drop_round = Some(round);
                streams[k].cmd.set(1);
                sched.wake(streams[k].task);
                ops_log.push(format!("r{round}: drop s{k} ({:?})", streams[k].drop_mode));
            }
        }
        // --- creations
        let ncreate = if round + 1 == rounds { 0 } else { rng.usize_below(4) };
        for _ in 0..ncreate {
            let rule = rng.usize_below(RULES.len());
            let cap = *rng.pick(&[1usize, 2, 3, 64]);
            let mode = if allow_clone && rng.chance(1, 3) { DropMode::CloneThenDropOriginal } else if rng.bool() { DropMode::Sync } else { DropMode::Async };
            let cmd = Rc::new(Cell::new(0u8));
            let received = Rc::new(RefCell::new(Vec::new()));
            let state = Rc::new(Cell::new(0u8));
            let (c2, r2, s2) = (cmd.clone(), received.clone(), state.clone());
            let conn2 = conn.clone();
            let k = streams.len();
            let task = sched.spawn(&format!("stream-{k}"), async move {
                let mut stream = match MessageStream::for_match_rule(RULES[rule].0, &conn2, Some(cap)).await {
                    Ok(s) => s,
                    Err(_) => {
                        s2.set(3);
                        return;
                    }
                };
                s2.set(1);
                if mode == DropMode::CloneThenDropOriginal {
                    // continue with a clone; the original handle goes away
                    let clone = stream.clone();
                    drop(stream);
                    stream = clone;
                }
                loop {
                    let next = std::future::poll_fn(|cx| {
                        if c2.get() == 1 {
                            return std::task::Poll::Ready(None);
                        }
                        match std::pin::Pin::new(&mut stream).poll_next(cx) {
                            std::task::Poll::Ready(x) => std::task::Poll::Ready(Some(x)),
                            std::task::Poll::Pending => std::task::Poll::Pending,
                        }
                    })
                    .await;
                    match next {
                        None => break, // told to drop
                        Some(Some(Ok(m))) => {
                            let id = m.body().deserialize::<(u32,)>().map(|b| b.0).unwrap_or(0);
                            r2.borrow_mut().push(id);
                        }
                        Some(Some(Err(_))) | Some(None) => {
                            s2.set(4);
                            return;
                        }
                    }
                }
                match mode {
                    DropMode::Async => stream.async_drop().await,
                    _ => drop(stream),
                }
                s2.set(2);
            });
            ops_log.push(format!("r{round}: create s{k} rule{rule} cap{cap} {mode:?}"));
            streams.push(StreamRec { rule, cap, created_round: round, drop_round: None, drop_mode: mode, cmd, received, state, task, cloned: mode == DropMode::CloneThenDropOriginal });
        }
        // --- messages of this round
        let nm = rng.usize_below(7);
        for _ in 0..nm {
            let iface = *rng.pick(&["r.A", "r.B", "r.C"]);
            let member = *rng.pick(&["M1", "M2"]);
            let id = next_id;
            next_id += 1;
            let s = peer.serial();
            let m = Msg::signal(s, "/o", iface, member).with_sender(":1.9").with_body(vec![Val::U(id)]);
            let chunks: Vec<usize> = if rng.bool() { vec![] } else { vec![1 + rng.usize_below(30)] };
            peer.send(&m, vec![], &chunks);
            msgs.push((id, round, iface, member));
        }
        if !sched.run_to_quiescence() {
            ctx.finding(index, "step-bound-hit", "-", "-", json!({"round": round, "ops": ops_log}));
            return;
        }
        // --- structural invariant at the quiescent point (hook)
        let snap: Slot<Vec<(String, u64, bool)>> = slot();
        let s3 = snap.clone();
        let conn3 = conn.clone();
        let t = sched.spawn("snapshot", async move {
            *s3.borrow_mut() = Some(conn3.verif_subscriptions().await);
        });
        sched.run_until_done(t);
        let taken = snap.borrow_mut().take();
        if let Some(v) = taken {
            snapshots.push((round, v));
        }
    }
    let fp = sched.fingerprint();
    drop(sched);
    ctx.distinct(fp ^ fnv(&ops_log.join(";")));
    let any_clone = streams.iter().any(|s| s.cloned && s.state.get() != 3);
    ctx.count(if any_clone { "class:history-with-clone" } else { "class:history-without-clone" }, 1);
    ctx.count("streams_checked", streams.len() as u64);
    ctx.count("messages_sent", msgs.len() as u64);
    let desc = json!({"rounds": rounds, "ops": ops_log, "messages": msgs.iter().map(|m| format!("#{} r{} {}.{}", m.0, m.1, m.2, m.3)).collect::<Vec<_>>(),
                      "received": streams.iter().enumerate().map(|(k, s)| format!("s{k}: {:?}", s.received.borrow())).collect::<Vec<_>>()});
    let mut report = |ctx: &mut Ctx, class: &str, reason: &str, detail: serde_json::Value| {
        ctx.finding(index, class, reason, if any_clone { "history-with-stream-clone" } else { "-" }, detail);
    };
    for (k, s) in streams.iter().enumerate() {
        match s.state.get() {
            3 => {
                report(ctx, "stream-creation-failed", "-", json!({"stream": k, "case": desc}));
                continue;
            }
            4 => {
                report(ctx, "stream-ended-with-error", "-", json!({"stream": k, "case": desc}));
                continue;
            }
            0 => {
                report(ctx, "stream-creation-pending-at-quiescence", "-", json!({"stream": k, "case": desc}));
                continue;
            }
            _ => {}
        }
        if s.drop_round.is_some() && s.state.get() != 2 {
            report(ctx, "drop-pending-at-quiescence", &format!("{:?}", s.drop_mode), json!({"stream": k, "case": desc}));
        }
        let got = s.received.borrow();
        // required: matching messages of rounds strictly inside the stream's life
        let last_round = s.drop_round.unwrap_or(rounds);
        let required: Vec<u32> = msgs.iter().filter(|m| m.1 > s.created_round && m.1 < last_round && rule_matches(s.rule, m.2, m.3)).map(|m| m.0).collect();
        let allowed: Vec<u32> = msgs.iter().filter(|m| m.1 >= s.created_round && m.1 <= last_round && rule_matches(s.rule, m.2, m.3)).map(|m| m.0).collect();
        // no duplicates, increasing ids (= arrival order)
        for w in got.windows(2) {
            if w[1] <= w[0] {
                report(ctx, if w[1] == w[0] { "message-delivered-twice" } else { "messages-out-of-order" }, "-", json!({"stream": k, "ids": [w[0], w[1]], "case": desc}));
                break;
            }
        }
        for id in got.iter() {
            if !allowed.contains(id) {
                let m = msgs.iter().find(|m| m.0 == *id);
                let why = match m {
                    Some(m) if !rule_matches(s.rule, m.2, m.3) => "does-not-match-rule",
                    Some(m) if m.1 < s.created_round => "arrived-before-subscription",
                    Some(_) => "arrived-after-drop",
                    None => "unknown-id",
                };
                report(ctx, "unexpected-message-delivered", why, json!({"stream": k, "id": id, "case": desc}));
                break;
            }
        }
        for id in &required {
            if !got.contains(id) {
                report(ctx, "matching-message-missed", &format!("cap{}", if s.cap >= 64 { "default" } else { "small" }), json!({"stream": k, "id": id, "rule": RULES[s.rule].0, "case": desc}));
                break;
            }
        }
    }
    // hook: at every quiescent point refcount(rule) == number of live handles, and a broadcaster exists
    for (round, snap) in &snapshots {
        for (r, (text, _, _)) in RULES.iter().enumerate() {
            let live = streams.iter().filter(|s| s.rule == r && s.created_round <= *round && s.drop_round.map_or(true, |d| d > *round) && s.state.get() != 3).count() as u64;
            let entry = snap.iter().find(|(t, _, _)| t == text);
            let (count, has_sender) = entry.map(|e| (e.1, e.2)).unwrap_or((0, false));
            if count != live || (live > 0) != has_sender || (live == 0 && entry.is_some()) {
                report(ctx, "subscription-refcount-mismatch", if count > live { "count-too-high" } else if count < live { "count-too-low" } else { "sender-entry" },
                    json!({"round": round, "rule": text, "live_handles": live, "refcount": count, "has_sender": has_sender, "case": desc}));
                break;
            }
        }
    }
    if index % 300 == 0 {
        ctx.sample(desc);
    }
}

// ---------------------------------------------------------------------------------------------------------------
// Class "real-daemon": numbered broadcast signals from another connection through a PRIVATE real dbus-daemon into several
// streams of one connection, each consumed on its own OS thread (true parallelism between the socket reader, the
// broadcasters and the consumers), while a further thread creates and drops unrelated streams. Every burst ends with an
// "End" signal that every stream's rule admits: since a bus and a stream both preserve order, when End is out of a stream
// everything that preceded it must have come out, exactly once and in order — no wall-clock verdict.

#[cfg(not(miri))]
mod real {
    use crate::harness::realbus::*;
    use futures_lite::StreamExt;
    use serde_json::json;
    use std::time::Duration;
    use vcommon::Ctx;
    use vref::prng::{fnv, Rng};
    use zbus::blocking::Connection;
    use zbus::MessageStream;

    /// (rule, does it admit (member, seq)?)
    fn rules(iface: &str) -> Vec<(String, fn(&str, u32) -> bool)> {
        vec![
            (format!("type='signal',interface='{iface}'"), |_, _| true),
            (format!("type='signal',interface='{iface}',path='/s'"), |_, _| true),
            (format!("type='signal',interface='{iface}',path_namespace='/'"), |_, _| true),
            // member-specific rules see only their member (and never End: they are read with a count instead)
            (format!("type='signal',interface='{iface}',member='Odd'"), |m, _| m == "Odd"),
        ]
    }

    pub fn history(ctx: &mut Ctx, index: u64, rng: &mut Rng, daemon: &Daemon) -> Result<(), String> {
        ctx.count("evaluations", 1);
        ctx.count("class:real-daemon", 1);
        let a = daemon.connect()?;
        let b = daemon.connect()?;
        let iface = format!("t.S{index}");
        let rs = rules(&iface);
        let conn = a.inner().clone();
        // 2..5 streams (some over the same rule, some clones, small and default queue capacities)
        let n_streams = 2 + rng.usize_below(4);
        let mut streams: Vec<(usize, MessageStream, &'static str)> = Vec::new();
        for _ in 0..n_streams {
            let r = rng.usize_below(rs.len());
            if rng.chance(1, 4) && !streams.is_empty() {
                let k = rng.usize_below(streams.len());
                let (r0, s0, _) = &streams[k];
                streams.push((*r0, s0.clone(), "clone"));
                continue;
            }
            let cap = *rng.pick(&[None, Some(1usize), Some(2), Some(64)]);
            let text = rs[r].0.clone();
            let c = conn.clone();
            let s = zbus::block_on(async move { MessageStream::for_match_rule(text.as_str(), &c, cap).await }).map_err(|e| format!("for_match_rule on the real bus: {e}"))?;
            streams.push((r, s, "own"));
        }
        // the burst
        let total = 20 + rng.usize_below(if ctx.thorough() { 400 } else { 120 }) as u32;
        let members: Vec<&'static str> = (0..total).map(|k| if k % 2 == 1 { "Odd" } else { "Even" }).collect();
        // consumers
        let mut joins = Vec::new();
        for (k, (r, s, how)) in streams.into_iter().enumerate() {
            let admits = rs[r].1;
            // (streams of the member-specific rule never see End: a last `Odd` signal numbered u32::MAX - 1, sent after End, is their marker)
            let want_n = usize::MAX;
            let slow = rng.chance(1, 3);
            joins.push(std::thread::spawn(move || {
                let mut s = s;
                let mut got: Vec<(String, u32)> = Vec::new();
                let res = zbus::block_on(async {
                    while got.len() < want_n {
                        let m = match s.next().await {
                            Some(Ok(m)) => m,
                            Some(Err(e)) => return Err(format!("stream error: {e}")),
                            None => return Err("stream ended".to_string()),
                        };
                        let member = m.header().member().map(|x| x.to_string()).unwrap_or_default();
                        if member == "End" {
                            break;
                        }
                        let seq: u32 = m.body().deserialize().unwrap_or(u32::MAX);
                        if seq == u32::MAX - 1 {
                            break;
                        }
                        got.push((member, seq));
                        if slow && got.len() % 7 == 0 {
                            std::thread::sleep(Duration::from_micros(300));
                        }
                    }
                    Ok(())
                });
                (k, r, how, admits, got, res)
            }));
        }
        // churn: unrelated streams come and go on the same connection meanwhile
        let churn_conn = conn.clone();
        let churn_rule = format!("type='signal',interface='t.Churn{index}'");
        let stop = std::sync::Arc::new(std::sync::atomic::AtomicBool::new(false));
        let stop2 = stop.clone();
        let churn = std::thread::spawn(move || {
            let mut n = 0u32;
            while !stop2.load(std::sync::atomic::Ordering::Relaxed) && n < 200 {
                let c = churn_conn.clone();
                let t = churn_rule.clone();
                if let Ok(s) = zbus::block_on(async move { MessageStream::for_match_rule(t.as_str(), &c, None).await }) {
                    drop(s);
                }
                n += 1;
            }
            n
        });
        // the sender: numbered signals, then End
        for (k, m) in members.iter().enumerate() {
            b.emit_signal(None::<&str>, "/s", iface.as_str(), *m, &(k as u32)).map_err(|e| format!("emit on the real bus: {e}"))?;
        }
        b.emit_signal(None::<&str>, "/s", iface.as_str(), "End", &(u32::MAX)).map_err(|e| format!("emit on the real bus: {e}"))?;
        b.emit_signal(None::<&str>, "/s", iface.as_str(), "Odd", &(u32::MAX - 1)).map_err(|e| format!("emit on the real bus: {e}"))?;
        ctx.count("real_signals_sent", total as u64 + 1);
        // collect, guarded by a generous watchdog (its firing is INCONCLUSIVE, not a verdict)
        let (tx, rx) = std::sync::mpsc::channel();
        std::thread::spawn(move || {
            let out: Vec<_> = joins.into_iter().map(|j| j.join()).collect();
            let _ = tx.send(out);
        });
        let out = match rx.recv_timeout(Duration::from_secs(120)) {
            Ok(o) => o,
            Err(_) => {
                stop.store(true, std::sync::atomic::Ordering::Relaxed);
                return Err(format!("C20 real-daemon history {index}: the consumers did not finish within 120 s ({total} signals)"));
            }
        };
        stop.store(true, std::sync::atomic::Ordering::Relaxed);
        let churned = churn.join().unwrap_or(0);
        ctx.count("real_churn_streams", churned as u64);
        let mut shape = format!("{total}");
        for j in out {
            let (k, r, how, admits, got, res) = match j {
                Ok(x) => x,
                Err(e) => std::panic::resume_unwind(e),
            };
            ctx.count("real_streams_checked", 1);
            shape.push_str(&format!("|{r}{how}"));
            let want: Vec<(String, u32)> = members.iter().enumerate().filter(|(k, m)| admits(m, *k as u32)).map(|(k, m)| (m.to_string(), k as u32)).collect();
            let detail = json!({"stream": k, "rule": r, "how": how, "sent": total, "expected": want.len(), "received": got.len(),
                                "first_difference": want.iter().zip(got.iter()).position(|(a, b)| a != b), "end": res.clone().err()});
            if let Err(e) = &res {
                ctx.finding(index, "stream-ended-with-error", "-", "real-daemon", json!({"error": e, "state": detail}));
            } else if got != want {
                let reason = if got.len() < want.len() { "missing" } else if got.len() > want.len() { "extra-or-duplicate" } else { "reordered-or-wrong" };
                ctx.finding(index, "delivery-differs", reason, "real-daemon", detail);
            }
        }
        ctx.distinct(fnv(&shape));
        if index % 16 == 0 {
            ctx.sample(json!({"real_daemon_burst": {"signals": total, "streams": shape}}));
        }
        Ok(())
    }

    pub fn run(ctx: &mut Ctx) {
        let n = ctx.budget(280, 8000);
        let daemon = match Daemon::start("c20") {
            Ok(d) => d,
            Err(e) => {
                ctx.problem(&format!("C20 real-daemon class: {e}"));
                return;
            }
        };
        let _keep: Option<Connection> = None;
        for k in 0..n {
            let i = 3_000_000_000 + k;
            if !ctx.want(i) {
                continue;
            }
            let mut rng = ctx.rng(i);
            let mut trouble = None;
            ctx.guarded(i, "real-daemon", || json!({}), |ctx| {
                if let Err(e) = history(ctx, i, &mut rng, &daemon) {
                    trouble = Some(e);
                }
            });
            if let Some(e) = trouble {
                ctx.problem(&format!("C20 real-daemon history {i}: {e}"));
                return;
            }
        }
    }
}

pub fn run(ctx: &mut Ctx) {
    #[cfg(not(miri))]
    real::run(ctx);
    // `--x-only real-daemon`: only the class on the real bus (the ThreadSanitizer layer)
    if ctx.args.extra.get("only").map(|s| s == "real-daemon").unwrap_or(false) {
        return;
    }
    let n = ctx.budget(3000, 150_000);
    for i in 0..n {
        if !ctx.want(i) {
            continue;
        }
        let mut rng = ctx.rng(i);
        ctx.guarded(i, "stream-history", || json!({}), |ctx| case(ctx, i, &mut rng));
    }
}
