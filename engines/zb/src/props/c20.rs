//! C20 — message streams deliver every matching message once, in order, while
//! subscribed; equal rules share one subscription that lives until the last
//! stream goes.
//!
//! Histories are organised in rounds separated by quiescence: within a round
//! stream creations/drops race with incoming messages under the seeded
//! scheduler; a stream that was live through a whole round must receive every
//! matching message of that round, messages of its creation/drop round are
//! optional, anything else is forbidden.

use crate::harness::peer::RawPeer;
use crate::harness::sched::Sched;
use crate::harness::util::*;
use crate::harness::wire::Wire;
use futures_lite::StreamExt;
use serde_json::json;
use std::cell::{Cell, RefCell};
use std::rc::Rc;
use vcommon::Ctx;
use vref::msg::*;
use vref::prng::{fnv, Rng};
use vref::val::Val;
use zbus::{AsyncDrop, MessageStream};

const RULES: &[(&str, Option<&str>, Option<&str>)] = &[
    ("type='signal',interface='r.A'", Some("r.A"), None),
    ("type='signal',interface='r.B'", Some("r.B"), None),
    ("type='signal',interface='r.A',member='M1'", Some("r.A"), Some("M1")),
    ("type='signal'", None, None),
    ("type='signal',member='M2'", None, Some("M2")),
];

fn rule_matches(r: usize, iface: &str, member: &str) -> bool {
    let (_, i, m) = RULES[r];
    i.map_or(true, |x| x == iface) && m.map_or(true, |x| x == member)
}

#[derive(Clone, Copy, PartialEq, Debug)]
enum DropMode {
    Sync,
    Async,
    CloneThenDropOriginal,
}

struct StreamRec {
    rule: usize,
    cap: usize,
    created_round: usize,
    drop_round: Option<usize>,
    drop_mode: DropMode,
    /// 0 = keep consuming, 1 = drop now
    cmd: Rc<Cell<u8>>,
    received: Rc<RefCell<Vec<u32>>>,
    state: Rc<Cell<u8>>, // 0 creating, 1 live, 2 dropped, 3 create failed, 4 ended with error
    task: usize,
    cloned: bool,
}

fn case(ctx: &mut Ctx, index: u64, rng: &mut Rng) {
    ctx.count("evaluations", 1);
    let wire = Wire::new(rng.next_u64());
    let mut sched = Sched::new(Rng::new(rng.next_u64()));
    let bias = *rng.pick(&[(4u64, 3u64, 2u64), (6, 1, 6), (1, 6, 1), (2, 2, 6), (8, 2, 1)]);
    sched.w_ex = bias.0;
    sched.w_h = bias.1;
    sched.w_net = bias.2;
    let conn = match connect_authenticated(&mut sched, &wire) {
        Ok(c) => c,
        Err(e) => {
            ctx.finding(index, "harness-or-hang", "-", "connect", json!({"error": e}));
            return;
        }
    };
    let w2 = wire.clone();
    sched.add_net(Box::new(move || w2.release_one()));
    let mut peer = RawPeer::new(&wire);
    let rounds = 3 + rng.usize_below(6);
    let allow_clone = rng.chance(1, 4);
    let mut streams: Vec<StreamRec> = Vec::new();
    // messages: (id, round, iface, member)
    let mut msgs: Vec<(u32, usize, &'static str, &'static str)> = Vec::new();
    let mut next_id = 1u32;
    let mut snapshots: Vec<(usize, Vec<(String, u64, bool)>)> = Vec::new();
    let mut ops_log: Vec<String> = Vec::new();
    for round in 0..rounds {
        // --- drops
        let live: Vec<usize> = (0..streams.len()).filter(|k| streams[*k].state.get() == 1 && streams[*k].drop_round.is_none()).collect();
        for k in live {
            if rng.chance(1, 4) {
                streams[k].drop_round = Some(round);
                streams[k].cmd.set(1);
                sched.wake(streams[k].task);
                ops_log.push(format!("r{round}: drop s{k} ({:?})", streams[k].drop_mode));
            }
        }
        // --- creations
        let ncreate = if round + 1 == rounds { 0 } else { rng.usize_below(4) };
        for _ in 0..ncreate {
            let rule = rng.usize_below(RULES.len());
            let cap = *rng.pick(&[1usize, 2, 3, 64]);
            let mode = if allow_clone && rng.chance(1, 3) { DropMode::CloneThenDropOriginal } else if rng.bool() { DropMode::Sync } else { DropMode::Async };
            let cmd = Rc::new(Cell::new(0u8));
            let received = Rc::new(RefCell::new(Vec::new()));
            let state = Rc::new(Cell::new(0u8));
            let (c2, r2, s2) = (cmd.clone(), received.clone(), state.clone());
            let conn2 = conn.clone();
            let k = streams.len();
            let task = sched.spawn(&format!("stream-{k}"), async move {
                let mut stream = match MessageStream::for_match_rule(RULES[rule].0, &conn2, Some(cap)).await {
                    Ok(s) => s,
                    Err(_) => {
                        s2.set(3);
                        return;
                    }
                };
                s2.set(1);
                if mode == DropMode::CloneThenDropOriginal {
                    // continue with a clone; the original handle goes away
                    let clone = stream.clone();
                    drop(stream);
                    stream = clone;
                }
                loop {
                    let next = std::future::poll_fn(|cx| {
                        if c2.get() == 1 {
                            return std::task::Poll::Ready(None);
                        }
                        match std::pin::Pin::new(&mut stream).poll_next(cx) {
                            std::task::Poll::Ready(x) => std::task::Poll::Ready(Some(x)),
                            std::task::Poll::Pending => std::task::Poll::Pending,
                        }
                    })
                    .await;
                    match next {
                        None => break, // told to drop
                        Some(Some(Ok(m))) => {
                            let id = m.body().deserialize::<(u32,)>().map(|b| b.0).unwrap_or(0);
                            r2.borrow_mut().push(id);
                        }
                        Some(Some(Err(_))) | Some(None) => {
                            s2.set(4);
                            return;
                        }
                    }
                }
                match mode {
                    DropMode::Async => stream.async_drop().await,
                    _ => drop(stream),
                }
                s2.set(2);
            });
            ops_log.push(format!("r{round}: create s{k} rule{rule} cap{cap} {mode:?}"));
            streams.push(StreamRec { rule, cap, created_round: round, drop_round: None, drop_mode: mode, cmd, received, state, task, cloned: mode == DropMode::CloneThenDropOriginal });
        }
        // --- messages of this round
        let nm = rng.usize_below(7);
        for _ in 0..nm {
            let iface = *rng.pick(&["r.A", "r.B", "r.C"]);
            let member = *rng.pick(&["M1", "M2"]);
            let id = next_id;
            next_id += 1;
            let s = peer.serial();
            let m = Msg::signal(s, "/o", iface, member).with_sender(":1.9").with_body(vec![Val::U(id)]);
            let chunks: Vec<usize> = if rng.bool() { vec![] } else { vec![1 + rng.usize_below(30)] };
            peer.send(&m, vec![], &chunks);
            msgs.push((id, round, iface, member));
        }
        if !sched.run_to_quiescence() {
            ctx.finding(index, "step-bound-hit", "-", "-", json!({"round": round, "ops": ops_log}));
            return;
        }
        // --- structural invariant at the quiescent point (hook)
        let snap: Slot<Vec<(String, u64, bool)>> = slot();
        let s3 = snap.clone();
        let conn3 = conn.clone();
        let t = sched.spawn("snapshot", async move {
            *s3.borrow_mut() = Some(conn3.verif_subscriptions().await);
        });
        sched.run_until_done(t);
        let taken = snap.borrow_mut().take();
        if let Some(v) = taken {
            snapshots.push((round, v));
        }
    }
    let fp = sched.fingerprint();
    drop(sched);
    ctx.distinct(fp ^ fnv(&ops_log.join(";")));
    let any_clone = streams.iter().any(|s| s.cloned && s.state.get() != 3);
    ctx.count(if any_clone { "class:history-with-clone" } else { "class:history-without-clone" }, 1);
    ctx.count("streams_checked", streams.len() as u64);
    ctx.count("messages_sent", msgs.len() as u64);
    let desc = json!({"rounds": rounds, "ops": ops_log, "messages": msgs.iter().map(|m| format!("#{} r{} {}.{}", m.0, m.1, m.2, m.3)).collect::<Vec<_>>(),
                      "received": streams.iter().enumerate().map(|(k, s)| format!("s{k}: {:?}", s.received.borrow())).collect::<Vec<_>>()});
    let mut report = |ctx: &mut Ctx, class: &str, reason: &str, detail: serde_json::Value| {
        ctx.finding(index, class, reason, if any_clone { "history-with-stream-clone" } else { "-" }, detail);
    };
    for (k, s) in streams.iter().enumerate() {
        match s.state.get() {
            3 => {
                report(ctx, "stream-creation-failed", "-", json!({"stream": k, "case": desc}));
                continue;
            }
            4 => {
                report(ctx, "stream-ended-with-error", "-", json!({"stream": k, "case": desc}));
                continue;
            }
            0 => {
                report(ctx, "stream-creation-pending-at-quiescence", "-", json!({"stream": k, "case": desc}));
                continue;
            }
            _ => {}
        }
        if s.drop_round.is_some() && s.state.get() != 2 {
            report(ctx, "drop-pending-at-quiescence", &format!("{:?}", s.drop_mode), json!({"stream": k, "case": desc}));
        }
        let got = s.received.borrow();
        // required: matching messages of rounds strictly inside the stream's life
        let last_round = s.drop_round.unwrap_or(rounds);
        let required: Vec<u32> = msgs.iter().filter(|m| m.1 > s.created_round && m.1 < last_round && rule_matches(s.rule, m.2, m.3)).map(|m| m.0).collect();
        let allowed: Vec<u32> = msgs.iter().filter(|m| m.1 >= s.created_round && m.1 <= last_round && rule_matches(s.rule, m.2, m.3)).map(|m| m.0).collect();
        // no duplicates, increasing ids (= arrival order)
        for w in got.windows(2) {
            if w[1] <= w[0] {
                report(ctx, if w[1] == w[0] { "message-delivered-twice" } else { "messages-out-of-order" }, "-", json!({"stream": k, "ids": [w[0], w[1]], "case": desc}));
                break;
            }
        }
        for id in got.iter() {
            if !allowed.contains(id) {
                let m = msgs.iter().find(|m| m.0 == *id);
                let why = match m {
                    Some(m) if !rule_matches(s.rule, m.2, m.3) => "does-not-match-rule",
                    Some(m) if m.1 < s.created_round => "arrived-before-subscription",
                    Some(_) => "arrived-after-drop",
                    None => "unknown-id",
                };
                report(ctx, "unexpected-message-delivered", why, json!({"stream": k, "id": id, "case": desc}));
                break;
            }
        }
        for id in &required {
            if !got.contains(id) {
                report(ctx, "matching-message-missed", &format!("cap{}", if s.cap >= 64 { "default" } else { "small" }), json!({"stream": k, "id": id, "rule": RULES[s.rule].0, "case": desc}));
                break;
            }
        }
    }
    // hook: at every quiescent point refcount(rule) == number of live handles, and a broadcaster exists
    for (round, snap) in &snapshots {
        for (r, (text, _, _)) in RULES.iter().enumerate() {
            let live = streams.iter().filter(|s| s.rule == r && s.created_round <= *round && s.drop_round.map_or(true, |d| d > *round) && s.state.get() != 3).count() as u64;
            let entry = snap.iter().find(|(t, _, _)| t == text);
            let (count, has_sender) = entry.map(|e| (e.1, e.2)).unwrap_or((0, false));
            if count != live || (live > 0) != has_sender || (live == 0 && entry.is_some()) {
                report(ctx, "subscription-refcount-mismatch", if count > live { "count-too-high" } else if count < live { "count-too-low" } else { "sender-entry" },
                    json!({"round": round, "rule": text, "live_handles": live, "refcount": count, "has_sender": has_sender, "case": desc}));
                break;
            }
        }
    }
    if index % 300 == 0 {
        ctx.sample(desc);
    }
}

pub fn run(ctx: &mut Ctx) {
    let n = ctx.budget(3000, 150_000);
    for i in 0..n {
        if !ctx.want(i) {
            continue;
        }
        let mut rng = ctx.rng(i);
        ctx.guarded(i, "stream-history", || json!({}), |ctx| case(ctx, i, &mut rng));
    }
}
