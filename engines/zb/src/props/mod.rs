pub mod c10;
pub mod c11;
pub mod c12;
pub mod c14;
pub mod c13;
pub mod c15;
pub mod c16;
pub mod c17;
