pub mod c10;
pub mod c11;
pub mod c12;
pub mod c14;
pub mod c13;
